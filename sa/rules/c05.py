"""C05 — every input gets an answer: no hang, no internal error (partial).
Seven disciplines, DESIGN.md §4.5."""
from __future__ import annotations

import ast
import re
import re._parser as sre_parse          # type: ignore
import re._constants as sre_c           # type: ignore
from typing import Dict, List, Optional, Set, Tuple

from ..calls import callgraph, lexer_parsers
from ..cfg import cfg_of
from ..facts import conjuncts, registry_model
from ..fold import RegexConst, fold_in_fn, fold_name, try_fold, Unknown
from ..minieval import Evaluator, Obj, Raised, Unsupported
from ..model import AnalysisError, Undecided, Fn, ancestors, enclosing_fn, parent, text, walk_fn
from ..tri import EndState, BodyResult, explore_body, truthy, T, F, N, U, X

REPO_EXC = ("NorminetteError", "CParsingError", "MaybeInfiniteLoop", "UnexpectedEOF")


# =========================================================================== R-5.1
def _tuple_arity_sites(prog):
    """function key -> (arity, example site) for functions whose result is tuple-unpacked (directly, through a local
    bound to the call, or read by constant index)."""
    from ..dataflow import resolve_local
    cg = callgraph(prog)
    need: Dict[str, Tuple[int, ast.AST]] = {}
    by_node = {id(c.node): c for c in cg.calls if isinstance(c.node, ast.Call)}

    def is_call(v) -> bool:
        return isinstance(v, ast.Call)

    def add(call_node, n, site, indirect=False):
        c = by_node.get(id(call_node))
        if c is None:
            return
        if indirect and (c.how == "by-name" or c.how.startswith("dynamic")):
            return                     # receiver of unknown type: the unpacking does not say which `meth` it constrains
        for t in c.targets:
            if t.name in ("__init__", "__new__"):
                continue
            if t.key not in need or need[t.key][0] < n:
                need[t.key] = (n, site) if t.key not in need else (max(n, need[t.key][0]), need[t.key][1])

    for fn in prog.fns:
        for p in walk_fn(fn.node):
            if isinstance(p, ast.Assign) and len(p.targets) == 1 and isinstance(p.targets[0], (ast.Tuple, ast.List)) \
                    and not any(isinstance(e, ast.Starred) for e in p.targets[0].elts):
                n = len(p.targets[0].elts)
                v = p.value
                indirect = False
                if isinstance(v, ast.Name):
                    v = resolve_local(fn, v, is_call) or v
                    indirect = True
                if isinstance(v, ast.Call):
                    add(v, n, p, indirect)
            elif isinstance(p, ast.Subscript) and isinstance(p.ctx, ast.Load) and isinstance(p.slice, ast.Constant) \
                    and isinstance(p.slice.value, int) and p.slice.value >= 0 and isinstance(p.value, ast.Name):
                v = resolve_local(fn, p.value, is_call)
                if isinstance(v, ast.Call):
                    # res = f(...); res[k]: at least k + 1 components; 2 is the arity of the tree's (bool, int) results
                    add(v, max(2, p.slice.value + 1), p, True)
    # the result of <rule>.run(context) in Registry.run_rules is unpacked into two: stands for every Primary.run
    rr = prog.fn("registry.py::Registry.run_rules")
    run_calls = [n for n in walk_fn(rr.node) if isinstance(n, ast.Call) and isinstance(n.func, ast.Attribute) and n.func.attr == "run"]
    holders = {nm for nm, bs in _all_bindings(rr).items()
               if any(k in ("assign", "walrus") and v is not None and any(v is c or _inside_expr(c, v) for c in run_calls)
                      for k, _, v, _ in bs)}
    stands = None
    for n in walk_fn(rr.node):
        if isinstance(n, ast.Assign) and len(n.targets) == 1 and isinstance(n.targets[0], (ast.Tuple, ast.List)) \
                and len(n.targets[0].elts) == 2:
            if any(isinstance(x, ast.Name) and x.id in holders for x in ast.walk(n.value)) \
                    or any(x is c for x in ast.walk(n.value) for c in run_calls):
                stands = n
        elif isinstance(n, ast.Subscript) and isinstance(n.ctx, ast.Load) and isinstance(n.value, ast.Name) and n.value.id in holders \
                and isinstance(n.slice, ast.Constant) and n.slice.value in (0, 1):
            stands = stands or n
    if stands is None:
        raise AnalysisError("anchor vanished: the result of rule.run(context) is no longer unpacked in Registry.run_rules")
    for c in registry_model(prog).primaries:
        m = prog.method(c.name, "run")
        if m is not None:
            need.setdefault(m.key, (2, stands))
    return need


def _inside_expr(node, root) -> bool:
    return any(x is node for x in ast.walk(root))


def _returns_none_explicitly(fn: Fn) -> bool:
    def none_arm(v) -> bool:
        if v is None or (isinstance(v, ast.Constant) and v.value is None):
            return True
        if isinstance(v, ast.IfExp):
            return none_arm(v.body) or none_arm(v.orelse)
        if isinstance(v, ast.Name):
            # single-exit form: result = None ... return result
            bs = _all_bindings(fn).get(v.id, [])
            return any(k == "assign" and path == () and isinstance(val, ast.Constant) and val.value is None for k, _, val, path in bs)
        return False
    for n in walk_fn(fn.node):
        if isinstance(n, ast.Return) and none_arm(n.value):
            return True
    return False


def rule_ret(run, prog):
    run.rule("R-5.1", "RET: every function whose result is tuple-unpacked returns a tuple of that arity (or the result of "
             "such a function, or raises) on every CFG path; falling off the end / bare return is a violation "
             "(helpers that declare None by an explicit `return None` are Optional-returning and outside the rule, "
             "Primary.run never is)", floor=30)
    cg = callgraph(prog)
    need = _tuple_arity_sites(prog)
    primaries_run = {prog.method(c.name, "run").key for c in registry_model(prog).primaries if prog.method(c.name, "run")}
    # propagate through `return g(...)`
    changed = True
    while changed:
        changed = False
        for key, (ar, site) in list(need.items()):
            fn = prog.fn_by_key[key]
            for n in walk_fn(fn.node):
                if isinstance(n, ast.Return) and isinstance(n.value, ast.Call):
                    for c in cg.calls_of.get(key, []):
                        if c.node is n.value:
                            for t in c.targets:
                                if t.key not in need and t.name not in ("__init__", "__new__"):
                                    need[t.key] = (ar, n)
                                    changed = True
    for key in sorted(need):
        ar, site = need[key]
        fn = prog.fn_by_key[key]
        strict = key in primaries_run
        if not strict and _returns_none_explicitly(fn):
            run.note(f"R-5.1: {key} declares None explicitly (Optional-returning helper), skipped")
            continue
        g = cfg_of(fn)
        bad = []
        for p, lab in g.pred[g.exit]:
            node = g.nodes[p]
            a = node.ast
            if node.kind == "stmt" and isinstance(a, ast.Return):
                v = a.value
                if _ok_return_value(v, ar, need, cg, fn):
                    continue
                bad.append((a, f"returns {text(v) if v is not None else 'nothing'}"))
            else:
                bad.append((a if a is not None else fn.node, "falls off the end (implicit None)"))
        # unreachable returns are not paths
        reach = g.reachable()
        bad = [(a, w) for a, w in bad if g.nid(a) is None or g.nid(a) in reach]
        run.ob("R-5.1", f"{key}::returns[{ar}]", not bad,
               f"{fn.qual} is unpacked into {ar} values but " + "; ".join(f"{w} at line {getattr(a, 'lineno', '?')}" for a, w in bad[:3]),
               bad[0][0] if bad else fn.node, arity=ar, strict=strict)


def _ok_return_value(v, ar, need, cg, fn) -> bool:
    if v is None:
        return False
    if isinstance(v, (ast.Tuple, ast.List)):
        return len(v.elts) == ar and not any(isinstance(e, ast.Starred) for e in v.elts)
    if isinstance(v, ast.IfExp):
        return _ok_return_value(v.body, ar, need, cg, fn) and _ok_return_value(v.orelse, ar, need, cg, fn)
    if isinstance(v, ast.Call):
        for c in cg.calls_of.get(fn.key, []):
            if c.node is v:
                ts = [t for t in c.targets if t.name not in ("__init__", "__new__")]
                return bool(ts) and all(t.key in need and need[t.key][0] == ar for t in ts)
        return False
    if isinstance(v, ast.Name):
        # a local bound only from tuple displays of the right arity / calls of the family
        vals = [n.value for n in walk_fn(fn.node) if isinstance(n, ast.Assign) and any(
            isinstance(t, ast.Name) and t.id == v.id for t in n.targets)]
        return bool(vals) and all(_ok_return_value(x, ar, need, cg, fn) for x in vals)
    return False


def rule_ret_positions(run, prog):
    run.rule("R-5.1b", "RET (positions): every helper whose result is consumed as a number at some resolved call site "
             "(operand of + - < ..., augmented assignment, or bound to a name that is then used as a token position) "
             "returns a value on every CFG path: no falling off the end, no bare return", floor=8)
    cg = callgraph(prog)
    POS_CONSUMERS = ("check_token", "peek_token", "skip_ws", "skip_nest", "eol", "skip_misc_specifier", "pop_tokens")
    numeric: Dict[str, ast.AST] = {}
    for c in cg.calls:
        if not isinstance(c.node, ast.Call) or c.how.startswith("protocol") or c.how == "property":
            continue
        p = parent(c.node)
        use = None
        if isinstance(p, ast.BinOp) or (isinstance(p, ast.AugAssign) and p.value is c.node) or \
                (isinstance(p, ast.Compare) and not any(isinstance(o, (ast.Is, ast.IsNot, ast.Eq, ast.NotEq, ast.In, ast.NotIn)) for o in p.ops)):
            use = p
        elif isinstance(p, ast.Assign) and p.value is c.node and len(p.targets) == 1 and isinstance(p.targets[0], ast.Name):
            nm = p.targets[0].id
            for x in walk_fn(c.caller.node):
                if isinstance(x, ast.Call) and isinstance(x.func, ast.Attribute) and x.func.attr in POS_CONSUMERS and x.args \
                        and any(isinstance(y, ast.Name) and y.id == nm for y in ast.walk(x.args[0])) and x.lineno >= p.lineno:
                    use = p
                    break
        if use is None:
            continue
        for t in c.targets:
            if t.name in ("__init__", "__new__") or t.mod.rel == "errors.py":
                continue
            numeric.setdefault(t.key, use)
    for key in sorted(numeric):
        fn = prog.fn_by_key[key]
        g = cfg_of(fn)
        reach = g.reachable()
        bad = []
        for pnode, lab in g.pred[g.exit]:
            if pnode not in reach:
                continue
            node = g.nodes[pnode]
            a = node.ast
            if node.kind == "stmt" and isinstance(a, ast.Return):
                if a.value is None or (isinstance(a.value, ast.Constant) and a.value.value is None):
                    bad.append((a, "returns None"))
            else:
                bad.append((a if a is not None else fn.node, "falls off the end (implicit None)"))
        run.ob("R-5.1b", f"{key}::returns-a-position", not bad,
               f"{fn.qual} is used as a number ({text(numeric[key], 50)}) but " + "; ".join(
                   f"{w} at line {getattr(a, 'lineno', '?')}" for a, w in bad[:3]) + ": TypeError traceback on that path",
               bad[0][0] if bad else fn.node)


# =========================================================================== R-5.2
def exc_bases(prog, name: str) -> Set[str]:
    import builtins
    b = getattr(builtins, name, None)
    if name not in prog.classes and isinstance(b, type) and issubclass(b, BaseException):
        return {c.__name__ for c in b.__mro__ if c is not object}
    out = {name}
    todo = [name]
    while todo:
        c = todo.pop()
        if c in prog.classes:
            for b in prog.classes[c].bases:
                if b not in out:
                    out.add(b)
                    todo.append(b)
    out |= {"Exception", "BaseException"}
    return out


def _is_exception_class(prog, name: str) -> bool:
    """A repository class that derives (through repository classes) from a builtin exception."""
    import builtins
    seen, todo = set(), [name]
    while todo:
        c = todo.pop()
        if c in seen:
            continue
        seen.add(c)
        if c in prog.classes:
            todo.extend(prog.classes[c].bases)
        else:
            b = getattr(builtins, c, None)
            if isinstance(b, type) and issubclass(b, BaseException):
                return True
    return False


def handler_names(h: ast.ExceptHandler) -> List[str]:
    if h.type is None:
        return ["BaseException"]
    if isinstance(h.type, ast.Tuple):
        return [text(e).split(".")[-1] for e in h.type.elts]
    return [text(h.type).split(".")[-1]]


def caught_at(prog, node, exc: str, stop_fn_node) -> bool:
    """Is an exception of class *exc* raised at *node* caught by a lexically enclosing try (body part) in the same function?"""
    bases = exc_bases(prog, exc)
    cur = node
    for a in ancestors(node):
        if a is stop_fn_node:
            break
        if isinstance(a, ast.Try) and any(cur is s for s in a.body):
            for h in a.handlers:
                if any(nm in bases for nm in handler_names(h)):
                    if _handler_reraises_same(h):
                        break                  # first matching clause wins; it lets the exception continue
                    return True
        if isinstance(a, (ast.With, ast.AsyncWith)) and any(cur is s for s in a.body):
            # with contextlib.suppress(X, ...):
            for it in a.items:
                ce = it.context_expr
                if isinstance(ce, ast.Call) and text(ce.func).split(".")[-1] == "suppress" \
                        and any(text(x).split(".")[-1] in bases for x in ce.args):
                    return True
        cur = a
    return False


def _handler_reraises_same(h: ast.ExceptHandler) -> bool:
    """The clause re-raises the exception it caught (bare `raise`, or `raise <its own name>`) on some path."""
    todo = list(h.body)
    while todo:
        n = todo.pop()
        if isinstance(n, (ast.FunctionDef, ast.AsyncFunctionDef, ast.ClassDef, ast.Lambda)):
            continue
        if isinstance(n, ast.Raise) and (n.exc is None or (isinstance(n.exc, ast.Name) and h.name and n.exc.id == h.name)):
            return True
        if isinstance(n, ast.Try):
            # a bare raise inside a nested handler re-raises that handler's exception, not ours
            todo.extend(n.body + n.orelse + n.finalbody)
            for h2 in n.handlers:
                todo.extend(x for x in h2.body if isinstance(x, ast.Raise) and isinstance(x.exc, ast.Name) and h.name and x.exc.id == h.name)
            continue
        todo.extend(ast.iter_child_nodes(n))
    return False


def _raised_classes(prog, fn: Fn, n: ast.Raise) -> List[str]:
    """Names of the classes a `raise X` / `raise X(...)` / `raise local_variable` statement can raise ([] : a
    re-raise of a caught exception, or not resolvable to a class)."""
    import builtins
    if n.exc is None:
        return []
    target = n.exc.func if isinstance(n.exc, ast.Call) else n.exc

    def is_exc_class(cn: str) -> bool:
        if cn in prog.classes:
            return True
        b = getattr(builtins, cn, None)
        return isinstance(b, type) and issubclass(b, BaseException)
    cn = text(target).split(".")[-1]
    if is_exc_class(cn) and not (isinstance(target, ast.Name) and target.id in _all_bindings(fn)):
        return [cn]
    if isinstance(target, ast.Name):
        out = []
        for kind, node, v, path in _all_bindings(fn).get(target.id, []):
            if kind in ("assign", "walrus") and path == () and v is not None:
                for x in ([v.body, v.orelse] if isinstance(v, ast.IfExp) else [v]):
                    t2 = x.func if isinstance(x, ast.Call) else x
                    c2 = text(t2).split(".")[-1]
                    if is_exc_class(c2):
                        out.append(c2)
        return sorted(set(out))
    return []


def _regex_may_match(pattern: str, flags: int, ch: str) -> bool:
    """May a string matched by the pattern contain character *ch*?  (conservative)"""
    try:
        tree = sre_parse.parse(pattern, flags)
    except Exception:
        return True
    code = ord(ch)

    def in_set(items) -> bool:
        neg = False
        hit = False
        for op, av in items:
            if op is sre_c.NEGATE:
                neg = True
            elif op is sre_c.LITERAL:
                hit |= av == code
            elif op is sre_c.RANGE:
                hit |= av[0] <= code <= av[1]
            elif op is sre_c.CATEGORY:
                hit |= _category_has(av, ch)
        return (not hit) if neg else hit

    def walk(seq) -> bool:
        for op, av in seq:
            if op is sre_c.LITERAL:
                if av == code:
                    return True
            elif op is sre_c.NOT_LITERAL:
                if av != code:
                    return True
            elif op is sre_c.ANY:
                return True
            elif op is sre_c.IN:
                if in_set(av):
                    return True
            elif op is sre_c.CATEGORY:
                if _category_has(av, ch):
                    return True
            elif op is sre_c.BRANCH:
                if any(walk(b) for b in av[1]):
                    return True
            elif op in (sre_c.MAX_REPEAT, sre_c.MIN_REPEAT, getattr(sre_c, "POSSESSIVE_REPEAT", None)):
                if walk(av[2]):
                    return True
            elif op is sre_c.SUBPATTERN:
                if walk(av[3]):
                    return True
            elif op in (sre_c.ASSERT, sre_c.ASSERT_NOT, sre_c.AT):
                continue                   # zero width
            elif op is getattr(sre_c, "ATOMIC_GROUP", None):
                if walk(av):
                    return True
            elif op is sre_c.GROUPREF or op is sre_c.GROUPREF_EXISTS:
                return True
        return False

    return walk(tree)


def _category_has(cat, ch: str) -> bool:
    import re as _re
    table = {
        sre_c.CATEGORY_DIGIT: r"\d", sre_c.CATEGORY_NOT_DIGIT: r"\D",
        sre_c.CATEGORY_SPACE: r"\s", sre_c.CATEGORY_NOT_SPACE: r"\S",
        sre_c.CATEGORY_WORD: r"\w", sre_c.CATEGORY_NOT_WORD: r"\W",
    }
    pat = table.get(cat)
    if pat is None:
        return True
    return _re.match(pat, ch) is not None


PEEKS = ("peek", "raw_peek")
_MISS = object()


# --------------------------------------------------------------------------- constant value sets (flow-insensitive)
def _project(v, path):
    for i in path:
        v = v[i]
    return v


def _iter_elements(v):
    if isinstance(v, dict):
        return list(v)
    if isinstance(v, (tuple, list, frozenset, set, str, range)):
        return list(v)
    raise TypeError("not iterable")


def const_values(fn: Fn, e, _depth=0, _busy=None) -> Optional[list]:
    """The values expression *e* can take anywhere in *fn*, when they all are constants of the tree (folded module
    tables, literals): a list, or None when some contribution is unknown.  Understands what a table-driven rewrite
    introduces: loop / comprehension variables over a folded table (with tuple unpacking), names assigned in several
    branches, elements of a table selected by an unknown index or key, conditional expressions, class-level constants."""
    busy = set() if _busy is None else _busy
    if _depth > 8:
        return None
    v = fold_in_fn(e, fn, default=_MISS)
    if v is not _MISS:
        return [v]

    def rec(x):
        return const_values(fn, x, _depth + 1, busy)

    if isinstance(e, ast.Name):
        if e.id in busy:
            return None
        bs = _all_bindings(fn).get(e.id)
        if not bs:
            return None
        busy.add(e.id)
        try:
            out = []
            for kind, node, val, path in bs:
                if kind in ("aug", "param", "other") or val is None or path is None:
                    return None
                while path and kind in ("assign", "walrus") and isinstance(val, (ast.Tuple, ast.List)) \
                        and not any(isinstance(x, ast.Starred) for x in val.elts) and path[0] < len(val.elts):
                    val, path = val.elts[path[0]], path[1:]         # a, b = x, y
                vals = rec(val)
                if vals is None:
                    return None
                try:
                    if kind in ("for", "comp"):
                        for it in vals:
                            for el in _iter_elements(it):
                                out.append(_project(el, path))
                    else:
                        for x in vals:
                            out.append(_project(x, path))
                except (TypeError, IndexError, KeyError):
                    return None
            return out
        finally:
            busy.discard(e.id)
    if isinstance(e, ast.NamedExpr):
        return rec(e.value)
    if isinstance(e, ast.IfExp):
        a, b = rec(e.body), rec(e.orelse)
        return None if a is None or b is None else a + b
    if isinstance(e, ast.Subscript) and not isinstance(e.slice, ast.Slice):
        bases = rec(e.value)
        if bases is None:
            return None
        idx = rec(e.slice)
        out = []
        try:
            for b in bases:
                if idx is None:
                    out.extend(list(b.values()) if isinstance(b, dict) else _iter_elements(b))
                else:
                    for i in idx:
                        out.append(b[i])
        except (TypeError, IndexError, KeyError):
            return None
        return out
    if isinstance(e, ast.Attribute) and isinstance(e.value, ast.Name) and fn.cls is not None \
            and e.value.id in ("self", "cls", fn.cls.name) and e.attr in fn.cls.attrs:
        v = try_fold(fn.cls.attrs[e.attr], fn.mod, default=_MISS)
        return None if v is _MISS else [v]
    if isinstance(e, ast.Call) and isinstance(e.func, ast.Name) and len(e.args) >= 1 and not e.keywords \
            and e.func.id in ("enumerate", "reversed", "sorted", "list", "tuple", "iter", "set", "frozenset"):
        bases = rec(e.args[0])
        if bases is None:
            return None
        try:
            if e.func.id == "enumerate":
                return [list(enumerate(_iter_elements(b))) for b in bases]
            return [list(_iter_elements(b)) for b in bases]
        except TypeError:
            return None
    if isinstance(e, ast.Call) and isinstance(e.func, ast.Attribute) and e.func.attr in ("items", "values", "keys") and not e.args:
        bases = rec(e.func.value)
        if bases is None or not all(isinstance(b, dict) for b in bases):
            return None
        return [list(getattr(b, e.func.attr)()) for b in bases]
    if isinstance(e, ast.Call) and isinstance(e.func, ast.Attribute) and e.func.attr == "get" and 1 <= len(e.args) <= 2:
        bases = rec(e.func.value)
        if bases is None or not all(isinstance(b, dict) for b in bases):
            return None
        dflt = rec(e.args[1]) if len(e.args) == 2 else [None]
        if dflt is None:
            return None
        return [x for b in bases for x in b.values()] + dflt
    if isinstance(e, (ast.Tuple, ast.List)) and not any(isinstance(x, ast.Starred) for x in e.elts):
        parts = [rec(x) for x in e.elts]
        if any(p_ is None for p_ in parts):
            return None
        combos = [[]]
        for p_ in parts:
            combos = [c + [x] for c in combos for x in p_]
            if len(combos) > 256:
                return None
        return [tuple(c) if isinstance(e, ast.Tuple) else c for c in combos]
    return None


# --------------------------------------------------------------------------- head-verification guards
def _peek_roots(fn: Fn, g) -> Dict[str, Set[int]]:
    """Names bound (transitively, by unpacking / iteration) from self.peek() / self.raw_peek() results ->
    the CFG nodes where the look-up they stem from is made."""
    names: Dict[str, Set[int]] = {}
    changed = True
    while changed:
        changed = False
        for n in walk_fn(fn.node):
            tgt = val = None
            if isinstance(n, ast.Assign) and len(n.targets) == 1:
                tgt, val = n.targets[0], n.value
            elif isinstance(n, ast.NamedExpr):
                tgt, val = n.target, n.value
            elif isinstance(n, ast.For):
                tgt, val = n.target, n.iter
            if tgt is None:
                continue
            roots: Set[int] = set()
            here = _cfg_node_of_expr(g, n)
            for c in ast.walk(val):
                if isinstance(c, ast.Call) and isinstance(c.func, ast.Attribute) and c.func.attr in PEEKS and here is not None:
                    roots.add(here)
                if isinstance(c, ast.Name) and c.id in names:
                    roots |= names[c.id]
            if roots:
                for nm in _tnames(tgt):
                    if nm == "_":
                        continue
                    if not roots <= names.get(nm, set()):
                        names.setdefault(nm, set()).update(roots)
                        changed = True
    return names


def _peek_derived_names(fn: Fn) -> Set[str]:
    return set(_peek_roots(fn, cfg_of(fn)))


def _tnames(t):
    if isinstance(t, ast.Name):
        return [t.id]
    if isinstance(t, (ast.Tuple, ast.List)):
        out = []
        for e in t.elts:
            out += _tnames(e)
        return out
    return []


def _const_without(fn: Fn, node, ch: str, peeked: Set[str]) -> bool:
    """Every value the expression can take is a constant (str / container of str / dict) none of whose
    members contains *ch*; or it is built from already guarded peek-derived names and such constants."""
    vals = const_values(fn, node)
    if vals is None:
        if isinstance(node, ast.BinOp):
            return all(_const_without(fn, s, ch, peeked) or (isinstance(s, ast.Name) and s.id in peeked)
                       or isinstance(s, ast.Constant) and isinstance(s.value, int)
                       for s in (node.left, node.right))
        return False

    def free(v) -> bool:
        if isinstance(v, str):
            return ch not in v
        if isinstance(v, (dict, tuple, list, frozenset, set)):
            return all(isinstance(k, str) and ch not in k for k in v)
        return False
    return bool(vals) and all(free(v) for v in vals)


def _is_none(e) -> bool:
    return isinstance(e, ast.Constant) and e.value is None


def _regex_of_call(fn: Fn, c):
    """[RegexConst, ...] a `<pattern>.match(...)` / `re.match(<pattern>, ...)` call (also fullmatch) can use, else None."""
    if not (isinstance(c, ast.Call) and isinstance(c.func, ast.Attribute) and c.func.attr in ("match", "fullmatch")):
        return None
    recv = c.func.value
    if isinstance(recv, ast.Name) and recv.id == "re" and "re" in fn.mod.imports and c.args:
        pats = const_values(fn, c.args[0])
        flags = [0]
        fl = c.args[2] if len(c.args) > 2 else next((k.value for k in c.keywords if k.arg == "flags"), None)
        if fl is not None:
            flags = const_values(fn, fl)
        if pats is None or flags is None:
            return None
        out = []
        for p_ in pats:
            for f_ in flags:
                if isinstance(p_, RegexConst):
                    out.append(p_)
                elif isinstance(p_, str) and isinstance(f_, int):
                    out.append(RegexConst(p_, f_))
                else:
                    return None
        return out or None
    vals = const_values(fn, recv)
    if not vals or not all(isinstance(v, RegexConst) for v in vals):
        return None
    return vals


def _source_at_pos(fn: Fn, g, subj, call, pops) -> bool:
    """Is *subj* (the subject of a match call) the source text from the current position on -- spelled
    <...>.source[<...>.__pos:] directly, or through local aliases that no pop can have made stale?"""
    from ..dataflow import expand_aliases, resolve_local

    def pure(v) -> bool:
        return not any(isinstance(x, (ast.Call, ast.NamedExpr, ast.Await, ast.Yield, ast.YieldFrom)) for x in ast.walk(v))
    here = _cfg_node_of_expr(g, call)
    # staleness: an alias holding a slice of the source must have been (re)computed after the last pop
    for nm in [x for x in ast.walk(subj) if isinstance(x, ast.Name) and isinstance(x.ctx, ast.Load)]:
        v = resolve_local(fn, nm, pure)
        if v is not None and any(isinstance(x, ast.Attribute) and x.attr.endswith("__pos") for x in ast.walk(v)):
            defs = {n.id for n in g.nodes if n.kind == "stmt" and isinstance(n.ast, (ast.Assign, ast.AnnAssign))
                    and nm.id in _tnames(n.ast.targets[0] if isinstance(n.ast, ast.Assign) else n.ast.target)}
            if here is None or any(p_ == here or g.can_reach(p_, here, avoid=defs) for p_ in pops):
                return False
    e = expand_aliases(fn, subj, pure)
    if not (isinstance(e, ast.Subscript) and isinstance(e.slice, ast.Slice) and e.slice.upper is None and e.slice.step is None
            and e.slice.lower is not None):
        return False
    lo, base = e.slice.lower, e.value
    return isinstance(lo, ast.Attribute) and lo.attr.endswith("__pos") and isinstance(base, ast.Attribute) and base.attr == "source"


def _guards(fn: Fn, g):
    """Strong guards: places that establish 'the next character(s) are drawn from a backslash-free set'.
    Returns (unconditional: set of node ids, edges: {test node id: 'T' | 'F'})  -- for a test node the
    restriction holds on the outgoing edge with that label only.

    A guard is a test of the look-ahead (self.peek() / self.raw_peek(), directly or through names bound from them)
    against backslash-free constants, or the success of a regular-expression match whose language is backslash-free
    (the pattern may be any of the constants a table-driven rewrite selects from), tested directly, through the name
    (or filtered collection) bound to the match, through any() over the attempts, or through a boolean flag that is
    only set behind such a guard.  A test on a *name* counts only while the name is fresh: no pop may lie between the
    look-up / match that produced it and the test."""
    peek_roots = _peek_roots(fn, g)
    peeked = set(peek_roots)
    pops = {_cfg_node_of_expr(g, p) for p in _pop_sites(fn)}
    pops.discard(None)
    binds = _all_bindings(fn)

    def mentions_peek(e) -> bool:
        for c in ast.walk(e):
            if isinstance(c, ast.Call) and isinstance(c.func, ast.Attribute) and c.func.attr in PEEKS:
                return True
            if isinstance(c, ast.Name) and c.id in peeked:
                return True
        return False

    # names that (may) hold undecoded text (raw_peek): a `?` there can be the start of the trigraph `??/`, which pop()
    # decodes to a backslash -- constants compared with raw look-ahead must exclude `?` as well
    raw_names: Set[str] = set()
    grew = True
    while grew:
        grew = False
        for nm, bs in binds.items():
            if nm in raw_names:
                continue
            for k, _, v, _ in bs:
                if v is not None and any((isinstance(c, ast.Call) and isinstance(c.func, ast.Attribute) and c.func.attr == "raw_peek")
                                         or (isinstance(c, ast.Name) and c.id in raw_names) for c in ast.walk(v)):
                    raw_names.add(nm)
                    grew = True
                    break

    def is_raw(e) -> bool:
        return any((isinstance(c, ast.Call) and isinstance(c.func, ast.Attribute) and c.func.attr == "raw_peek")
                   or (isinstance(c, ast.Name) and c.id in raw_names) for c in ast.walk(e))

    def safe_const(look, const) -> bool:
        return _const_without(fn, const, "\\", peeked) and (not is_raw(look) or _const_without(fn, const, "?", peeked))

    match_cache: Dict[int, bool] = {}

    def is_match_call(c) -> bool:
        """<backslash-free pattern>.match(<the source from the current position on>), or a look-up of the look-ahead in
        a constant dict with backslash-free keys and truthy values (None when the key is missing)."""
        k = id(c)
        if k not in match_cache:
            rcs = _regex_of_call(fn, c)
            ok = bool(rcs) and not any(_regex_may_match(rc.pattern, rc.flags, "\\") or _regex_may_match(rc.pattern, rc.flags, "?")
                                       for rc in rcs)
            if ok:
                subj = c.args[1] if (isinstance(c.func.value, ast.Name) and c.func.value.id == "re") and len(c.args) > 1 \
                    else (c.args[0] if c.args else None)
                ok = subj is not None and len(c.args) <= (3 if subj is not c.args[0] else 1) and _source_at_pos(fn, g, subj, c, pops)
            if not ok and isinstance(c, ast.Call) and isinstance(c.func, ast.Attribute) and c.func.attr == "get" \
                    and 1 <= len(c.args) <= 2 and not c.keywords and (len(c.args) == 1 or _is_none(c.args[1])) \
                    and mentions_peek(c.args[0]):
                tabs = const_values(fn, c.func.value)
                raw = is_raw(c.args[0])
                ok = bool(tabs) and all(isinstance(t, dict) and t and all(isinstance(k_, str) and "\\" not in k_ and v_
                                                                        and not (raw and "?" in k_)
                                                                        for k_, v_ in t.items()) for t in tabs)
            match_cache[k] = ok
        return match_cache[k]

    # ---- names bound to a match result (None when it failed) or to a filtered collection of successful matches
    match_names: Dict[str, Set[int]] = {}          # name -> CFG nodes where the match is attempted

    def match_valued(e, strict=True) -> bool:
        """The value is a match object of a backslash-free pattern at the current position, or falsy."""
        if is_match_call(e):
            return True
        if isinstance(e, ast.Name):
            return e.id in match_names
        if isinstance(e, ast.NamedExpr):
            return match_valued(e.value)
        if isinstance(e, ast.IfExp):
            return (match_valued(e.body) or _is_none(e.body)) and (match_valued(e.orelse) or _is_none(e.orelse)) \
                and not (_is_none(e.body) and _is_none(e.orelse))
        if isinstance(e, ast.BoolOp):
            return all(match_valued(v) or _is_none(v) for v in e.values) and any(match_valued(v) for v in e.values)
        if isinstance(e, ast.Call) and isinstance(e.func, ast.Name) and e.func.id == "next" and len(e.args) == 2 \
                and _is_none(e.args[1]) and isinstance(e.args[0], (ast.GeneratorExp, ast.ListComp)):
            comp = e.args[0]
            return match_valued(comp.elt) or (filtered(comp) and isinstance(comp.elt, (ast.Tuple, ast.List)) and bool(comp.elt.elts))
        if isinstance(e, ast.Call) and isinstance(e.func, ast.Name) and e.func.id in ("list", "tuple") and len(e.args) == 1:
            a0 = e.args[0]
            if isinstance(a0, ast.Call) and isinstance(a0.func, ast.Name) and a0.func.id == "filter" and len(a0.args) == 2 \
                    and _is_none(a0.args[0]) and isinstance(a0.args[1], (ast.GeneratorExp, ast.ListComp)):
                return match_valued(a0.args[1].elt)          # list(filter(None, (p.match(s) for p in P)))
            return filtered(a0) if isinstance(a0, (ast.GeneratorExp, ast.ListComp)) else match_valued(a0)
        if isinstance(e, ast.ListComp):
            # a collection is non-empty exactly when its filter passed once: the filter must be a guard
            return filtered(e)
        if isinstance(e, ast.Subscript) and isinstance(e.value, ast.Name) and e.value.id in match_names \
                and not isinstance(e.slice, ast.Slice):
            return True
        return False

    def filtered(comp) -> bool:
        return any(side(c) == "T" for gen in comp.generators for c in gen.ifs)

    def match_roots(e) -> Set[int]:
        out: Set[int] = set()
        here = _cfg_node_of_expr(g, e)
        for c in ast.walk(e):
            if isinstance(c, ast.Call) and is_match_call(c) and here is not None:
                out.add(here)
            if isinstance(c, ast.Name) and c.id in match_names:
                out |= match_names[c.id]
        return out

    flags = _bool_flags(fn, with_none=False)
    flag_ok: Set[str] = set()

    def fresh(names, t) -> bool:
        """No pop can reach test node *t* without renewing every name of *names* on the way."""
        for nm in names:
            roots = peek_roots.get(nm, set()) | match_names.get(nm, set())
            if nm in flag_ok:
                roots = {g.nid(b[1]) for b in binds.get(nm, [])} - {None}
            if t in roots:
                continue
            for p_ in pops:
                if p_ == t or g.can_reach(p_, t, avoid=roots):
                    return False
        return True

    cur_test = [None]

    def names_fresh(e) -> bool:
        if cur_test[0] is None:
            return True
        used = {c.id for c in ast.walk(e) if isinstance(c, ast.Name) and (c.id in peeked or c.id in match_names or c.id in flag_ok)}
        direct = any(isinstance(c, ast.Call) and isinstance(c.func, ast.Attribute) and c.func.attr in PEEKS for c in ast.walk(e))
        if direct and not used:
            return True
        return fresh(used, cur_test[0])

    def side(e) -> Optional[str]:
        """On which outcome of *e* is the restriction established?"""
        if isinstance(e, ast.UnaryOp) and isinstance(e.op, ast.Not):
            r = side(e.operand)
            return {"T": "F", "F": "T"}.get(r)
        if isinstance(e, ast.BoolOp):
            rs = [side(v) for v in e.values]
            if isinstance(e.op, ast.And):
                return "T" if "T" in rs else None
            return "F" if "F" in rs else None
        if isinstance(e, ast.Compare) and len(e.ops) == 1:
            l, op, r = e.left, e.ops[0], e.comparators[0]
            # <match> is None / is not None ;  len(<matches>) > 0 ...
            if _is_none(r) and match_valued(l) and names_fresh(l):
                if isinstance(op, (ast.Is, ast.Eq)):
                    return "F"
                if isinstance(op, (ast.IsNot, ast.NotEq)):
                    return "T"
            if isinstance(l, ast.Call) and isinstance(l.func, ast.Name) and l.func.id == "len" and len(l.args) == 1 \
                    and match_valued(l.args[0]) and isinstance(r, ast.Constant) and isinstance(r.value, int) and names_fresh(l):
                k = r.value
                if (isinstance(op, ast.Gt) and k >= 0) or (isinstance(op, ast.GtE) and k >= 1) or (isinstance(op, ast.NotEq) and k == 0):
                    return "T"
                if (isinstance(op, ast.Eq) and k == 0) or (isinstance(op, ast.Lt) and k == 1) or (isinstance(op, ast.LtE) and k == 0):
                    return "F"
            if isinstance(l, ast.Name) and l.id in flag_ok and isinstance(r, ast.Constant) and isinstance(r.value, bool) and names_fresh(l):
                pos = isinstance(op, (ast.Is, ast.Eq))
                if isinstance(op, (ast.Is, ast.Eq, ast.IsNot, ast.NotEq)):
                    return "T" if pos == r.value else "F"
            ok = (mentions_peek(l) and safe_const(l, r)) or (mentions_peek(r) and safe_const(r, l))
            if ok and not names_fresh(e):
                ok = False
            if ok and isinstance(op, (ast.In, ast.Eq)):
                return "T"
            if ok and isinstance(op, (ast.NotIn, ast.NotEq)):
                return "F"
            return None
        if isinstance(e, ast.Call) and isinstance(e.func, ast.Attribute) and e.func.attr in ("startswith", "endswith") \
                and mentions_peek(e.func.value) and e.args and safe_const(e.func.value, e.args[0]) and names_fresh(e):
            return "T"
        if isinstance(e, ast.Call) and isinstance(e.func, ast.Name) and e.func.id == "any" and len(e.args) == 1 \
                and isinstance(e.args[0], (ast.GeneratorExp, ast.ListComp)):
            comp = e.args[0]
            if side(comp.elt) == "T" or any(side(c) == "T" for gen in comp.generators for c in gen.ifs):
                return "T"
            return None
        if isinstance(e, ast.Call) and isinstance(e.func, ast.Name) and e.func.id == "bool" and len(e.args) == 1:
            return side(e.args[0])
        if isinstance(e, ast.Name) and e.id in flag_ok:
            return "T" if names_fresh(e) else None
        if match_valued(e):
            return "T" if names_fresh(e) else None
        return None

    # fixed point: match names
    changed = True
    while changed:
        changed = False
        for nm, bs in binds.items():
            if not all(k in ("assign", "walrus") and path == () and v is not None for k, _, v, path in bs):
                continue
            if all(match_valued(v) or _is_none(v) for _, _, v, _ in bs) and any(match_valued(v) for _, _, v, _ in bs):
                roots: Set[int] = set()
                for _, node, v, _ in bs:
                    roots |= match_roots(v if not isinstance(node, ast.NamedExpr) else node)
                if nm not in match_names or not roots <= match_names[nm]:
                    match_names.setdefault(nm, set()).update(roots)
                    changed = True

    def collect():
        uncond: Set[int] = set()
        edges: Dict[int, str] = {}
        for node in g.nodes:
            a = node.ast
            if a is None or node.kind != "test":
                continue
            cur_test[0] = node.id
            r = side(a)
            cur_test[0] = None
            if r is not None:
                edges[node.id] = r
        return uncond, edges

    uncond, edges = collect()
    # boolean flags that are set to True only behind a guard: testing the flag is testing the guard
    if flags:
        def unguarded_edge(n, m, lab) -> bool:
            return not (n in edges and lab == edges[n])
        for _round in range(3):
            new = set()
            for f_ in flags - flag_ok:
                sets_true = [g.nid(b[1]) for b in binds[f_] if b[2].value is True]
                if not sets_true or None in sets_true:
                    continue
                if all(not any(g.can_reach(s0, t_, edge_filter=unguarded_edge) for s0 in [g.entry] + sorted(pops))
                       for t_ in sets_true):
                    new.add(f_)
            if not new:
                break
            flag_ok |= new
            uncond, edges = collect()
    return uncond, edges


def _pop_sites(fn: Fn):
    return [n for n in walk_fn(fn.node) if isinstance(n, ast.Call) and isinstance(n.func, ast.Attribute)
            and n.func.attr == "pop" and isinstance(n.func.value, ast.Name) and n.func.value.id == "self"]


def _cfg_node_of_expr(g, e):
    n = e
    while n is not None:
        nid = g.nid(n)
        if nid is not None:
            return nid
        if isinstance(n, (ast.If, ast.While)):
            t = g.nid(n.test)
            if t is not None:
                return t
        if isinstance(n, (ast.FunctionDef, ast.AsyncFunctionDef, ast.Lambda)):
            return None
        n = parent(n)
    return None


def head_verified(fn: Fn, pop_call) -> bool:
    """Every path to this pop -- from the function entry, or from a previous pop (this one included,
    around a loop) -- establishes a strong guard first (traverses a restricted edge of a guard test,
    or an unconditional guard statement)."""
    g = cfg_of(fn)
    k = id(fn.node)
    if k not in _GUARD_CACHE:
        _GUARD_CACHE[k] = _guards(fn, g)
    uncond, edges = _GUARD_CACHE[k]
    site = _cfg_node_of_expr(g, pop_call)
    if site is None:
        return False
    pops = {_cfg_node_of_expr(g, p) for p in _pop_sites(fn)}
    pops.discard(None)

    def unguarded_edge(n, m, lab) -> bool:
        return not (n in edges and lab == edges[n])

    for s in [g.entry] + sorted(pops):
        if flag_can_reach(g, fn, s, site, avoid=uncond - {site}, edge_filter=unguarded_edge):
            return False
    return True


_GUARD_CACHE: Dict[int, tuple] = {}


def rule_exc(run, prog):
    run.rule("R-5.2", "EXC: repository exceptions raised below the per-file try of main are all covered by one of its "
             "handlers; below Lexer.__iter__ (tokenizer totality) nothing may escape: every self.pop() in a sub-parser "
             "is head-verified (dominated, since the previous pop, by a test restricting the next characters to a "
             "backslash-free set) or inside try/except UnexpectedEOF; explicit raises are caught before the entry",
             floor=30)
    cg = callgraph(prog)
    # ---- raise sites
    raises = []     # (fn, node, class)
    for fn in prog.fns:
        for n in walk_fn(fn.node):
            if isinstance(n, ast.Raise) and n.exc is not None:
                for cn in _raised_classes(prog, fn, n):
                    if cn in prog.classes and prog.is_sub(cn, "NorminetteError"):
                        raises.append((fn, n, cn))
                    elif cn in prog.classes and not prog.is_sub(cn, "NorminetteError") and fn.mod.rel != "__main__.py" \
                            and any(b in exc_bases(prog, cn) for b in ("Exception", "BaseException")) \
                            and _is_exception_class(prog, cn):
                        raises.append((fn, n, cn))      # a repository exception outside the NorminetteError family
                    elif cn not in prog.classes and fn.mod.rel != "__main__.py":
                        raises.append((fn, n, cn))      # explicit raise of a builtin exception below main
    run.require(len(raises) >= 25, f"only {len(raises)} repository raise sites found (floor 25)")

    # escaping[fn key] = set of (class, origin key)  computed to a fixed point
    escaping: Dict[str, Set[Tuple[str, str]]] = {}
    origin_node = {}
    for fn, n, cn in raises:
        if not caught_at(prog, n, cn, fn.node):
            okey = f"{fn.key}::raise[{cn}]"
            k2 = okey
            i = 2
            while k2 in origin_node and origin_node[k2] is not n:
                k2 = f"{okey}#{i}"
                i += 1
            origin_node[k2] = n
            escaping.setdefault(fn.key, set()).add((cn, k2))
    lexer_fns = {f.key for f in prog.fns if f.cls is not None and f.cls.name == "Lexer"}
    pop_key = "lexer/lexer.py::Lexer.pop"
    head_cache: Dict[int, bool] = {}
    all_calls = list(cg.calls) + _alias_calls(prog, cg)
    calls_of_main_extra = [c for c in all_calls[len(cg.calls):] if c.caller.key == "__main__.py::main"]
    changed = True
    while changed:
        changed = False
        for c in all_calls:
            if not isinstance(c.node, ast.Call) and not isinstance(c.node, (ast.For, ast.comprehension, ast.Attribute)):
                continue
            for t in c.targets:
                for (cn, okey) in list(escaping.get(t.key, ())):
                    caller = c.caller
                    if caught_at(prog, c.node, cn, caller.node):
                        continue
                    # feasibility refinement for Lexer.pop
                    if t.key == pop_key and caller.key in lexer_fns and isinstance(c.node, ast.Call):
                        hv = head_cache.get(id(c.node))
                        if hv is None:
                            hv = head_verified(caller, c.node)
                            head_cache[id(c.node)] = hv
                        if hv:
                            continue
                    s = escaping.setdefault(caller.key, set())
                    if (cn, okey) not in s:
                        s.add((cn, okey))
                        changed = True
    # ---- obligation A: main's per-file try covers everything escaping its body
    main = prog.fn("__main__.py::main")
    run_key = "registry.py::Registry.run"
    trys = [n for n in walk_fn(main.node) if isinstance(n, ast.Try) and n.handlers and any(
        any(t.key == run_key for t in c.targets) and any(_inside(c.node, s_) for s_ in n.body)
        for c in cg.calls_of.get(main.key, []) + calls_of_main_extra)]
    if not trys:
        trys = [n for n in walk_fn(main.node) if isinstance(n, ast.Try) and any(
            isinstance(c, ast.Call) and text(c.func).endswith("registry.run") for s_ in n.body for c in ast.walk(s_))]
    # the innermost such try is the per-file one
    trys = [t_ for t_ in trys if not any(o is not t_ and _inside(o, t_) for o in trys)]
    run.require(len(trys) == 1, "anchor vanished: per-file try of main")
    tr = trys[0]
    body_calls = [c for c in cg.calls_of.get(main.key, []) + calls_of_main_extra
                  if any(c.node is x or _inside(c.node, s) for s in tr.body for x in [s])]
    run.require(len(body_calls) >= 3, "per-file try body has fewer than 3 resolved calls")
    reported = set()
    n_ob = 0
    for c in body_calls:
        for t in c.targets:
            for (cn, okey) in sorted(escaping.get(t.key, ())):
                if (cn, okey) in reported:
                    continue
                reported.add((cn, okey))
                covered = any(nm in exc_bases(prog, cn) for h in tr.handlers for nm in handler_names(h))
                n_ob += 1
                run.ob("R-5.2", f"{okey}->entry[main]", covered,
                       f"{cn} raised at {okey} can reach main's per-file try, which has no handler for it: traceback",
                       origin_node.get(okey), handlers=[handler_names(h) for h in tr.handlers])
    # ---- obligation B: tokenizer totality (entry Lexer.__iter__, allowed set empty)
    it = prog.fn("lexer/lexer.py::Lexer.__iter__")
    for (cn, okey) in sorted(escaping.get(it.key, ())):
        if not okey.startswith("lexer/"):
            # raised while the text is obtained (File.source reading the disk), not while a string is turned into tokens: the
            # totality clause quantifies over strings; the exception is still owed a handler in main (obligation A)
            run.note(f"R-5.2: {cn} raised at {okey} passes through Lexer.__iter__ but is not raised by the tokenizer: judged at main only")
            continue
        run.ob("R-5.2", f"{okey}->entry[Lexer.__iter__]", False,
               f"{cn} raised at {okey} can escape the tokenizer (Lexer.__iter__): the tokenizer is not total",
               origin_node.get(okey))
    # ---- obligation C: pop call sites
    parsers = lexer_parsers(prog)
    npop = 0
    for fn in [f for f in prog.fns if f.key in lexer_fns and f.name not in ("pop",)]:
        seen_here = 0
        for pc in _pop_sites(fn):
            npop += 1
            seen_here += 1
            hv = head_cache.get(id(pc))
            if hv is None:
                hv = head_verified(fn, pc)
            protected = caught_at(prog, pc, "UnexpectedEOF", fn.node)
            run.ob("R-5.2", f"{fn.key}::pop[{'head' if hv else 'content'}]", hv or protected,
                   "content pop (next character not restricted by a dominating test) outside try/except UnexpectedEOF: "
                   "a backslash-newline at end of input ends in a traceback", pc, head_verified=hv, in_try=protected)
    run.require(npop >= 15, f"only {npop} self.pop() call sites found in the lexer (floor 15)")
    # ---- CParsingError must not be swallowed below main (R-7.3 shares this)
    for fn in prog.fns:
        if fn.mod.rel == "__main__.py":
            continue
        for n in walk_fn(fn.node):
            if isinstance(n, ast.Try):
                for h in n.handlers:
                    names = handler_names(h)
                    if any(nm in ("CParsingError", "NorminetteError", "Exception", "BaseException") for nm in names):
                        reraises = any(isinstance(x, ast.Raise) for x in ast.walk(h))
                        run.ob("R-5.2", f"{fn.key}::handler[{','.join(names)}]", reraises,
                               "a handler below main swallows fatal parse errors (no raise inside it)", h)


def _alias_calls(prog, cg):
    """Calls through a local alias of a bound method (`check = registry.run; check(context)`), which the call graph
    leaves unresolved: resolved here through the single reaching definition of the alias."""
    from ..calls import Call as CGCall
    from ..dataflow import resolve_local, is_path
    out = []
    resolved = {id(c.node) for c in cg.calls if c.targets}
    parsers = None
    for fn in prog.fns:
        local = None
        for n in walk_fn(fn.node):
            if isinstance(n, ast.Call) and id(n) not in resolved and fn.cls is not None and fn.cls.name == "Lexer":
                # self.parsers[index](self) / (a local bound to an element of self.parsers)(self): any sub-parser
                f = n.func
                if isinstance(f, ast.Name):
                    f = resolve_local(fn, f, lambda v: isinstance(v, ast.Subscript)) or f
                if isinstance(f, ast.Subscript) and isinstance(f.value, ast.Attribute) and f.value.attr == "parsers":
                    if parsers is None:
                        parsers = lexer_parsers(prog)
                    out.append(CGCall(fn, n, list(parsers), "alias:parsers"))
                    continue
            if not (isinstance(n, ast.Call) and isinstance(n.func, ast.Name)):
                continue
            if local is None:
                local = {k for k, bs in _all_bindings(fn).items() if any(b[0] == "assign" for b in bs)}
            if n.func.id not in local:
                continue
            v = resolve_local(fn, n.func, is_path)
            if not isinstance(v, ast.Attribute):
                continue
            synth = ast.copy_location(ast.Call(func=v, args=n.args, keywords=n.keywords), n)
            targets, how = cg.resolve(synth, fn)
            if targets and how in ("typed", "super"):
                out.append(CGCall(fn, n, targets, "alias:" + how))
    return out


def _inside(node, container) -> bool:
    n = node
    while n is not None:
        if n is container:
            return True
        n = parent(n)
    return False


# =========================================================================== R-5.3
BOUNDED_CYCLES = {
    ("registry.py::Registry.run_rules",):
        "depth 2: a Check never yields ret (run_rules maps non-Primary results to (False, 0)), so the recursive calls do not recurse",
    ("context.py::Context.update",):
        "one level per closed single-line control structure: each recursive call has moved self.scope to its parent",
}


def rule_rec(run, prog):
    run.rule("R-5.3", "REC: every call-graph cycle is in the table of cycles of bounded depth (reason re-checked) or is "
             "entered only under try/except RecursionError; anything else is input-proportional recursion", floor=5)
    cg = callgraph(prog)
    sccs = cg.sccs()
    for comp in sccs:
        key = tuple(comp)
        label = "+".join(k.split("::")[1] for k in comp)
        anchor = f"{comp[0].split('::')[0]}::{label}::cycle"
        node = prog.fn_by_key[comp[0]].node
        if key in BOUNDED_CYCLES:
            ok = _validate_bounded(prog, key)
            run.ob("R-5.3", anchor, ok, f"bounded-cycle table entry no longer validates: {BOUNDED_CYCLES[key]}", node,
                   reason=BOUNDED_CYCLES[key])
            continue
        guarded = _guarded_by_recursion_handler(prog, cg, set(comp))
        # a cycle made only of functions the inventory does not know (a recursive helper extracted from, or shared by,
        # known functions) is reported under the known functions that enter it: `skip_nest` delegating its recursion to a
        # new `_skip_nest_towards` is still the recursion of skip_nest
        try:
            from ..inline import load_inventory
            inv = load_inventory()
        except Exception:
            inv = None
        if inv is not None and all(k not in inv for k in comp):
            entries = sorted({c.caller.key for k in comp for c in cg.sites.get(k, []) if c.caller.key not in comp and c.caller.key in inv})
            if entries:
                for ek in entries:
                    efn = prog.fn_by_key[ek]
                    run.ob("R-5.3", f"{ek.split('::')[0]}::{ek.split('::')[1]}::cycle", guarded,
                           f"recursion {label} (entered from {efn.qual}) is proportional to the input (nesting depth / run length) and "
                           f"not guarded by a RecursionError handler: RecursionError traceback on a long enough input",
                           efn.node, members=list(comp))
                continue
        run.ob("R-5.3", anchor, guarded,
               f"recursion {label} is proportional to the input (nesting depth / run length) and not guarded by a "
               f"RecursionError handler: RecursionError traceback on a long enough input", node, members=list(comp))


def _validate_bounded(prog, key) -> bool:
    if key == ("registry.py::Registry.run_rules",):
        return _validate_run_rules(prog)
    if key == ("context.py::Context.update",):
        return _validate_context_update(prog)
    return False


def _validate_run_rules(prog) -> bool:
    """The fact behind 'depth 2': for a rule object that is not a Primary, whatever its run() returns, run_rules makes
    no recursive call and answers a falsy `ret`.  Decided by running the function's AST on the analyser's interpreter
    with stub rule objects (class Check / Primary), a stub context and a recording stub for the recursive call."""
    import collections
    fn = prog.fn("registry.py::Registry.run_rules")
    a = fn.node.args
    params = [x.arg for x in a.posonlyargs + a.args]
    if len(params) != 3 or a.vararg or a.kwarg:
        return False
    reg = prog.cls("Registry")
    methods = {("Registry", n): m.node for n, m in reg.methods.items()}
    recursion_seen_for_primary = False
    try:
        for cls_name in ("Check", "Primary"):
            for result in ((True, 3), (False, 0), (True, 0), True, False, None, 1):
                if cls_name == "Primary" and not isinstance(result, tuple):
                    continue
                rec: List[tuple] = []

                def recorder(*args, **kw):
                    rec.append(args)
                    return (False, 0)
                ev = Evaluator(methods, natives={("Registry", "run_rules"): recorder})
                deps = collections.defaultdict(list)
                deps["R"] = [lambda ctx: None]
                deps["_rule"] = [lambda ctx: None]
                me = Obj("Registry", dependencies=deps)
                ctx = Obj("Context", scope=Obj("Scope", instructions=0), tkn_scope=0, history=[], sub=None)
                robj = Obj(cls_name, name="R", _native={"run": (lambda res: (lambda *x: res))(result)})
                try:
                    r = ev.call_function(fn.node, {params[0]: me, params[1]: ctx, params[2]: (lambda o: (lambda *x: o))(robj)})
                except (Raised, LookupError, TypeError, ValueError, AttributeError):
                    if cls_name == "Check":
                        return False             # the result of a Check is looked into: not (False, 0) whatever it returns
                    continue
                if cls_name == "Check":
                    if rec or not (isinstance(r, tuple) and len(r) == 2 and not r[0]):
                        return False
                elif result[0] and rec:
                    recursion_seen_for_primary = True
        return recursion_seen_for_primary        # the stubs really reach the recursive calls (the experiment is not vacuous)
    except Unsupported:
        return _validate_run_rules_syntactic(fn)


def _validate_run_rules_syntactic(fn) -> bool:
    # ret, read = result if isinstance(rule, Primary) else (False, 0)   /   recursive calls only under `if ret:`
    for n in walk_fn(fn.node):
        if isinstance(n, ast.Assign) and isinstance(n.value, ast.IfExp) and "isinstance(rule, Primary)" in text(n.value.test):
            e = n.value.orelse
            if isinstance(e, ast.Tuple) and isinstance(e.elts[0], ast.Constant) and e.elts[0].value is False:
                rec = [c for c in ast.walk(fn.node) if isinstance(c, ast.Call) and text(c.func) == "self.run_rules"]
                return bool(rec) and all(any(isinstance(a, ast.If) and text(a.test) == "ret" for a in ancestors(c)) for c in rec)
    return False


def _validate_context_update(prog) -> bool:
    """Every CFG path from the entry of Context.update to its recursive call passes an assignment of self.scope from
    <scope>.outer() (the recursion climbs one scope per level), with no other store to self.scope in between."""
    fn = prog.fn("context.py::Context.update")
    g = cfg_of(fn)
    me = fn.params[0] if fn.params else "self"
    rec = [c for c in walk_fn(fn.node) if isinstance(c, ast.Call) and isinstance(c.func, ast.Attribute)
           and c.func.attr == "update" and isinstance(c.func.value, ast.Name) and c.func.value.id == me]
    if not rec:
        return False
    # local aliases:  parent = self.scope.outer()
    outer_names = {t.id for n in walk_fn(fn.node) if isinstance(n, ast.Assign) and _is_outer_call(n.value, set())
                   for t in n.targets if isinstance(t, ast.Name)}
    climbs, other_stores = set(), set()
    for n in walk_fn(fn.node):
        if isinstance(n, (ast.Assign, ast.AnnAssign, ast.AugAssign)):
            tg = n.targets if isinstance(n, ast.Assign) else [n.target]
            if any(isinstance(t, ast.Attribute) and t.attr == "scope" and isinstance(t.value, ast.Name) and t.value.id == me
                   for t0 in tg for t in ast.walk(t0)):
                nid = g.nid(n)
                if isinstance(n, ast.Assign) and _is_outer_call(n.value, outer_names):
                    climbs.add(nid)
                else:
                    other_stores.add(nid)
    if not climbs:
        return False
    for c in rec:
        site = _cfg_node_of_expr(g, c)
        if site is None:
            return False
        if g.can_reach(g.entry, site, avoid=climbs, follow_exc=False):
            return False
        # the last store to self.scope before the call is a climb
        for o in other_stores:
            if o is not None and g.can_reach(o, site, avoid=climbs, follow_exc=False):
                return False
    return True


def _is_outer_call(e, outer_names) -> bool:
    if isinstance(e, ast.Name):
        return e.id in outer_names
    return isinstance(e, ast.Call) and isinstance(e.func, ast.Attribute) and e.func.attr == "outer" and not e.args


def _guarded_by_recursion_handler(prog, cg, comp: Set[str]) -> bool:
    """All entries into the cycle from outside happen under a try that catches RecursionError
    (following chains of callers that have a single call site)."""
    frontier = [(k, 0) for k in comp]
    entries = []
    for k in comp:
        for c in cg.sites.get(k, []):
            if c.caller.key not in comp:
                entries.append(c)
    if not entries:
        return False

    def guarded_call(c, depth) -> bool:
        if caught_at(prog, c.node, "RecursionError", c.caller.node) or _catches(prog, c, "RecursionError"):
            return True
        if depth > 4:
            return False
        ups = cg.sites.get(c.caller.key, [])
        return bool(ups) and all(guarded_call(u, depth + 1) for u in ups)

    return all(guarded_call(c, 0) for c in entries)


def _catches(prog, c, exc) -> bool:
    cur = c.node
    for a in ancestors(c.node):
        if a is c.caller.node:
            break
        if isinstance(a, ast.Try) and any(cur is s for s in a.body):
            for h in a.handlers:
                if exc in handler_names(h) or any(nm in ("Exception", "BaseException") for nm in handler_names(h)):
                    return True
        cur = a
    return False


# =========================================================================== R-5.4
def _coef(e, v: str) -> Optional[int]:
    """Sign of the coefficient of name v in a linear expression (None = not linear / unknown)."""
    if isinstance(e, ast.Name):
        return 1 if e.id == v else 0
    if isinstance(e, ast.Constant):
        return 0
    if isinstance(e, ast.UnaryOp) and isinstance(e.op, ast.USub):
        c = _coef(e.operand, v)
        return None if c is None else -c
    if isinstance(e, ast.BinOp) and isinstance(e.op, (ast.Add, ast.Sub)):
        a, b = _coef(e.left, v), _coef(e.right, v)
        if a is None or b is None:
            return None
        r = a + b if isinstance(e.op, ast.Add) else a - b
        return max(-1, min(1, r)) if (a == 0 or b == 0) else (r if abs(r) <= 1 else None)
    if v in {n.id for n in ast.walk(e) if isinstance(n, ast.Name)}:
        return None
    return 0


def _monotone_vars(loop: ast.While) -> Dict[str, int]:
    """name -> +1 / -1 for names whose only assignments in the loop are += c / -= c with constant c > 0
    (assignments from scanning helpers count as +1: skip_ws/skip_nest/eol/... return a position >= their argument)."""
    dirs: Dict[str, Set[int]] = {}
    for n in ast.walk(loop):
        if isinstance(n, ast.AugAssign) and isinstance(n.target, ast.Name) and isinstance(n.value, ast.Constant) \
                and isinstance(n.value.value, int) and n.value.value > 0:
            d = 1 if isinstance(n.op, ast.Add) else (-1 if isinstance(n.op, ast.Sub) else 0)
            dirs.setdefault(n.target.id, set()).add(d)
        elif isinstance(n, ast.AugAssign) and isinstance(n.target, ast.Name):
            dirs.setdefault(n.target.id, set()).add(0)
        elif isinstance(n, (ast.Assign, ast.NamedExpr)):
            tgts = n.targets if isinstance(n, ast.Assign) else [n.target]
            for t in tgts:
                for nm in _tnames(t):
                    v = n.value
                    d = 0
                    if isinstance(t, ast.Name) and isinstance(v, ast.BinOp) and isinstance(v.op, (ast.Add, ast.Sub)):
                        # i = i + c  /  i = c + i  /  i = i - c     (c a positive constant)
                        def pc(x):
                            return isinstance(x, ast.Constant) and isinstance(x.value, int) and not isinstance(x.value, bool) and x.value > 0
                        if isinstance(v.left, ast.Name) and v.left.id == nm and pc(v.right):
                            d = 1 if isinstance(v.op, ast.Add) else -1
                        elif isinstance(v.op, ast.Add) and isinstance(v.right, ast.Name) and v.right.id == nm and pc(v.left):
                            d = 1
                    if isinstance(v, ast.Call) and isinstance(v.func, ast.Attribute) and v.func.attr in (
                            "skip_ws", "skip_nest", "eol", "skip_misc_specifier") and isinstance(t, ast.Name):
                        d = 1
                    if isinstance(v, ast.BinOp) and isinstance(v.op, ast.Add) and isinstance(v.left, ast.Call) \
                            and isinstance(v.left.func, ast.Attribute) and v.left.func.attr in ("skip_ws", "skip_nest", "eol") \
                            and isinstance(v.right, ast.Constant):
                        d = 1
                    dirs.setdefault(nm, set()).add(d)
        elif isinstance(n, ast.For):
            for nm in _tnames(n.target):
                dirs.setdefault(nm, set()).add(0)
    return {k: next(iter(v)) for k, v in dirs.items() if len(v) == 1 and next(iter(v)) != 0}


def _bounding_conjunct(cond, mono: Dict[str, int]) -> Optional[str]:
    for c in conjuncts(cond):
        if isinstance(c, ast.Compare) and len(c.ops) == 1:
            op = c.ops[0]
            L, R = c.left, c.comparators[0]
            has_lookup = any(isinstance(x, ast.Call) and isinstance(x.func, ast.Attribute)
                             and x.func.attr in ("check_token", "peek_token") for x in ast.walk(c))
            if has_lookup:
                continue
            for v, d in mono.items():
                if isinstance(op, ast.In) and isinstance(L, ast.Name) and L.id == v and isinstance(R, ast.Call) \
                        and text(R.func) == "range" and d == 1:
                    return text(c)
                cl, cr = _coef(L, v), _coef(R, v)
                if cl is None or cr is None or (cl == 0 and cr == 0):
                    continue
                diff = cl - cr           # sign of d(L-R)/dv
                if isinstance(op, (ast.Lt, ast.LtE)) and diff * d > 0:
                    return text(c)
                if isinstance(op, (ast.Gt, ast.GtE)) and diff * d < 0:
                    return text(c)
    return None


def _assigned_in(loop) -> Set[str]:
    out: Set[str] = set()
    for n in ast.walk(loop):
        if isinstance(n, ast.Assign):
            for t in n.targets:
                out.update(_tnames(t))
        elif isinstance(n, (ast.AugAssign, ast.AnnAssign)):
            out.update(_tnames(n.target))
        elif isinstance(n, ast.NamedExpr):
            out.add(n.target.id)
        elif isinstance(n, ast.For):
            out.update(_tnames(n.target))
    return out


def _loop_anchor(loop: ast.While, fn: Optional[Fn] = None) -> str:
    consts = {c.value for c in ast.walk(loop.test) if isinstance(c, ast.Constant) and isinstance(c.value, str)}
    if fn is not None:
        # kinds hoisted into a module / class / local constant keep the same anchor
        for c in ast.walk(loop.test):
            if isinstance(c, ast.Call) and isinstance(c.func, ast.Attribute) and c.func.attr in ("check_token",) and len(c.args) == 2 \
                    and isinstance(c.args[1], (ast.Name, ast.Attribute)):
                for v in const_values(fn, c.args[1]) or []:
                    if isinstance(v, str):
                        consts.add(v)
                    elif isinstance(v, (list, tuple, set, frozenset)) and all(isinstance(x, str) for x in v):
                        consts.update(v)
    consts = sorted(consts)
    if consts:
        return "kinds=" + ",".join(consts)
    names = sorted({n.id for n in ast.walk(loop.test) if isinstance(n, ast.Name)} - {"context", "self"})
    return "names=" + ",".join(names)


class _EndState(EndState):
    """EndState that also recognises a look-up made through a local alias of the bound method
    (`check = context.check_token ... check(i, "X")`)."""

    def __init__(self, modified, lexer_mode=False, fn: Optional[Fn] = None):
        super().__init__(modified, lexer_mode=lexer_mode)
        self.fn = fn

    def is_lookup(self, call: ast.Call) -> bool:
        if super().is_lookup(call):
            return True
        if self.fn is not None and isinstance(call.func, ast.Name):
            from ..dataflow import resolve_local, is_path
            v = resolve_local(self.fn, call.func, is_path)
            if isinstance(v, ast.Attribute):
                synth = ast.Call(func=v, args=call.args, keywords=call.keywords)
                return super().is_lookup(synth)
        return False


def _has_lookup(fn: Fn, node) -> bool:
    from ..dataflow import resolve_local, is_path
    names = ("check_token", "peek_token", "peek", "raw_peek")
    for x in ast.walk(node):
        if isinstance(x, ast.Call):
            if isinstance(x.func, ast.Attribute) and x.func.attr in names:
                return True
            if isinstance(x.func, ast.Name) and x.func.id not in ("len", "range", "isinstance", "type", "print"):
                v = resolve_local(fn, x.func, is_path) if getattr(x.func, "_sa_parent", None) is not None else None
                if isinstance(v, ast.Attribute) and v.attr in names:
                    return True
    return False


def rule_loop(run, prog):
    run.rule("R-5.4", "LOOP: every while loop that looks tokens (or characters) up has an exit enabled when all look-ups "
             "whose position the loop modifies answer None: condition definitely false there, or a bound on a monotone "
             "index, or a break/return/raise reachable in the body in that state; definitely-true or frozen-unknown "
             "conditions are violations", floor=140)
    n_loops = 0
    from .. import exceptions as exc_table
    table_keys = {e["key"] for e in exc_table.TABLE if e["property"] == "C05" and e["rule"] == "R-5.4"}
    for fn in prog.fns:
        rel = fn.mod.rel
        if not (rel.startswith("rules/") or rel in ("context.py", "lexer/lexer.py", "registry.py")):
            continue
        lexer_mode = rel == "lexer/lexer.py"
        for loop in [n for n in walk_fn(fn.node) if isinstance(n, ast.While)]:
            if not _has_lookup(fn, loop):
                continue
            n_loops += 1
            key = f"{fn.key}::while[{_loop_anchor(loop)}]"
            if key not in table_keys:
                # the same construct with its kinds hoisted into a constant keeps the key the exception table knows
                alt = f"{fn.key}::while[{_loop_anchor(loop, fn)}]"
                if alt in table_keys:
                    key = alt
                elif isinstance(loop.test, ast.Constant):
                    # `while True: if <exit test>: break ...` : the exit tests carry the kinds
                    for st_ in loop.body:
                        if isinstance(st_, ast.If) and st_.body and isinstance(st_.body[-1], (ast.Break, ast.Return)):
                            probe = ast.While(test=st_.test, body=[], orelse=[])
                            alt = f"{fn.key}::while[{_loop_anchor(probe, fn)}]"
                            if alt in table_keys:
                                key = alt
                                break
            modified = _assigned_in(loop)
            mono = _monotone_vars(loop)
            bound = _bounding_conjunct(loop.test, mono)
            if bound is not None:
                run.ob("R-5.4", key, True, "bounded", loop, how=f"bounded by {bound}")
                continue
            st = _EndState(modified, lexer_mode=lexer_mode, fn=fn)
            c = st.ev(loop.test)
            if c == X or truthy(c) is False:
                run.ob("R-5.4", key, True, "exits", loop, how=f"condition is {c} in the end state")
                continue
            res = BodyResult()
            st2 = _EndState(modified, lexer_mode=lexer_mode, fn=fn)
            st2.none_names = set(st.none_names)
            explore_body(loop.body, st2, res)
            if res.exit_reachable:
                run.ob("R-5.4", key, True, "exits", loop, how="break/return/raise reachable in the end state")
                continue
            if truthy(c) is True:
                run.ob("R-5.4", key, False,
                       "loop condition is definitely true once the index passes the last token and the body has no exit "
                       "in that state: the run never terminates on truncated input", loop, cond=text(loop.test))
                continue
            # unknown: frozen?
            free = {n.id for n in ast.walk(loop.test) if isinstance(n, ast.Name)} - {"context", "self", "True", "False", "None"}
            attrs = {text(a) for a in ast.walk(loop.test) if isinstance(a, ast.Attribute) and isinstance(a.ctx, ast.Load)}
            touched = set()
            for nm in free:
                if nm in res.assigned or (nm + ".*") in res.assigned:
                    touched.add(nm)
            for a in attrs:
                if a in res.assigned or (a.split(".")[0] + ".*") in res.assigned:
                    touched.add(a)          # stored directly, or its owner is mutated through a method call
            # calls in the condition (other than look-ups answering None) whose arguments change
            for call in [x for x in ast.walk(loop.test) if isinstance(x, ast.Call)]:
                if st.is_lookup(call):
                    continue
                argnames = {n.id for a in list(call.args) + [k.value for k in call.keywords] for n in ast.walk(a)
                            if isinstance(n, ast.Name)}
                if argnames & res.assigned:
                    touched.add(text(call.func))
                if isinstance(call.func, ast.Attribute):
                    b = call.func.value
                    while isinstance(b, (ast.Attribute, ast.Subscript, ast.Call)):
                        b = b.func if isinstance(b, ast.Call) else b.value
                    if isinstance(b, ast.Name) and b.id not in ("context", "self") and (b.id in res.assigned or b.id + ".*" in res.assigned):
                        touched.add(b.id)
            if touched:
                run.ob("R-5.4", key, True, "undecided", loop, how=f"condition unknown, depends on {sorted(touched)} changed in the body")
            else:
                run.ob("R-5.4", key, False,
                       "loop condition cannot change once the index passes the last token (nothing it reads is assigned "
                       "on any body path feasible in that state) and the body has no exit: frozen loop, the run hangs "
                       "on truncated input", loop, cond=text(loop.test), assigned=sorted(res.assigned))
    run.require(n_loops >= 140, f"only {n_loops} token-scanning while loops found (floor 140)")


# --------------------------------------------------------------------------- validators of the R-5.4 exception table
# (sa/exceptions.py delegates here: the facts are decided on the CFG, not on the spelling of the statements)
def kind_test_side(fn: Fn, e, kinds: Set[str], _depth=0) -> Optional[str]:
    """Outcome of test *e* on which `a token exists at the tested position and its kind is in *kinds*` holds."""
    if isinstance(e, ast.UnaryOp) and isinstance(e.op, ast.Not):
        return {"T": "F", "F": "T"}.get(kind_test_side(fn, e.operand, kinds, _depth))
    if isinstance(e, ast.BoolOp):
        rs = [kind_test_side(fn, v, kinds, _depth) for v in e.values]
        if isinstance(e.op, ast.And):
            return "T" if "T" in rs else None
        return "F" if "F" in rs else None
    if isinstance(e, ast.NamedExpr):
        return kind_test_side(fn, e.value, kinds, _depth)

    def within(k_expr) -> bool:
        vals = const_values(fn, k_expr)
        if not vals:
            return False
        for v in vals:
            items = [v] if isinstance(v, str) else (list(v) if isinstance(v, (list, tuple, set, frozenset)) else None)
            if items is None or not items or not all(isinstance(x, str) and x in kinds for x in items):
                return False
        return True

    def is_check(c) -> bool:
        return isinstance(c, ast.Call) and isinstance(c.func, ast.Attribute) and c.func.attr == "check_token" \
            and len(c.args) == 2 and within(c.args[1])

    def is_type_of_token(x) -> bool:
        return isinstance(x, ast.Attribute) and x.attr == "type"
    if is_check(e):
        return "T"
    if isinstance(e, ast.Name) and _depth < 3:
        # a local that holds the outcome of such a test
        bs = _all_bindings(fn).get(e.id, [])
        if bs and all(k in ("assign", "walrus") and path == () and v is not None for k, _, v, path in bs):
            sides = {kind_test_side(fn, v, kinds, _depth + 1) for _, _, v, _ in bs}
            if len(sides) == 1:
                return next(iter(sides))
        return None
    if isinstance(e, ast.Compare) and len(e.ops) == 1:
        l, op, r = e.left, e.ops[0], e.comparators[0]
        if is_check(l) and isinstance(r, ast.Constant):
            if r.value is True:
                return "T" if isinstance(op, (ast.Is, ast.Eq)) else ("F" if isinstance(op, (ast.IsNot, ast.NotEq)) else None)
            return None
        if is_type_of_token(l) and isinstance(op, (ast.Eq, ast.In)) and within(r):
            return "T"
        if is_type_of_token(l) and isinstance(op, (ast.NotEq, ast.NotIn)) and within(r):
            return "F"
    return None


def _kind_tests(fn: Fn, g, kinds: Set[str]) -> Dict[int, str]:
    out = {}
    for n in g.nodes:
        if n.kind == "test" and n.ast is not None:
            sd = kind_test_side(fn, n.ast, kinds)
            if sd is not None:
                out[n.id] = sd
    return out


def _true_producers(fn: Fn, g) -> List[int]:
    """CFG nodes that fix a (True, n) result of a (bool, int)-returning function: `return True, n` statements, and the
    assignments of such a display to a local that is returned.  Unknown first components count as possibly True."""
    out = []

    flags = _bool_flags(fn, with_none=False)

    def maybe_true(d) -> bool:
        if not d.elts:
            return True
        vs = const_values(fn, d.elts[0])
        return vs is None or any(bool(v) for v in vs)

    def producers_of(d, here) -> List[Optional[int]]:
        """Where the truth of the first component of display *d* is decided: the statements that set the boolean
        flag it reads, otherwise the node *here* that builds the display."""
        if d.elts and isinstance(d.elts[0], ast.Name) and d.elts[0].id in flags:
            return [g.nid(b[1]) for b in _all_bindings(fn)[d.elts[0].id] if b[2].value is True]
        return [here]
    for n in walk_fn(fn.node):
        if not isinstance(n, ast.Return) or n.value is None:
            continue
        v = n.value
        if isinstance(v, ast.Name):
            for kind, node, val, path in _all_bindings(fn).get(v.id, []):
                ds = list(_tuple_displays(fn, val)) if (kind in ("assign", "walrus") and path == () and val is not None) else None
                if ds is None or not ds:
                    out.append(g.nid(n))                     # opaque: the return itself is the producer
                else:
                    for d in ds:
                        if maybe_true(d):
                            out += producers_of(d, _cfg_node_of_expr(g, node))
        else:
            ds = list(_tuple_displays(fn, v))
            if not ds:
                out.append(g.nid(n))
            for d in ds:
                if maybe_true(d):
                    out += producers_of(d, g.nid(n))
    return [x for x in out if x is not None]


def true_results_only_behind(fn: Fn, kinds: Set[str]) -> bool:
    """Every path on which *fn* answers (True, ...) has passed a successful test of a token kind in *kinds*."""
    g = cfg_of(fn)
    tests = _kind_tests(fn, g, kinds)
    prods = _true_producers(fn, g)
    if not tests:
        return not prods
    return all(_only_through(g, g.entry, p_, tests) for p_ in prods)


def fails_unless(fn: Fn, tests: Dict[int, str]) -> bool:
    """Some test of *tests* ({node: establishing outcome}) lets the function return normally on its establishing
    outcome only: the other outcome always ends in a raise."""
    g = cfg_of(fn)
    for t, side in tests.items():
        others = [m for m, lab in g.succ[t] if lab in ("T", "F") and lab != side]
        if others and all(g.exit not in g.reachable(m, follow_exc=False) for m in others):
            return True
    return False


def validate_comment_slot(prog) -> bool:
    """CheckCommentLineLen runs only in slot IsComment, and IsComment.run answers True only behind a successful
    check_token(i, [COMMENT / MULT_COMMENT])."""
    rm = registry_model(prog)
    if set(rm.live_slots("CheckCommentLineLen")) != {"IsComment"}:
        return False
    fn = prog.method("IsComment", "run")
    return fn is not None and true_results_only_behind(fn, {"COMMENT", "MULT_COMMENT"})


def validate_define_rparen(prog) -> bool:
    """IsPreprocessorStatement.check_define raises unless the macro parameter list is closed by RPARENTHESIS."""
    fn = prog.method("IsPreprocessorStatement", "check_define")
    if fn is None:
        return False
    return fails_unless(fn, _kind_tests(fn, cfg_of(fn), {"RPARENTHESIS"}))


def validate_include_more_than(prog) -> bool:
    """_check_path answers True only behind STRING or MORE_THAN, and check_include raises unless it answered True."""
    cp = prog.method("IsPreprocessorStatement", "_check_path")
    ci = prog.method("IsPreprocessorStatement", "check_include")
    if cp is None or ci is None:
        return False
    if not true_results_only_behind(cp, {"STRING", "MORE_THAN"}):
        return False
    g = cfg_of(ci)
    oks: Set[str] = set()
    whole: Set[str] = set()
    for nm, bs in _all_bindings(ci).items():
        for kind, node, v, path in bs:
            if kind in ("assign", "walrus") and v is not None and isinstance(v, ast.Call) \
                    and isinstance(v.func, ast.Attribute) and v.func.attr == "_check_path":
                if path == (0,):
                    oks.add(nm)
                elif path == ():
                    whole.add(nm)
    for nm, bs in _all_bindings(ci).items():
        for kind, node, v, path in bs:
            if kind == "assign" and path == () and isinstance(v, ast.Subscript) and isinstance(v.value, ast.Name) \
                    and v.value.id in whole and isinstance(v.slice, ast.Constant) and v.slice.value == 0:
                oks.add(nm)
    tests = {}
    for n in g.nodes:
        if n.kind == "test" and n.ast is not None:
            sd = _truthy_side(n.ast, oks)
            if sd is not None:
                tests[n.id] = sd
    return bool(tests) and fails_unless(ci, tests)


# =========================================================================== R-5.5
def _all_bindings(fn: Fn):
    """name -> list of (kind, node, value expr or None, path) for every binding in the function;
    kind: 'assign' | 'aug' | 'for' | 'comp' | 'walrus' | 'param' | 'other'.  path: position inside a tuple target."""
    ck = id(fn.node)
    if ck in _BIND_CACHE:
        return _BIND_CACHE[ck]
    out: Dict[str, list] = {}
    _BIND_CACHE[ck] = out

    def targets(t, path=()):
        if isinstance(t, ast.Name):
            yield t.id, path
        elif isinstance(t, (ast.Tuple, ast.List)):
            for i, e in enumerate(t.elts):
                if isinstance(e, ast.Starred):
                    for nm, _ in targets(e.value):
                        yield nm, None
                else:
                    for nm, p2 in targets(e, path + (i,)):
                        yield nm, (None if p2 is None else p2)
    for p_ in fn.params:
        out.setdefault(p_, []).append(("param", fn.node, None, ()))
    for n in walk_fn(fn.node):
        if isinstance(n, ast.Assign):
            for t in n.targets:
                for nm, path in targets(t):
                    out.setdefault(nm, []).append(("assign", n, n.value, path))
        elif isinstance(n, ast.AnnAssign) and n.value is not None:
            for nm, path in targets(n.target):
                out.setdefault(nm, []).append(("assign", n, n.value, path))
        elif isinstance(n, ast.AugAssign):
            for nm, path in targets(n.target):
                out.setdefault(nm, []).append(("aug", n, n.value, path))
        elif isinstance(n, ast.NamedExpr):
            out.setdefault(n.target.id, []).append(("walrus", n, n.value, ()))
        elif isinstance(n, (ast.For, ast.AsyncFor)):
            for nm, path in targets(n.target):
                out.setdefault(nm, []).append(("for", n, n.iter, path))
        elif isinstance(n, ast.comprehension):
            for nm, path in targets(n.target):
                out.setdefault(nm, []).append(("comp", n, n.iter, path))
        elif isinstance(n, (ast.With, ast.AsyncWith)):
            for it in n.items:
                if it.optional_vars is not None:
                    for nm, path in targets(it.optional_vars):
                        out.setdefault(nm, []).append(("other", n, None, None))
        elif isinstance(n, ast.ExceptHandler) and n.name:
            out.setdefault(n.name, []).append(("other", n, None, None))
        elif isinstance(n, (ast.Import, ast.ImportFrom)):
            for a in n.names:
                out.setdefault((a.asname or a.name).split(".")[0], []).append(("other", n, None, None))
    return out


_BIND_CACHE: Dict[int, Dict[str, list]] = {}


def _bool_flags(fn: Fn, with_none: bool = True) -> Set[str]:
    """Local names that are only ever bound by `name = True` / `name = False` (and, with_none, the None-markers)."""
    out = set()
    for nm, bs in _all_bindings(fn).items():
        if bs and all(k == "assign" and path == () and isinstance(v, ast.Constant) and isinstance(v.value, bool)
                      and len(node.targets if isinstance(node, ast.Assign) else [1]) == 1
                      for k, node, v, path in bs):
            out.add(nm)
    if not with_none:
        return out
    # None-markers: locals that are somewhere assigned the constant None and somewhere tested with `is None` / `is not None`
    # (single-exit results, "not found" markers, the inliner's return temporaries); only the known-None state is tracked
    tested = set()
    for n in walk_fn(fn.node):
        if isinstance(n, ast.Compare) and len(n.ops) == 1 and isinstance(n.ops[0], (ast.Is, ast.IsNot, ast.Eq, ast.NotEq)) \
                and isinstance(n.left, ast.Name) and isinstance(n.comparators[0], ast.Constant) and n.comparators[0].value is None:
            tested.add(n.left.id)
    for nm, bs in _all_bindings(fn).items():
        if nm in tested and any(k == "assign" and path == () and isinstance(v, ast.Constant) and v.value is None for k, node, v, path in bs):
            out.add(nm)
    return out


def _flag_truth(e, state: Dict[str, bool]) -> Optional[bool]:
    """Truth of a condition built from boolean flags whose value is known in *state* (None: undetermined)."""
    if isinstance(e, ast.Constant):
        return bool(e.value)
    if isinstance(e, ast.Name):
        v_ = state.get(e.id)
        return False if v_ == "None" else v_ if isinstance(v_, bool) else None
    if isinstance(e, ast.UnaryOp) and isinstance(e.op, ast.Not):
        r = _flag_truth(e.operand, state)
        return None if r is None else not r
    if isinstance(e, ast.BoolOp):
        rs = [_flag_truth(v, state) for v in e.values]
        if isinstance(e.op, ast.And):
            if any(r is False for r in rs):
                return False
            return True if all(r is True for r in rs) else None
        if any(r is True for r in rs):
            return True
        return False if all(r is False for r in rs) else None
    if isinstance(e, ast.Compare) and len(e.ops) == 1 and isinstance(e.comparators[0], ast.Constant) \
            and e.comparators[0].value is None and isinstance(e.left, ast.Name) and state.get(e.left.id) == "None":
        return isinstance(e.ops[0], (ast.Is, ast.Eq))
    if isinstance(e, ast.Compare) and len(e.ops) == 1 and isinstance(e.comparators[0], ast.Constant) \
            and isinstance(e.comparators[0].value, bool) and isinstance(e.left, ast.Name) and isinstance(state.get(e.left.id), bool):
        same = state[e.left.id] is e.comparators[0].value
        if isinstance(e.ops[0], (ast.Is, ast.Eq)):
            return same
        if isinstance(e.ops[0], (ast.IsNot, ast.NotEq)):
            return not same
    return None


_FLAG_CP: Dict[int, Dict[int, tuple]] = {}


def _flag_state_at(g, fn: Fn, a: int, flags) -> tuple:
    """What is known about the boolean flags on entry to node *a* on every path from the function entry (forward constant
    propagation; a flag with different values on two incoming paths, or never assigned yet, is unknown)."""
    cp = _FLAG_CP.get(id(g))
    if cp is None:
        TOP = object()
        inn: Dict[int, Optional[Dict[str, object]]] = {n.id: None for n in g.nodes}      # None = not reached yet
        inn[g.entry] = {}
        work = [g.entry]
        while work:
            n = work.pop()
            st = dict(inn[n] or {})
            node = g.nodes[n]
            a_ = node.ast
            if node.kind == "stmt" and isinstance(a_, ast.Assign) and len(a_.targets) == 1 and isinstance(a_.targets[0], ast.Name) \
                    and a_.targets[0].id in flags:
                if isinstance(a_.value, ast.Constant) and isinstance(a_.value.value, bool):
                    st[a_.targets[0].id] = a_.value.value
                elif isinstance(a_.value, ast.Constant) and a_.value.value is None:
                    st[a_.targets[0].id] = "None"
                else:
                    st.pop(a_.targets[0].id, None)
            elif a_ is not None and node.kind in ("stmt", "iter", "test", "with"):
                # a loop header binds its target only, a with header its `as` names: the body has CFG nodes of its own
                roots = [a_.target] if isinstance(a_, (ast.For, ast.AsyncFor)) else \
                    [i for it in a_.items for i in (it.context_expr, it.optional_vars) if i is not None] \
                    if isinstance(a_, (ast.With, ast.AsyncWith)) else [a_]
                for x in (y for r in roots for y in ast.walk(r)):
                    if isinstance(x, ast.Name) and isinstance(x.ctx, ast.Store) and x.id in flags:
                        st.pop(x.id, None)
            for m, lab in g.succ[n]:
                cur = inn[m]
                if cur is None:
                    inn[m] = dict(st)
                    work.append(m)
                else:
                    new_ = {k: v for k, v in cur.items() if k in st and st[k] == v}
                    if new_ != cur:
                        inn[m] = new_
                        work.append(m)
        cp = {n: tuple(sorted(((k, v) for k, v in (d or {}).items() if isinstance(v, bool) or v == "None"), key=lambda kv: kv[0]))
              for n, d in inn.items()}
        _FLAG_CP[id(g)] = cp
    return cp.get(a, ())


def flag_can_reach(g, fn: Fn, a: int, b: int, avoid=frozenset(), follow_exc=True, edge_filter=None) -> bool:
    """CFG.can_reach made sensitive to the values of the function's boolean flags (locals only ever assigned
    True / False: loop-exit flags, the inliner's __inl_done markers): an edge out of a test whose outcome is decided by
    the flag values known on the path is followed only on the decided side.  Flags are unknown at *a*."""
    flags = _bool_flags(fn)
    if not flags:
        return g.can_reach(a, b, avoid=avoid, follow_exc=follow_exc, edge_filter=edge_filter)

    def effect(nid, state):
        node = g.nodes[nid]
        st = node.ast
        if node.kind == "stmt" and isinstance(st, ast.Assign) and len(st.targets) == 1 and isinstance(st.targets[0], ast.Name) \
                and st.targets[0].id in flags:
            s2 = dict(state)
            if isinstance(st.value, ast.Constant) and isinstance(st.value.value, bool):
                s2[st.targets[0].id] = st.value.value
            elif isinstance(st.value, ast.Constant) and st.value.value is None:
                s2[st.targets[0].id] = "None"
            else:
                s2.pop(st.targets[0].id, None)
            return tuple(sorted(s2.items(), key=lambda kv: kv[0]))
        if node.kind == "stmt" and st is not None and not isinstance(st, ast.Assign):
            # any other binding of a tracked name (augmented assignment, for target, walrus, with ... as) makes it unknown
            killed = {x.id for x in ast.walk(st) if isinstance(x, ast.Name) and isinstance(x.ctx, ast.Store) and x.id in flags}
            if killed:
                return tuple(sorted(((k, v) for k, v in state if k not in killed), key=lambda kv: kv[0]))
        return state

    def out_edges(nid, state):
        node = g.nodes[nid]
        decided = None
        if node.kind == "test" and node.ast is not None:
            decided = _flag_truth(node.ast, dict(state))
        for m, lab in g.succ[nid]:
            if lab == "exc" and not follow_exc:
                continue
            if decided is not None and lab in ("T", "F") and (lab == "T") != decided:
                continue
            if edge_filter is not None and not edge_filter(nid, m, lab):
                continue
            yield m

    s0 = effect(a, _flag_state_at(g, fn, a, flags))
    todo = [(m, s0) for m in out_edges(a, s0)]
    seen = set()
    while todo:
        n, st = todo.pop()
        if n == b:
            return True
        if (n, st) in seen or n in avoid:
            continue
        seen.add((n, st))
        st2 = effect(n, st)
        for m in out_edges(n, st2):
            todo.append((m, st2))
    return False


def _run_rules_result_names(fn: Fn):
    """Names bound to the two components of a `self.run_rules(...)` result in *fn*:
    (ret names, count names, {count name: [(assignment node, ret name)]})."""
    binds = _all_bindings(fn)

    def is_rr(e) -> bool:
        return isinstance(e, ast.Call) and isinstance(e.func, ast.Attribute) and e.func.attr == "run_rules"
    whole = {nm for nm, bs in binds.items() if any(k in ("assign", "walrus") and path == () and is_rr(v) for k, _, v, path in bs)}
    rets: Set[str] = set()
    counts: Dict[str, list] = {}
    for n in walk_fn(fn.node):
        if not isinstance(n, ast.Assign):
            continue
        v = n.value
        from_rr = is_rr(v) or (isinstance(v, ast.Name) and v.id in whole)
        for t in n.targets:
            if from_rr and isinstance(t, (ast.Tuple, ast.List)) and len(t.elts) == 2 and all(isinstance(e, ast.Name) for e in t.elts):
                rets.add(t.elts[0].id)
                counts.setdefault(t.elts[1].id, []).append((n, t.elts[0].id))
            elif isinstance(t, ast.Name) and isinstance(v, ast.Subscript) and isinstance(v.slice, ast.Constant) \
                    and (is_rr(v.value) or (isinstance(v.value, ast.Name) and v.value.id in whole)):
                if v.slice.value == 0:
                    rets.add(t.id)
                elif v.slice.value == 1:
                    counts.setdefault(t.id, []).append((n, None))
    # `outcome[0]` of a local holding the whole result is a spelling of `ret` too (pseudo-name "outcome[0]")
    rets |= {f"{w}[0]" for w in whole}
    return rets, counts


def _positive_count(fn: Fn, g, e, at_node, _seen=None) -> bool:
    """Is the value of *e*, evaluated at CFG node *at_node*, known to be >= 1?  A positive constant; the token count
    returned by run_rules when the companion `ret` has been tested true on every path since the call (no Primary returns
    (True, 0): obligation no-true-zero); a name all of whose reaching definitions are such values, or increments of
    such values; max(1, ...); sums of those with non-negative constants."""
    from ..dataflow import reaching_definitions
    seen = set() if _seen is None else _seen
    if at_node is None:
        return False
    if isinstance(e, ast.Constant):
        return isinstance(e.value, int) and not isinstance(e.value, bool) and e.value >= 1
    if isinstance(e, ast.Call) and isinstance(e.func, ast.Name) and e.func.id == "max" and len(e.args) >= 2:
        return any(_positive_count(fn, g, a, at_node, seen) for a in e.args)
    if isinstance(e, ast.BinOp) and isinstance(e.op, ast.Add):
        def nonneg(x):
            return isinstance(x, ast.Constant) and isinstance(x.value, int) and not isinstance(x.value, bool) and x.value >= 0
        l, r = e.left, e.right
        return (_positive_count(fn, g, l, at_node, seen) and (nonneg(r) or _positive_count(fn, g, r, at_node, seen))) \
            or (nonneg(l) and _positive_count(fn, g, r, at_node, seen))
    if isinstance(e, ast.NamedExpr):
        return _positive_count(fn, g, e.value, at_node, seen)
    if isinstance(e, ast.Subscript) and isinstance(e.value, ast.Name) and isinstance(e.slice, ast.Constant) and e.slice.value == 1:
        # `outcome[1]` of a local holding the whole run_rules result, used directly
        w = e.value.id
        RDw = _RD.get(id(fn.node))
        if RDw is None:
            RDw = _RD[id(fn.node)] = reaching_definitions(g, fn.params)
        wdefs = RDw.get(at_node, {}).get(w)
        if not wdefs or any(d < 0 for d in wdefs):
            return False
        for d in wdefs:
            a = g.nodes[d].ast
            if not (isinstance(a, ast.Assign) and isinstance(a.value, ast.Call) and isinstance(a.value.func, ast.Attribute)
                    and a.value.func.attr == "run_rules"):
                return False
            tests = {}
            for tn in g.nodes:
                if tn.kind == "test" and tn.ast is not None:
                    sd = _truthy_side(tn.ast, {f"{w}[0]"})
                    if sd is not None:
                        tests[tn.id] = sd
            if not tests or d == at_node or not _only_through(g, d, at_node, tests, fn):
                return False
        return True
    if not isinstance(e, ast.Name):
        return False
    if (e.id, at_node) in seen:
        return True                     # coinductive: a counter that starts positive and is only incremented
    seen.add((e.id, at_node))
    RD = _RD.get(id(fn.node))
    if RD is None:
        RD = _RD[id(fn.node)] = reaching_definitions(g, fn.params)
    defs = RD.get(at_node, {}).get(e.id)
    if not defs:
        return False
    rets, counts = _run_rules_result_names(fn)
    for d in defs:
        if d < 0:
            return False
        dn = g.nodes[d]
        a = dn.ast
        from_rr = [x for x in counts.get(e.id, []) if x[0] is a]
        if from_rr:
            ret_name = from_rr[0][1]
            tests = {}
            for tn in g.nodes:
                if tn.kind == "test" and tn.ast is not None:
                    sd = _truthy_side(tn.ast, rets if ret_name is None else {ret_name})
                    if sd is not None:
                        tests[tn.id] = sd
            # the success test may sit between the call and the statement that picks the count out of the result
            # (`outcome = self.run_rules(...); if outcome[0] is not True: continue; jump = outcome[1]`): paths are
            # measured from where the result was obtained
            starts = {d}
            if isinstance(a, ast.Assign) and isinstance(a.value, ast.Subscript) and isinstance(a.value.value, ast.Name):
                starts = {x for x in RD.get(d, {}).get(a.value.value.id, set()) if x >= 0} or {d}
            elif isinstance(a, ast.Assign) and isinstance(a.value, ast.Name):
                starts = {x for x in RD.get(d, {}).get(a.value.id, set()) if x >= 0} or {d}
            if not tests or d == at_node or any(s0 == at_node or not _only_through(g, s0, at_node, tests, fn) for s0 in starts):
                return False
        elif dn.kind == "stmt" and isinstance(a, ast.Assign) and len(a.targets) == 1 and isinstance(a.targets[0], ast.Name):
            if not _positive_count(fn, g, a.value, d, seen):
                return False
        elif dn.kind == "stmt" and isinstance(a, ast.Assign) and len(a.targets) == 1 \
                and isinstance(a.targets[0], (ast.Tuple, ast.List)) and isinstance(a.value, (ast.Tuple, ast.List)) \
                and len(a.targets[0].elts) == len(a.value.elts) \
                and all(isinstance(x, ast.Name) for x in a.targets[0].elts):
            # ret, jump = False, 0   (the "nothing matched" default next to the run_rules result)
            names = [x.id for x in a.targets[0].elts]
            mine = a.value.elts[names.index(e.id)]
            if _positive_count(fn, g, mine, d, seen):
                continue
            falsy = {nm for nm, v in zip(names, a.value.elts)
                     if nm != e.id and isinstance(v, ast.Constant) and not v.value}
            tests = {}
            for tn in g.nodes:
                if tn.kind == "test" and tn.ast is not None:
                    sd = _truthy_side(tn.ast, falsy)
                    if sd is not None:
                        tests[tn.id] = sd
            # this definition only reaches the pop through a successful truth test of a companion it set to False:
            # infeasible, unless the companion is set again on the way without the count being set with it
            redefs = {n_.id for n_ in g.nodes if n_.id != d and n_.kind == "stmt" and isinstance(n_.ast, (ast.Assign, ast.AugAssign))
                      and (set(_tnames(n_.ast.targets[0] if isinstance(n_.ast, ast.Assign) else n_.ast.target)) & falsy)
                      and e.id not in _tnames(n_.ast.targets[0] if isinstance(n_.ast, ast.Assign) else n_.ast.target)}
            if not falsy or not tests or redefs or not _only_through(g, d, at_node, tests):
                return False
        elif dn.kind == "stmt" and isinstance(a, ast.AnnAssign) and isinstance(a.target, ast.Name) and a.value is not None:
            if not _positive_count(fn, g, a.value, d, seen):
                return False
        elif dn.kind == "stmt" and isinstance(a, ast.AugAssign) and isinstance(a.op, ast.Add) and isinstance(a.target, ast.Name):
            inc_ok = isinstance(a.value, ast.Constant) and isinstance(a.value.value, int) and a.value.value >= 0 \
                or _positive_count(fn, g, a.value, d, seen)
            if not inc_ok or not _positive_count(fn, g, ast.Name(id=e.id, ctx=ast.Load()), d, seen):
                return False
        else:
            return False
    return True


_RD: Dict[int, dict] = {}


def _only_through(g, a, b, tests, fn: Optional[Fn] = None) -> bool:
    """Every (flag-feasible, when *fn* is given) path a -> b traverses the establishing edge of one of *tests*
    ({test node: 'T'|'F'})."""
    flt = lambda n_, m_, lab: not (n_ in tests and lab == tests[n_])      # noqa: E731
    if fn is not None:
        return not flag_can_reach(g, fn, a, b, follow_exc=False, edge_filter=flt)
    return not g.can_reach(a, b, follow_exc=False, edge_filter=flt)


def _truthy_side(e, names: Set[str]) -> Optional[str]:
    """Outcome of test *e* on which one of *names* is known truthy."""
    if isinstance(e, ast.Subscript) and isinstance(e.value, ast.Name) and isinstance(e.slice, ast.Constant) \
            and f"{e.value.id}[{e.slice.value}]" in names:
        e = ast.Name(id=f"{e.value.id}[{e.slice.value}]", ctx=ast.Load())       # pseudo-name of a result component
    if isinstance(e, ast.Compare) and len(e.ops) == 1 and isinstance(e.left, ast.Subscript) and isinstance(e.left.value, ast.Name) \
            and isinstance(e.left.slice, ast.Constant) and f"{e.left.value.id}[{e.left.slice.value}]" in names:
        e = ast.Compare(left=ast.Name(id=f"{e.left.value.id}[{e.left.slice.value}]", ctx=ast.Load()), ops=e.ops,
                        comparators=e.comparators)
    if isinstance(e, ast.Name):
        return "T" if e.id in names else None
    if isinstance(e, ast.UnaryOp) and isinstance(e.op, ast.Not):
        return {"T": "F", "F": "T"}.get(_truthy_side(e.operand, names))
    if isinstance(e, ast.BoolOp):
        rs = [_truthy_side(v, names) for v in e.values]
        if isinstance(e.op, ast.And):
            return "T" if "T" in rs else None
        return "F" if "F" in rs else None
    if isinstance(e, ast.Compare) and len(e.ops) == 1 and isinstance(e.left, ast.Name) and e.left.id in names \
            and isinstance(e.comparators[0], ast.Constant):
        c, op = e.comparators[0].value, e.ops[0]
        if c is True:
            return "T" if isinstance(op, (ast.Is, ast.Eq)) else ("F" if isinstance(op, (ast.IsNot, ast.NotEq)) else None)
        # `x is None` / `x is False` failing does not make x truthy (the other falsy value remains possible)
    if isinstance(e, ast.NamedExpr):
        return _truthy_side(e.value, names)
    return None


def _pop_tokens_drops_prefix(prog, pt: Fn) -> bool:
    ctx = prog.cls("Context")
    methods = {("Context", n): m.node for n, m in ctx.methods.items()}
    params = [x.arg for x in pt.node.args.posonlyargs + pt.node.args.args]
    try:
        if len(params) != 2:
            raise Unsupported("signature")
        for n in range(0, 4):
            for k in range(0, 5):
                toks = [Obj("Token", type=f"K{i}", value=None, pos=(1, i + 1)) for i in range(n)]
                me = Obj("Context", tokens=list(toks))
                Evaluator(methods).call_function(pt.node, {params[0]: me, params[1]: k})
                left = me.tokens
                if not isinstance(left, list) or len(left) != len(toks[k:]) or any(a is not b for a, b in zip(left, toks[k:])):
                    return False
        return True
    except (Raised, LookupError, TypeError, ValueError, AttributeError):
        return False
    except Unsupported:
        return any(isinstance(n, ast.Assign) and text(n.targets[0]) == "self.tokens" and isinstance(n.value, ast.Subscript)
                   and text(n.value.value) == "self.tokens" and isinstance(n.value.slice, ast.Slice)
                   and n.value.slice.lower is not None and n.value.slice.upper is None for n in walk_fn(pt.node))


def _tuple_displays(fn: Fn, v, depth=0):
    """The tuple / list displays a returned expression can stand for (through conditional expressions and locals)."""
    if depth > 3:
        return
    if isinstance(v, (ast.Tuple, ast.List)):
        yield v
    elif isinstance(v, ast.IfExp):
        yield from _tuple_displays(fn, v.body, depth + 1)
        yield from _tuple_displays(fn, v.orelse, depth + 1)
    elif isinstance(v, ast.Name):
        for kind, node, val, path in _all_bindings(fn).get(v.id, []):
            if kind in ("assign", "walrus") and path == () and val is not None:
                yield from _tuple_displays(fn, val, depth + 1)


def _sum_terms(e) -> list:
    """Terms of a sum a + b + ... ; a None entry marks a subtraction / anything that may be negative."""
    if isinstance(e, ast.BinOp) and isinstance(e.op, ast.Add):
        return _sum_terms(e.left) + _sum_terms(e.right)
    if isinstance(e, ast.BinOp) and isinstance(e.op, ast.Sub):
        return _sum_terms(e.left) + [None]
    if isinstance(e, ast.UnaryOp) and isinstance(e.op, ast.USub):
        return [None]
    return [e]


def _positive_sum(terms) -> bool:
    """Some term is a positive integer constant and none is a subtraction or a negative constant (the other terms
    are sizes / lengths)."""
    if any(t is None for t in terms):
        return False
    consts = [t.value for t in terms if isinstance(t, ast.Constant) and isinstance(t.value, int) and not isinstance(t.value, bool)]
    return any(c > 0 for c in consts) and all(c >= 0 for c in consts)


def _main_loops(fn: Fn):
    """Outermost while loops of Registry.run (the inliner's do-once wrappers excluded) that consume tokens."""
    def has_pop(n):
        return any(isinstance(x, ast.Call) and isinstance(x.func, ast.Attribute) and x.func.attr == "pop_tokens" for x in ast.walk(n))
    cands = [n for n in walk_fn(fn.node) if isinstance(n, ast.While) and not getattr(n, "_sa_inline", None) and has_pop(n)]
    return sorted([n for n in cands if not any(o is not n and _inside(n, o) for o in cands)], key=lambda n: n.lineno)


def rule_progress(run, prog):
    run.rule("R-5.5", "MPT progress: each iteration of Registry.run's main loop reaches context.pop_tokens(1 | the matched "
             "primary's count); no Primary.run returns (True, 0); every sub-parser pops before it returns a token; the "
             "bad-lexeme and splice paths of get_next_token advance the position", floor=25)
    rn = prog.fn("registry.py::Registry.run")
    g = cfg_of(rn)
    loops = _main_loops(rn)
    run.require(len(loops) >= 1, "anchor vanished: main while loop of Registry.run")
    all_pops = []
    for li, loop in enumerate(loops):
        tnode = g.nid(loop.test)
        pops = []
        for n in ast.walk(loop):
            if isinstance(n, ast.Call) and isinstance(n.func, ast.Attribute) and n.func.attr == "pop_tokens":
                pops.append(n)
        pops.sort(key=lambda p: (p.lineno, p.col_offset))
        all_pops += [(loop, p) for p in pops]
        pop_nodes = {_cfg_node_of_expr(g, p) for p in pops}
        body_first = [m for m, lab in g.succ[tnode] if lab == "T"]
        stuck = any(m == tnode or flag_can_reach(g, rn, m, tnode, avoid=pop_nodes, follow_exc=False)
                    for m in body_first if m not in pop_nodes)
        run.ob("R-5.5", f"{rn.key}::iteration-pops" + ("" if li == 0 else f"#{li + 1}"), bool(pops) and not stuck,
               "an iteration of the main loop can come back to the loop test without consuming a token", loop,
               pop_calls=[text(p) for p in pops])
    for loop, p in all_pops:
        a = p.args[0] if p.args else (p.keywords[0].value if p.keywords else None)
        ok = a is not None and _positive_count(rn, g, a, _cfg_node_of_expr(g, p))
        run.ob("R-5.5", f"{rn.key}::pop_tokens[{text(a) if a is not None else ''}]", ok,
               "pop_tokens is called with something other than 1 or the matched primary's token count", p)
    # pop_tokens drops a prefix of exactly `stop` tokens (interpreter; syntactic form as a fall-back)
    pt = prog.fn("context.py::Context.pop_tokens")
    ok = _pop_tokens_drops_prefix(prog, pt)
    run.ob("R-5.5", f"{pt.key}::front-slice", ok, "Context.pop_tokens no longer drops a prefix of self.tokens", pt.node)
    # (c) no Primary.run returns (True, 0)
    for c in registry_model(prog).primaries:
        m = prog.method(c.name, "run")
        if m is None:
            continue
        bad = []
        for n in walk_fn(m.node):
            if not isinstance(n, ast.Return) or n.value is None:
                continue
            for v in _tuple_displays(m, n.value):
                if len(v.elts) != 2:
                    continue
                first, second = const_values(m, v.elts[0]), const_values(m, v.elts[1])
                if first is not None and second is not None and any(x is True for x in first) \
                        and any(isinstance(x, int) and not isinstance(x, bool) and x <= 0 for x in second):
                    bad.append(n)
        run.ob("R-5.5", f"{m.key}::no-true-zero", not bad,
               "a primary reports a match that consumes zero tokens: the main loop would not advance", bad[0] if bad else m.node)
    # (b) lexer: every token-returning path passed through a pop
    for fn in lexer_parsers(prog):
        gg = cfg_of(fn)
        pnodes = {_cfg_node_of_expr(gg, p) for p in _pop_sites(fn)}
        pnodes.discard(None)
        bad = []
        no_pop = gg.reachable(gg.entry, avoid=pnodes)
        RDl = None
        for n in walk_fn(fn.node):
            if isinstance(n, ast.Return) and n.value is not None and not (isinstance(n.value, ast.Constant) and n.value.value is None):
                rid = gg.nid(n)
                if rid in pnodes:
                    continue
                if rid not in no_pop:
                    continue
                if isinstance(n.value, ast.Name):
                    # single-exit form: the token is what the reaching definitions of the name built; a definition
                    # `name = None` returns no token, any other must have a pop between the entry and the return
                    if RDl is None:
                        from ..dataflow import reaching_definitions
                        RDl = reaching_definitions(gg, fn.params)
                    defs = RDl.get(rid, {}).get(n.value.id)
                    if defs and all(d >= 0 for d in defs):
                        offending = False
                        for d in defs:
                            a = gg.nodes[d].ast
                            if gg.nodes[d].kind == "stmt" and isinstance(a, ast.Assign) and isinstance(a.value, ast.Constant) \
                                    and a.value.value is None:
                                continue
                            if d in pnodes:
                                continue
                            if d in no_pop and (d == rid or gg.can_reach(d, rid, avoid=pnodes)):
                                offending = True
                        if not offending:
                            continue
                bad.append(n)
        run.ob("R-5.5", f"{fn.key}::pop-before-token", not bad,
               "a sub-parser can return a token without having consumed any character: the tokenizer would not advance",
               bad[0] if bad else fn.node)
    gnt = prog.fn("lexer/lexer.py::Lexer.get_next_token")
    gg = cfg_of(gnt)
    adv = set()
    for n in walk_fn(gnt.node):
        if isinstance(n, ast.AugAssign) and isinstance(n.op, ast.Add) and text(n.target).endswith("__pos"):
            if _positive_sum(_sum_terms(n.value)):
                adv.add(gg.nid(n))
        elif isinstance(n, ast.Assign) and len(n.targets) == 1 and isinstance(n.targets[0], ast.Attribute) \
                and n.targets[0].attr.endswith("__pos"):
            terms = _sum_terms(n.value)             # self.__pos = self.__pos + k
            own = [t_ for t_ in terms if t_ is not None and text(t_) == text(n.targets[0])]
            if len(own) == 1 and _positive_sum([t_ for t_ in terms if t_ is not own[0]]):
                adv.add(gg.nid(n))
    for pc in _pop_sites(gnt):
        adv.add(_cfg_node_of_expr(gg, pc))      # a pop consumes at least one character (or raises: R-5.2)
    adv.discard(None)
    whiles = [n for n in walk_fn(gnt.node) if isinstance(n, ast.While)]
    run.require(whiles, "anchor vanished: loops of get_next_token")
    for w in whiles:
        t = gg.nid(w.test)
        firsts = [m for m, lab in gg.succ[t] if lab == "T"]
        stuck = any(m == t or flag_can_reach(gg, gnt, m, t, avoid=adv, follow_exc=False) for m in firsts if m not in adv)
        how = "advances"
        if stuck:
            # not a scan of the source: a loop bounded by a counter that every iteration moves (e.g. an index into
            # the table of sub-parsers) terminates whatever the position does
            mono = _monotone_vars(w)
            for v in sorted(mono):
                if _bounding_conjunct(w.test, {v: mono[v]}) is None:
                    continue
                steps = {gg.nid(n) for n in ast.walk(w) if isinstance(n, (ast.AugAssign, ast.Assign))
                         and v in _tnames(n.target if isinstance(n, ast.AugAssign) else n.targets[0])} - {None}
                if steps and not any(m == t or gg.can_reach(m, t, avoid=steps, follow_exc=False) for m in firsts if m not in steps):
                    stuck = False
                    how = f"bounded by {v}"
                    break
        run.ob("R-5.5", f"{gnt.key}::while[{text(w.test, 30)}]::advances", not stuck,
               "a loop of get_next_token can iterate without advancing the source position", w, how=how)
    # no self-recursion left in get_next_token (one frame per bad lexeme)
    rec = [n for n in walk_fn(gnt.node) if isinstance(n, ast.Call) and text(n.func) == "self.get_next_token"]
    run.ob("R-5.5", f"{gnt.key}::iterative", not rec, "get_next_token recurses once per bad lexeme", rec[0] if rec else gnt.node)


# =========================================================================== R-5.6
def rule_helpers(run, prog):
    run.rule("R-5.6", "helper totality (analyser's interpreter over token lists of length 0..3 and positions -5..5): "
             "Context.peek_token returns tokens[pos] for 0 <= pos < len and None otherwise, never wraps, never raises; "
             "check_token returns None exactly when peek_token does; Lexer.raw_peek / peek return None past the end",
             floor=4)
    ctx = prog.cls("Context")
    methods = {("Context", n): m.node for n, m in ctx.methods.items()}
    pk = prog.method("Context", "peek_token")
    ck = prog.method("Context", "check_token")
    run.require(pk is not None and ck is not None, "anchor vanished: Context.peek_token / check_token")
    bad = None
    n_eval = 0
    for n in range(0, 4):
        toks = [Obj("Token", type=f"K{i}", value=None, pos=(1, i + 1)) for i in range(n)]
        for pos in range(-5, 6):
            ev = Evaluator(methods)
            try:
                r = ev.call_function(pk.node, {"self": Obj("Context", tokens=toks), "pos": pos})
            except Unsupported as e:
                raise Undecided(f"Context.peek_token outside the evaluable subset: {e}")
            except (Raised, LookupError, TypeError, ValueError, AttributeError) as e:
                r = e.name if isinstance(e, Raised) else type(e).__name__
            n_eval += 1
            want = toks[pos] if 0 <= pos < n else None
            if r is not want and bad is None:
                bad = (n, pos, repr(r), repr(want))
    run.ob("R-5.6", f"{pk.key}::total", bad is None,
           (f"peek_token(len={bad[0]}, pos={bad[1]}) gives {bad[2]}, expected {bad[3]}: backward scans wrap around or "
            f"raise IndexError") if bad else "peek_token total", pk.node, evaluations=n_eval)
    bad = None
    for n in range(0, 3):
        toks = [Obj("Token", type=f"K{i}", value=None, pos=(1, i + 1)) for i in range(n)]
        for pos in range(-3, 4):
            for val in ("K0", ["K0", "K1"], ("K1",)):
                ev = Evaluator(methods)
                try:
                    r = ev.call_function(ck.node, {"self": Obj("Context", tokens=toks), "pos": pos, "value": val})
                except Unsupported as e:
                    raise Undecided(f"Context.check_token outside the evaluable subset: {e}")
                except (Raised, LookupError, TypeError, ValueError, AttributeError) as e:
                    r = e.name if isinstance(e, Raised) else type(e).__name__
                inside = 0 <= pos < n
                if inside:
                    want = (toks[pos].type in val) if isinstance(val, (list, tuple)) else (toks[pos].type == val)
                else:
                    want = None
                if r is not want and bad is None:
                    bad = (n, pos, val, repr(r), repr(want))
    run.ob("R-5.6", f"{ck.key}::total", bad is None,
           f"check_token(len={bad[0]}, pos={bad[1]}, {bad[2]!r}) gives {bad[3]}, expected {bad[4]}" if bad else "ok", ck.node)
    # Lexer.raw_peek / peek
    lx = prog.cls("Lexer")
    lm = {("Lexer", n): m.node for n, m in lx.methods.items()}
    rp = prog.method("Lexer", "raw_peek")
    run.require(rp is not None, "anchor vanished: Lexer.raw_peek")
    lex_globals = _module_constants(prog, lx)

    def lexer_at(ev, src, pos):
        """A Lexer instance over *src* (built by interpreting Lexer.__init__ when that is possible, so that
        attributes added by a refactoring - caches, counters - get their initial values) moved to *pos*."""
        f = Obj("File", source=src, errors=Obj("Errors", _native={"add": lambda *a: None}))
        me = Obj("Lexer")
        init = lm.get(("Lexer", "__init__"))
        try:
            if init is None:
                raise Unsupported("no __init__")
            ev.invoke(init, [me, f], {})
        except Unsupported:
            me = Obj("Lexer", file=f)
            me.__dict__["__line"] = me.__dict__["__line_pos"] = 1
        me.__dict__["file"] = f
        me.__dict__["__pos"] = pos
        return me

    def new_ev():
        ev = Evaluator(lm)
        ev.globals.update(lex_globals)
        ev.exc_bases = lambda name: exc_bases(prog, name)
        return ev

    bad = None
    for src in ("", "a", "ab?"):
        for pos in range(0, 4):
            for off in (0, 1, 2):
                for col in (1, 2, 3):
                    ev = new_ev()
                    try:
                        r = ev.invoke(rp.node, [lexer_at(ev, src, pos)], {"offset": off, "collect": col})
                    except Unsupported as e:
                        raise Undecided(f"Lexer.raw_peek outside the evaluable subset: {e}")
                    except (Raised, LookupError, TypeError, ValueError, AttributeError) as e:
                        r = f"raises {type(e).__name__ if not isinstance(e, Raised) else e.name}"
                    want = src[pos + off: pos + off + col] if pos + off < len(src) else None
                    if r != want and bad is None:
                        bad = (src, pos, off, col, r, want)
    run.ob("R-5.6", f"{rp.key}::total", bad is None,
           f"raw_peek(source={bad[0]!r}, pos={bad[1]}, offset={bad[2]}, collect={bad[3]}) gives {bad[4]!r}, expected {bad[5]!r}" if bad else "ok",
           rp.node)
    # Lexer.peek: None exactly when nothing can be read at pos + offset, otherwise (text, size) with
    # 1 <= size <= characters left; never raises.  Checked on the analyser's interpreter (raw_peek is the
    # repository's own, verified above) over sources made of plain, trigraph and digraph material.
    pk2 = prog.method("Lexer", "peek")
    run.require(pk2 is not None, "anchor vanished: Lexer.peek")
    bad = None
    n_eval = 0
    for src in ("", "a", "ab", "?", "??", "??/", "??/x", "a??=", "<:", "<:a", "%:%:", "\\\n", "a\n"):
        for pos in range(0, len(src) + 2):
            for times in (1, 2, 3):
                for off in (0, 1, 2):
                    ev = new_ev()
                    try:
                        r = ev.invoke(pk2.node, [lexer_at(ev, src, pos)], {"times": times, "offset": off})
                    except Unsupported as e:
                        raise Undecided(f"Lexer.peek outside the evaluable subset: {e}")
                    except (Raised, LookupError, TypeError, ValueError, AttributeError) as e:
                        r = f"raises {type(e).__name__ if not isinstance(e, Raised) else e.name}"
                    n_eval += 1
                    left = len(src) - pos - off
                    if left <= 0:
                        good = r is None
                        want = "None"
                    else:
                        good = isinstance(r, tuple) and len(r) == 2 and isinstance(r[0], str) and r[0] != "" \
                            and isinstance(r[1], int) and not isinstance(r[1], bool) and 1 <= r[1] <= left
                        want = f"(text, size) with 1 <= size <= {left}"
                    if not good and bad is None:
                        bad = (src, pos, times, off, r, want)
    run.ob("R-5.6", "lexer/lexer.py::Lexer.peek::none-at-end", bad is None,
           (f"Lexer.peek no longer returns None when nothing could be read (or reads past the end): "
            f"peek(source={bad[0]!r}, pos={bad[1]}, times={bad[2]}, offset={bad[3]}) gives {bad[4]!r}, expected {bad[5]}")
           if bad else "ok", pk2.node, evaluations=n_eval)


def _module_constants(prog, cls) -> Dict[str, object]:
    """Foldable module-level names (tables, strings) read by the methods of *cls*: the globals of the interpreter."""
    out: Dict[str, object] = {}
    mod = cls.mod
    for m in cls.methods.values():
        for n in ast.walk(m.node):
            if isinstance(n, ast.Name) and isinstance(n.ctx, ast.Load) and n.id not in out \
                    and (n.id in mod.assigns or n.id in mod.imports):
                try:
                    out[n.id] = fold_name(n.id, mod)
                except (Unknown, RecursionError):
                    pass
    return out


# =========================================================================== R-5.7
def rule_dictkeys(run, prog):
    run.rule("R-5.7", "TABLE: every subscript on a folded module-level lexer table has a key value set (from the guards "
             "that dominate it) included in the table's keys", floor=6)
    lexmod = prog.mod("lexer/lexer.py")
    tables = {}
    for name in ("operators", "brackets", "keywords", "trigraphs", "digraphs"):
        try:
            tables[name] = fold_name(name, lexmod)
        except Unknown:
            pass                      # renamed / merged: the generic discovery below finds what is subscripted
    # every other module-level name of the lexer (own or imported) that folds to a dict and is subscripted
    for fn in prog.functions_in("lexer/lexer.py"):
        for n in walk_fn(fn.node):
            if isinstance(n, ast.Subscript) and isinstance(n.value, ast.Name) and isinstance(n.ctx, ast.Load) \
                    and n.value.id not in tables and (n.value.id in lexmod.assigns or n.value.id in lexmod.imports) \
                    and n.value.id not in _all_bindings(fn):
                try:
                    v = fold_name(n.value.id, lexmod)
                except (Unknown, RecursionError):
                    continue
                if isinstance(v, dict):
                    tables[n.value.id] = v
    run.require(len(tables) >= 3, f"only {len(tables)} constant lexer tables found (anchor vanished: operators / brackets / keywords ...)")
    n_sub = 0
    for fn in prog.functions_in("lexer/lexer.py"):
        for n in walk_fn(fn.node):
            if isinstance(n, ast.Subscript) and isinstance(n.value, ast.Name) and n.value.id in tables \
                    and isinstance(n.ctx, ast.Load):
                n_sub += 1
                tname = n.value.id
                keys = set(tables[tname])
                if caught_at(prog, n, "KeyError", fn.node):
                    run.ob("R-5.7", f"{fn.key}::{tname}[{text(n.slice, 40)}]", True, "inside try/except KeyError", n,
                           key_set_size=None, protected=True)
                    continue
                vs = key_value_set(fn, n.slice, n, tables)
                if vs is None and fn.cls is not None and fn.cls.name == "Lexer":
                    # the guards could not be related to the key (e.g. the width of the pop is carried in a local):
                    # decide by interpreting the sub-parser on every short input over the characters of the table's keys
                    bad_in = _interp_keyerror(prog, fn, tables[tname])
                    if bad_in is not None:
                        run.ob("R-5.7", f"{fn.key}::{tname}[{text(n.slice, 40)}]", bad_in == "",
                               f"{fn.name} interpreted on {bad_in!r} raises KeyError at {tname}[...]", n, decided_by="interpretation")
                        continue
                if vs is None and fn.cls is not None and fn.cls.name == "Lexer":
                    # neither the guards nor the interpreter can relate the key to the table on this tree
                    run.undecided.append({"rule_function": f"R-5.7 {fn.key}::{tname}[{text(n.slice, 40)}]",
                                          "reason": "the keys reaching the table cannot be bounded from the dominating guards and "
                                                    "the sub-parser is outside the evaluable subset"})
                    continue
                ok = vs is not None and vs <= keys
                missing = sorted(vs - keys) if vs is not None else None
                run.ob("R-5.7", f"{fn.key}::{tname}[{text(n.slice, 40)}]", ok,
                       (f"key(s) {missing} can reach {tname}[...] but are not in the table: KeyError" if vs is not None
                        else f"cannot bound the keys reaching {tname}[...] from the dominating guards"),
                       n, key_set_size=(len(vs) if vs is not None else None))
    run.require(n_sub >= 4, f"only {n_sub} table subscripts found in the lexer (floor 4)")


_INTERP_MEMO: Dict[str, Optional[str]] = {}


def _interp_keyerror(prog, fn: Fn, table) -> Optional[str]:
    """Interpret the Lexer method on every string of <= 3 characters over the characters of the table's keys (plus a
    letter and a blank): "" = never a KeyError, an input = the first that raises KeyError, None = not evaluable."""
    if fn.key in _INTERP_MEMO:
        return _INTERP_MEMO[fn.key]
    try:
        from ..lexsim import LexerSim, Unsupported as _Uns
    except Exception:
        return None
    import itertools
    alpha = sorted({ch for k in table if isinstance(k, str) for ch in k} | {"a", " "})
    first = sorted({k[0] for k in table if isinstance(k, str) and k})
    res: Optional[str] = ""
    try:
        for n_ in (1, 2, 3):
            for head in first:
                for tail in itertools.product(alpha, repeat=n_ - 1):
                    src = head + "".join(tail)
                    out = LexerSim(prog, src + " \n").call(fn.name)
                    if out.kind == "raise" and "KeyError" in str(out.exc):
                        res = src
                        raise StopIteration
    except StopIteration:
        pass
    except _Uns:
        res = None
    except Exception:
        res = None
    _INTERP_MEMO[fn.key] = res
    return res


def key_value_set(fn: Fn, key_expr, at, tables) -> Optional[Set[str]]:
    """Value set of the key expression at node *at* (None = unknown)."""
    # K in D / K := ... in D guards on the very expression or the name
    if isinstance(key_expr, ast.Name):
        vs = name_value_set(fn, key_expr.id, at, tables)
        if vs is not None:
            return vs
        # name assigned from self.pop(): same characters as the guarded peek
        asg = [n for n in walk_fn(fn.node) if isinstance(n, ast.Assign) and len(n.targets) == 1
               and isinstance(n.targets[0], ast.Name) and n.targets[0].id == key_expr.id]
        if len(asg) >= 1 and all(_is_pop(a.value) for a in asg):
            return popped_value_set(fn, asg[-1].value, asg[-1], tables)
        return None
    if _is_pop(key_expr):
        return popped_value_set(fn, key_expr, at, tables)
    return None


def _is_pop(e) -> bool:
    return isinstance(e, ast.Call) and isinstance(e.func, ast.Attribute) and e.func.attr == "pop" \
        and isinstance(e.func.value, ast.Name) and e.func.value.id == "self"


def _times(popcall):
    """Number of characters popped: an int, or ("sym", <text>) for a width held in a variable (compared by spelling
    with the width of the guarding look-ahead), or -1."""
    for k in popcall.keywords:
        if k.arg == "times":
            if isinstance(k.value, ast.Constant):
                return int(k.value.value)
            if isinstance(k.value, ast.Name):
                return ("sym", k.value.id)
            return -1
    return 1 if not any(k.arg == "times" for k in popcall.keywords) and not popcall.args else -1


def _enclosing_true_conjuncts(at):
    """Conjuncts of the tests of the If statements whose *true* branch contains the node."""
    cur = at
    for a in ancestors(at):
        if isinstance(a, ast.If) and any(cur is s for s in a.body):
            for c in conjuncts(a.test):
                yield c
        if isinstance(a, (ast.FunctionDef, ast.AsyncFunctionDef)):
            break
        cur = a


def _enclosing_false_disjuncts(at):
    """Disjuncts of the tests of the If statements whose *else* branch contains the node (each is false there)."""
    from ..facts import disjuncts
    cur = at
    for a in ancestors(at):
        if isinstance(a, ast.If) and any(cur is s for s in a.orelse):
            for d in disjuncts(a.test):
                yield d
        if isinstance(a, (ast.FunctionDef, ast.AsyncFunctionDef)):
            break
        cur = a


def _early_exit_guards(fn: Fn, at):
    """`if <cond>: return` statements that precede *at* in an enclosing block: yields the disjuncts of
    cond, each known to be FALSE at *at*."""
    from ..facts import disjuncts
    cur = at
    for a in ancestors(at):
        body = None
        for field in ("body", "orelse", "finalbody"):
            blk = getattr(a, field, None)
            if isinstance(blk, list) and any(cur is s for s in blk):
                body = blk
        if body is not None:
            for s in body:
                if s is cur:
                    break
                if isinstance(s, ast.If) and not s.orelse and s.body and isinstance(s.body[-1], (ast.Return, ast.Raise, ast.Break, ast.Continue)):
                    for d in disjuncts(s.test):
                        yield d
        if isinstance(a, (ast.FunctionDef, ast.AsyncFunctionDef)):
            break
        cur = a


def _as_set(fn: Fn, e, tables) -> Optional[Set[str]]:
    if isinstance(e, ast.Name) and e.id in tables:
        return set(tables[e.id])
    v = fold_in_fn(e, fn, default=None)
    if isinstance(v, str):
        return set(v)              # `c in "abc"`: single characters
    if isinstance(v, dict):
        return set(v)
    if isinstance(v, (tuple, list, set, frozenset)) and all(isinstance(x, str) for x in v):
        return set(v)
    return None


def name_value_set(fn: Fn, name: str, at, tables, _depth=0) -> Optional[Set[str]]:
    cons: List[Set[str]] = []
    for c in _enclosing_true_conjuncts(at):
        if isinstance(c, ast.Compare) and len(c.ops) == 1:
            L, op, R = c.left, c.ops[0], c.comparators[0]
            lname = L.id if isinstance(L, ast.Name) else (L.target.id if isinstance(L, ast.NamedExpr) else None)
            if lname == name and isinstance(op, ast.In):
                s = _as_set(fn, R, tables)
                if s is not None:
                    cons.append(s)
            elif lname == name and isinstance(op, ast.Eq):
                s = expr_value_set(fn, R, at, tables, _depth + 1)
                if s is not None:
                    cons.append(s)
    import itertools
    for d in itertools.chain(_early_exit_guards(fn, at), _enclosing_false_disjuncts(at)):
        # d is false here:  `name not in S` false  =>  name in S
        if isinstance(d, ast.UnaryOp) and isinstance(d.op, ast.Not) and isinstance(d.operand, ast.Compare) \
                and len(d.operand.ops) == 1 and isinstance(d.operand.ops[0], ast.In) and isinstance(d.operand.left, ast.Name) \
                and d.operand.left.id == name:
            s = _as_set(fn, d.operand.comparators[0], tables)          # `not (name in S)` false
            if s is not None:
                cons.append(s)
        if isinstance(d, ast.Compare) and len(d.ops) == 1 and isinstance(d.left, ast.Name) and d.left.id == name \
                and isinstance(d.ops[0], ast.NotIn):
            s = _as_set(fn, d.comparators[0], tables)
            if s is not None:
                cons.append(s)
    if not cons:
        return None
    out = cons[0]
    for s in cons[1:]:
        out = out & s
    return out


def expr_value_set(fn: Fn, e, at, tables, _depth=0) -> Optional[Set[str]]:
    if _depth > 4:
        return None
    v = fold_in_fn(e, fn, default=None)
    if isinstance(v, str):
        return {v}
    if isinstance(e, ast.Name):
        return name_value_set(fn, e.id, at, tables, _depth + 1)
    if isinstance(e, ast.BinOp) and isinstance(e.op, ast.Add):
        a = expr_value_set(fn, e.left, at, tables, _depth + 1)
        b = expr_value_set(fn, e.right, at, tables, _depth + 1)
        if a is None or b is None:
            return None
        return {x + y for x in a for y in b}
    if isinstance(e, ast.BinOp) and isinstance(e.op, ast.Mult) and isinstance(e.right, ast.Constant) and isinstance(e.right.value, int):
        a = expr_value_set(fn, e.left, at, tables, _depth + 1)
        return None if a is None else {x * e.right.value for x in a}
    return None


def popped_value_set(fn: Fn, popcall, at, tables) -> Optional[Set[str]]:
    """What `self.pop(times=k)` can return at *at*, from guards on the look-ahead of the same k characters."""
    k = _times(popcall)
    if isinstance(k, int) and k < 1:
        return None
    if isinstance(k, tuple):
        # the width variable must not change between the look-ahead and the pop: only loop variables / single assignments
        bs = _all_bindings(fn).get(k[1], [])
        if not bs or any(b[0] not in ("for", "assign") for b in bs) or sum(1 for b in bs if b[0] == "assign") > 1 \
                or (any(b[0] == "for" for b in bs) and any(b[0] == "assign" for b in bs)):
            return None
    cons: List[Set[str]] = []
    peek_names = {}          # name -> k for names bound from self.peek(times=k) / raw_peek(collect=k)
    for n in walk_fn(fn.node):
        tgt = val = None
        if isinstance(n, ast.Assign) and len(n.targets) == 1:
            tgt, val = n.targets[0], n.value
        elif isinstance(n, ast.NamedExpr):
            tgt, val = n.target, n.value
        if tgt is None:
            continue
        kk = _lookahead_len(val)
        if kk is not None:
            nm = tgt.elts[0] if isinstance(tgt, ast.Tuple) and tgt.elts else tgt
            if isinstance(nm, ast.Name):
                peek_names[nm.id] = kk
        elif isinstance(val, ast.Name) and isinstance(tgt, ast.Tuple) and tgt.elts and isinstance(tgt.elts[0], ast.Name):
            # char, _ = result   where result = self.peek()
            if val.id in peek_names:
                peek_names[tgt.elts[0].id] = peek_names[val.id]
    # `result = self.peek()` then `char, _ = result`
    for n in walk_fn(fn.node):
        if isinstance(n, ast.Assign) and len(n.targets) == 1 and isinstance(n.targets[0], ast.Tuple) \
                and isinstance(n.value, ast.Name) and n.value.id in peek_names and n.targets[0].elts \
                and isinstance(n.targets[0].elts[0], ast.Name):
            peek_names[n.targets[0].elts[0].id] = peek_names[n.value.id]
    whole = {}               # name -> k for names bound to the whole (text, size) result of self.peek(times=k)
    for n in walk_fn(fn.node):
        if isinstance(n, ast.Assign) and len(n.targets) == 1 and isinstance(n.targets[0], ast.Name):
            kk = _lookahead_len(n.value)
            if kk is not None and isinstance(n.value, ast.Call) and n.value.func.attr == "peek":
                whole[n.targets[0].id] = kk
        elif isinstance(n, ast.NamedExpr):
            kk = _lookahead_len(n.value)
            if kk is not None and isinstance(n.value, ast.Call) and n.value.func.attr == "peek":
                whole[n.target.id] = kk

    def first_of_whole(x):
        return isinstance(x, ast.Subscript) and isinstance(x.value, ast.Name) and x.value.id in whole \
            and isinstance(x.slice, ast.Constant) and x.slice.value == 0 and whole[x.value.id] == k
    for c in _enclosing_true_conjuncts(at):
        if isinstance(c, ast.Compare) and len(c.ops) == 1:
            L, op, R = c.left, c.ops[0], c.comparators[0]
            if first_of_whole(L) and isinstance(op, ast.In):
                s = _as_set(fn, R, tables)
                if s is not None and (k == 1 or not isinstance(fold_in_fn(R, fn, default=None), str)):
                    cons.append(s)
            if _lookahead_len(L) == k and isinstance(op, ast.In):
                s = _as_set(fn, R, tables)
                if s is not None and (k == 1 or not isinstance(fold_in_fn(R, fn, default=None), str)):
                    cons.append(s)
            if isinstance(L, ast.Name) and peek_names.get(L.id) == k:
                if isinstance(op, ast.In):
                    s = _as_set(fn, R, tables)
                    if s is not None and (k == 1 or not isinstance(fold_in_fn(R, fn, default=None), str)):
                        cons.append(s)
                elif isinstance(op, ast.Eq):
                    s = expr_value_set(fn, R, at, tables)
                    if s is not None:
                        cons.append(s)
    if k == 1:
        for nm, kk in peek_names.items():
            if kk == 1:
                s = name_value_set(fn, nm, at, tables)
                if s is not None:
                    cons.append(s)
    if not cons:
        return None
    out = cons[0]
    for s in cons[1:]:
        out = out & s
    return out


def _lookahead_len(e) -> Optional[int]:
    """self.peek(times=k) / self.raw_peek(collect=k) -> k (1 by default)."""
    if isinstance(e, ast.Call) and isinstance(e.func, ast.Attribute) and e.func.attr in PEEKS \
            and isinstance(e.func.value, ast.Name) and e.func.value.id == "self":
        k = 1
        for kw in e.keywords:
            if kw.arg in ("times", "collect"):
                if isinstance(kw.value, ast.Constant) and isinstance(kw.value.value, int):
                    k = kw.value.value
                elif isinstance(kw.value, ast.Name):
                    k = ("sym", kw.value.id)
                else:
                    return None
            elif kw.arg == "offset":
                return None
        return k
    return None


# =========================================================================== R-5.8
VALUE_KINDS = {"IDENTIFIER", "CONSTANT", "STRING", "CHAR_CONST", "COMMENT", "MULT_COMMENT"}


def _needs_str(fn, node, depth=0):
    """Does the value of *node* (a token's .value, None for keyword / punctuator tokens) get used as a string?
    Returns the offending expression or None."""
    p = parent(node)
    if isinstance(p, ast.Attribute) and p.value is node:
        return p                                   # method / attribute of str
    if isinstance(p, ast.Subscript) and p.value is node:
        return p
    if isinstance(p, (ast.For, ast.comprehension)) and p.iter is node:
        return p.iter
    if isinstance(p, ast.BinOp):
        return p
    if isinstance(p, ast.Call) and text(p.func) in ("len", "os.path.splitext", "os.path.basename") and any(a is node for a in p.args):
        return p
    if isinstance(p, ast.Compare) and len(p.ops) == 1 and isinstance(p.ops[0], (ast.In, ast.NotIn)) and p.left is not node:
        return p                                   # `x in value`
    name = None
    asg = p
    if isinstance(p, ast.Assign) and p.value is node and len(p.targets) == 1 and isinstance(p.targets[0], ast.Name) and depth < 3:
        name = p.targets[0].id
    elif isinstance(p, ast.NamedExpr) and p.value is node and depth < 3:
        name = p.target.id                                   # (text := tok.value)
        r = _needs_str(fn, p, depth + 1)                     # ... and the walrus expression itself is used in place
        if r is not None:
            return r
    elif isinstance(p, ast.Tuple) and isinstance(parent(p), ast.Assign) and parent(p).value is p and depth < 3 \
            and len(parent(p).targets) == 1 and isinstance(parent(p).targets[0], ast.Tuple) \
            and len(parent(p).targets[0].elts) == len(p.elts):
        tgt = parent(p).targets[0].elts[[i for i, e in enumerate(p.elts) if e is node][0]]
        if isinstance(tgt, ast.Name):                        # kind, text = tok.type, tok.value
            name = tgt.id
            asg = parent(p)
    if name is not None:
        p = asg
        for n in walk_fn(fn.node):
            if isinstance(n, ast.Name) and n.id == name and isinstance(n.ctx, ast.Load) and (n.lineno, n.col_offset) > (p.lineno, p.col_offset):
                r = _needs_str(fn, n, depth + 1)
                if r is not None:
                    return r
    return None


def rule_value_nullability(run, prog):
    run.rule("R-5.8", "nullability of token text: Token.value is None for keyword and punctuator tokens; wherever a rule uses "
             "it as a string (method call, iteration, slicing, concatenation, len) the token's kinds - from guards valid on "
             "every CFG path or the re-validated precondition table - are value-bearing kinds only", floor=11)
    from .c17 import all_reads
    n = 0
    for r in all_reads(prog):
        if r.how != "value" or r.kind_source == "dead":
            continue
        use = _needs_str(r.fn, r.node)
        if use is None:
            continue
        n += 1
        ok = r.kinds is not None and r.kinds <= VALUE_KINDS
        extra = sorted(r.kinds - VALUE_KINDS)[:6] if r.kinds is not None else None
        run.ob("R-5.8", r.key.replace("::read[", "::value-as-str["), ok,
               (f"`{text(use, 60)}` uses the token text as a string but the token may be of kind(s) {extra} whose value is "
                f"None: AttributeError/TypeError traceback" if r.kinds is not None else
                f"`{text(use, 60)}` uses the token text as a string but nothing bounds the token's kind ({r.kind_source})"),
               r.node, kinds=(sorted(r.kinds)[:8] if r.kinds is not None else "unknown"), kind_source=r.kind_source)
    run.require(n >= 11, f"only {n} string uses of token text found (floor 11)")


# =========================================================================== R-5.9
def rule_local_list_index(run, prog):
    run.rule("R-5.9", "indexing of local lists: a list created empty in a function and indexed by position (L[-1], L[0], "
             "L[k]) is dominated by evidence that it is long enough: a test on its truthiness / length on the path, or an "
             "early exit when it is empty", floor=6)
    n = 0
    from .. import exceptions as exc_table
    table_keys9 = {e["key"] for e in exc_table.TABLE if e["property"] == "C05" and e["rule"] == "R-5.9"}
    for fn in prog.fns:
        rel = fn.mod.rel
        if not (rel.startswith("rules/") or rel in ("context.py", "registry.py")):
            continue
        locals_ = {t.id for x in walk_fn(fn.node) if isinstance(x, ast.Assign) and _is_empty_list(x.value)
                   for t in x.targets if isinstance(t, ast.Name)}
        if not locals_:
            continue
        for x in walk_fn(fn.node):
            if isinstance(x, ast.Subscript) and isinstance(x.ctx, ast.Load) and isinstance(x.value, ast.Name) and x.value.id in locals_ \
                    and not isinstance(x.slice, ast.Slice):
                L = x.value.id
                if trivially_dead_(x):
                    continue
                n += 1
                ev = _length_evidence(fn, L, x)
                if ev is None and caught_at(prog, x, "IndexError", fn.node):
                    ev = "inside try/except IndexError"
                key9 = f"{fn.key}::index[{text(x, 30)}]"
                if ev is None and key9 not in table_keys9:
                    # a renamed list keeps the key under which the exception table knows the construct
                    shape = re.sub(r"^\w+", "L", text(x, 30))
                    for tk in sorted(table_keys9):
                        if tk.startswith(fn.key + "::index[") and re.sub(r"^\w+", "L", tk[len(fn.key) + 8:-1]) == shape:
                            key9 = tk
                            break
                run.ob("R-5.9", key9, ev is not None,
                       f"`{text(x)}`: the list `{L}` starts empty and nothing on the path shows that it has been filled: "
                       f"IndexError traceback on input for which no element was collected", x, evidence=ev)
    run.require(n >= 6, f"only {n} positional accesses to local lists found (floor 6)")


def _is_empty_list(v) -> bool:
    return (isinstance(v, ast.List) and not v.elts) or \
        (isinstance(v, ast.Call) and isinstance(v.func, ast.Name) and v.func.id == "list" and not v.args and not v.keywords)


def validate_var_declaration_ids(prog) -> bool:
    """IsVarDeclaration.var_declaration: the access L[-1] to the local list of identifier tokens follows
    `if <flag> is False or ...: return`; the flag (a parameter whose default is False and that no call site passes)
    only becomes True in suites that also append to L.  The names of the list and of the flag are discovered."""
    fn = prog.method("IsVarDeclaration", "var_declaration")
    if fn is None:
        return False
    from ..facts import disjuncts
    lists = {t.id for x in walk_fn(fn.node) if isinstance(x, ast.Assign) and _is_empty_list(x.value)
             for t in x.targets if isinstance(t, ast.Name)}
    accesses = [x for x in walk_fn(fn.node) if isinstance(x, ast.Subscript) and isinstance(x.ctx, ast.Load)
                and isinstance(x.value, ast.Name) and x.value.id in lists and not isinstance(x.slice, ast.Slice)
                and _length_evidence(fn, x.value.id, x) is None]
    if len(accesses) != 1:
        return False
    acc = accesses[0]
    L = acc.value.id
    # the early exit on the flag in front of the access
    st = acc
    while not isinstance(st, ast.stmt):
        st = parent(st)
    blk = parent(st)
    body = next((getattr(blk, f) for f in ("body", "orelse", "finalbody") if any(x is st for x in (getattr(blk, f, None) or []))), None)
    if body is None:
        return False
    flag = None
    for s_ in body:
        if s_ is st:
            break
        if isinstance(s_, ast.If) and not s_.orelse and s_.body and isinstance(s_.body[-1], ast.Return):
            for d in disjuncts(s_.test):
                if isinstance(d, ast.Compare) and len(d.ops) == 1 and isinstance(d.left, ast.Name) \
                        and isinstance(d.comparators[0], ast.Constant) and d.comparators[0].value is False \
                        and isinstance(d.ops[0], (ast.Is, ast.Eq)):
                    flag = d.left.id
                elif isinstance(d, ast.UnaryOp) and isinstance(d.op, ast.Not) and isinstance(d.operand, ast.Name):
                    flag = d.operand.id
    if flag is None:
        return False
    binds = _all_bindings(fn).get(flag, [])
    sets = [b for b in binds if b[0] == "assign"]
    if not sets or any(b[0] not in ("assign", "param") for b in binds):
        return False
    if any(not (isinstance(b[2], ast.Constant) and isinstance(b[2].value, bool)) or b[3] != () for b in sets):
        return False

    def appends(x) -> bool:
        return any(isinstance(c, ast.Call) and isinstance(c.func, ast.Attribute) and c.func.attr in ("append", "extend", "insert")
                   and isinstance(c.func.value, ast.Name) and c.func.value.id == L for c in ast.walk(x)) \
            or any(isinstance(c, ast.AugAssign) and isinstance(c.target, ast.Name) and c.target.id == L for c in ast.walk(x))
    for _, node, v, _ in sets:
        if v.value is not True:
            continue
        blk2 = parent(node)
        suite = next((getattr(blk2, f) for f in ("body", "orelse", "finalbody")
                      if any(x is node for x in (getattr(blk2, f, None) or []))), [])
        if not any(appends(x) for x in suite):
            return False
    if any(b[0] == "param" for b in binds):
        a = fn.node.args
        params = [x.arg for x in a.posonlyargs + a.args]
        if flag not in params:
            return False
        idx = params.index(flag)
        ndef = len(a.defaults)
        di = idx - (len(params) - ndef)
        if di < 0 or not (isinstance(a.defaults[di], ast.Constant) and a.defaults[di].value is False):
            return False
        for c in callgraph(prog).sites.get(fn.key, []):
            if isinstance(c.node, ast.Call) and (len(c.node.args) > idx - 1 or any(k.arg == flag for k in c.node.keywords)):
                return False
    else:
        if not any(b[2].value is False for b in sets):
            return False
    return True


def trivially_dead_(node):
    from ..facts import trivially_dead
    return trivially_dead(node)


def _length_evidence(fn, L: str, at) -> Optional[str]:
    from ..facts import disjuncts

    from ..dataflow import expand_aliases
    shrinks = any(isinstance(c_, ast.Call) and isinstance(c_.func, ast.Attribute) and c_.func.attr in ("pop", "remove", "clear")
                  and isinstance(c_.func.value, ast.Name) and c_.func.value.id == L for c_ in walk_fn(fn.node)) \
        or any(isinstance(c_, ast.Delete) and any(L in text(t_) for t_ in c_.targets) for c_ in walk_fn(fn.node))

    def unalias(c):
        """`pending = len(L) ... if pending:` -- a local holding the length / truth of the list stands for it, as long
        as nothing in the function removes elements from the list."""
        if shrinks:
            return c
        return expand_aliases(fn, c, lambda v: isinstance(v, ast.Call) and isinstance(v.func, ast.Name)
                              and v.func.id in ("len", "bool") and len(v.args) == 1 and text(v.args[0]) == L)

    def nonempty_when_true(c) -> bool:
        c = unalias(c)
        t = text(c)
        if t in (L, f"len({L})", f"bool({L})"):
            return True
        if isinstance(c, ast.Compare) and len(c.ops) == 1 and text(c.left) == f"len({L})":
            op, r = c.ops[0], c.comparators[0]
            if isinstance(r, ast.Constant) and isinstance(r.value, int):
                if isinstance(op, ast.Gt) and r.value >= 0:
                    return True
                if isinstance(op, ast.GtE) and r.value >= 1:
                    return True
                if isinstance(op, ast.NotEq) and r.value == 0:
                    return True
                if isinstance(op, ast.Eq) and r.value >= 1:
                    return True
        if isinstance(c, ast.Compare) and len(c.ops) == 1 and text(c.left) == L and isinstance(c.ops[0], ast.NotEq) \
                and isinstance(c.comparators[0], ast.List) and not c.comparators[0].elts:
            return True
        if isinstance(c, ast.BoolOp) and isinstance(c.op, ast.And):
            return any(nonempty_when_true(v) for v in c.values)
        return False

    def nonempty_when_false(c) -> bool:
        c = unalias(c)
        if isinstance(c, ast.UnaryOp) and isinstance(c.op, ast.Not):
            return nonempty_when_true(c.operand)
        if isinstance(c, ast.Compare) and len(c.ops) == 1 and text(c.left) == f"len({L})":
            op, r = c.ops[0], c.comparators[0]
            if isinstance(r, ast.Constant) and isinstance(r.value, int):
                if isinstance(op, ast.Eq) and r.value == 0:
                    return True
                if isinstance(op, ast.Lt) and r.value >= 1:
                    return True
                if isinstance(op, ast.LtE) and r.value >= 0:
                    return True
        if isinstance(c, ast.Compare) and len(c.ops) == 1 and text(c.left) == L and isinstance(c.ops[0], ast.Eq) \
                and isinstance(c.comparators[0], ast.List) and not c.comparators[0].elts:
            return True
        if isinstance(c, ast.BoolOp) and isinstance(c.op, ast.Or):
            return any(nonempty_when_false(v) for v in c.values)
        return False

    # earlier operands / enclosing ifs
    cur = at
    for a in ancestors(at):
        if isinstance(a, ast.BoolOp):
            pos = next((i for i, v in enumerate(a.values) if any(y is cur for y in ast.walk(v))), None)
            if pos is not None:
                for v in a.values[:pos]:
                    if (nonempty_when_true(v) if isinstance(a.op, ast.And) else nonempty_when_false(v)):
                        return f"earlier operand `{text(v, 40)}`"
        if isinstance(a, ast.IfExp) and not any(y is cur for y in ast.walk(a.test)):
            if any(y is at for y in ast.walk(a.body)) and any(nonempty_when_true(c) for c in conjuncts(a.test)):
                return f"conditional expression on `{text(a.test, 40)}`"
            if any(y is at for y in ast.walk(a.orelse)) and any(nonempty_when_false(d) for d in disjuncts(a.test)):
                return f"else arm of conditional expression on `{text(a.test, 40)}`"
        if isinstance(a, (ast.If, ast.While)) and not any(y is cur for y in ast.walk(a.test)):
            in_body = any(any(y is at for y in ast.walk(s_)) for s_ in a.body)
            if in_body and any(nonempty_when_true(c) for c in conjuncts(a.test)):
                return f"guard `{text(a.test, 40)}`"
            if not in_body and isinstance(a, ast.If) and any(nonempty_when_false(d) for d in disjuncts(a.test)):
                return f"else branch of `{text(a.test, 40)}`"
        if isinstance(a, (ast.FunctionDef, ast.AsyncFunctionDef)):
            break
        cur = a
    # early exits earlier in an enclosing block
    st = at
    while not isinstance(st, ast.stmt):
        st = parent(st)
    cur = st
    for a in ancestors(st):
        for field in ("body", "orelse", "finalbody"):
            blk = getattr(a, field, None)
            if isinstance(blk, list) and any(s_ is cur for s_ in blk):
                for s_ in blk:
                    if s_ is cur:
                        break
                    if isinstance(s_, ast.If) and not s_.orelse and s_.body and isinstance(s_.body[-1], (ast.Return, ast.Raise, ast.Continue, ast.Break)):
                        if any(nonempty_when_false(d) for d in disjuncts(s_.test)):
                            return f"early exit on `{text(s_.test, 40)}`"
        if isinstance(a, (ast.FunctionDef, ast.AsyncFunctionDef)):
            break
        cur = a
    return None


# ===========================================================================
def check(run, prog):
    rule_local_list_index(run, prog)
    rule_value_nullability(run, prog)
    rule_ret(run, prog)
    rule_ret_positions(run, prog)
    rule_exc(run, prog)
    rule_rec(run, prog)
    rule_loop(run, prog)
    rule_progress(run, prog)
    rule_helpers(run, prog)
    rule_dictkeys(run, prog)
    from .c05_regex import rule_regex_ambiguity
    rule_regex_ambiguity(run, prog)          # R-5.10
    from .c05_scope_scan import rule_scope_scans
    rule_scope_scans(run, prog)              # R-5.11
    from .c05_zero_match import rule_zero_matches
    rule_zero_matches(run, prog)             # R-5.12
    from .c05_ordering import rule_ordering_types
    rule_ordering_types(run, prog)           # R-5.13
    from .c05_dispatch import rule_dispatch_arity
    rule_dispatch_arity(run, prog)           # R-5.14
    from .c05_file_read import rule_read_answered
    rule_read_answered(run, prog)            # R-5.15
    from .snippet_rules import rule_declarator_zoo
    rule_declarator_zoo(run, prog)           # R-5.16
    from .c05_truncation import rule_truncated_inputs
    rule_truncated_inputs(run, prog)         # R-5.17
    from .c05_fatal_answer import rule_fatal_answer
    rule_fatal_answer(run, prog)             # R-5.18
