"""R-14.8 (property C14): what may follow the closing #endif of a correct guard.

"A correct guard enclosing all declarations is accepted" and "a declaration after the closing #endif is reported": at the
closing #endif CheckPreprocessorProtection looks at the rest of the file.  Interpreted (sa/stubrun.py, DESIGN §3.4b) on the
`#endif` of a correctly guarded header followed by every sequence of <= 3 items over {blank, tab, newline, block comment, //
comment}: nothing is reported; followed by such a sequence and then a declaration: HEADER_PROT_ALL_AF is reported."""
from __future__ import annotations

import itertools

from ..minieval import Obj, Unsupported
from ..model import Undecided
from ..stubrun import RUNTIME_ERRORS, StubContext, line_tokens, run_rule

TRANSPARENT = ["SPACE", "TAB", "NEWLINE", ("MULT_COMMENT", "/* FILE_H */"), ("COMMENT", "// FILE_H")]


def rule_after_endif(run, prog, rid="R-14.8"):
    run.rule(rid, "CheckPreprocessorProtection.run, interpreted on the closing `#endif` of a correctly guarded header followed by "
             "every sequence of <= 3 blanks / tabs / newlines / block comments / line comments, reports nothing; with a "
             "declaration after that sequence it reports HEADER_PROT_ALL_AF", floor=1)
    m = prog.method("CheckPreprocessorProtection", "run")
    run.require(m is not None, "anchor vanished: CheckPreprocessorProtection.run")
    head = ["HASH", ("IDENTIFIER", "endif")]
    bad, n = None, 0

    def codes(tail):
        toks = line_tokens(head + list(tail), 20, 1)
        pre = Obj("PreProcessors", indent=0, _indent=0, macros=[Obj("Macro", name="FILE_H", is_func=False)], includes=[],
                  total_ifs=0, total_elifs=0, total_elses=0, total_ifdefs=0, total_ifndefs=1, skip_define=False)
        sc = StubContext(prog, toks, history=("IsPreprocessorStatement", "IsPreprocessorStatement", "IsVarDeclaration",
                                              "IsPreprocessorStatement"),
                         scope="GlobalScope", basename="file.h", tkn_scope=len(head) + (1 if tail and tail[0] == "NEWLINE" else 0),
                         protected=False, preproc=pre)
        try:
            run_rule(prog, "CheckPreprocessorProtection", sc)
        except RUNTIME_ERRORS as e:
            return [f"raise {type(e).__name__}"]
        return sc.codes()

    try:
        for k in range(0, 4):
            for combo in itertools.product(TRANSPARENT, repeat=k):
                n += 2
                got = codes(combo)
                if got and bad is None:
                    bad = (combo, got, [])
                decl = list(combo) + ["NEWLINE", "INT", "TAB", ("IDENTIFIER", "g_x"), "SEMI_COLON", "NEWLINE"]
                got = codes(decl)
                if "HEADER_PROT_ALL_AF" not in got and bad is None:
                    bad = (decl, got, ["HEADER_PROT_ALL_AF"])
    except Unsupported as e:
        raise Undecided(f"CheckPreprocessorProtection.run is outside the evaluable subset: {e}")
    show = lambda t: " ".join(x if isinstance(x, str) else x[0] for x in t)      # noqa: E731
    run.ob(rid, f"{m.key}::after-the-closing-endif", bad is None,
           (f"`#endif` of a correct guard followed by `{show(bad[0])}`: reported {bad[1]}, expected {bad[2]}") if bad else "",
           m.node, evaluations=n)


def rule_before_ifndef(run, prog, rid="R-14.10"):
    run.rule(rid, "whatever statement precedes the guard's #ifndef is reported: CheckPreprocessorProtection.run, interpreted on "
             "`#ifndef FILE_H` with a history of one earlier statement of each kind the registry knows (every Primary), reports "
             "HEADER_PROT_ALL for every kind except comments and empty lines -- and for none of those two", floor=1)
    from ..facts import registry_model
    m = prog.method("CheckPreprocessorProtection", "run")
    run.require(m is not None, "anchor vanished: CheckPreprocessorProtection.run")
    rm = registry_model(prog)
    kinds = sorted(rm.primary_names)
    run.require(len(kinds) >= 15, f"only {len(kinds)} primaries found (floor 15)")
    missed, spurious, n = [], [], 0
    try:
        for first in kinds:
            for filler in ((), ("IsEmptyLine",), ("IsComment", "IsEmptyLine")):
                n += 1
                toks = line_tokens(["HASH", ("IDENTIFIER", "ifndef"), "SPACE", ("IDENTIFIER", "FILE_H"), "NEWLINE"], 9, 1)
                pre = Obj("PreProcessors", indent=1, _indent=1, macros=[], includes=[], total_ifs=0, total_elifs=0, total_elses=0,
                          total_ifdefs=0, total_ifndefs=1, skip_define=False)
                sc = StubContext(prog, toks, history=(first,) + filler + ("IsPreprocessorStatement",), scope="GlobalScope",
                                 basename="file.h", protected=False, preproc=pre)
                try:
                    run_rule(prog, "CheckPreprocessorProtection", sc)
                except RUNTIME_ERRORS:
                    continue
                got = "HEADER_PROT_ALL" in sc.codes()
                want = first not in ("IsComment", "IsEmptyLine")
                if want and not got:
                    missed.append(first)
                if got and not want:
                    spurious.append(first)
    except Unsupported as e:
        raise Undecided(f"CheckPreprocessorProtection.run is outside the evaluable subset: {e}")
    run.ob(rid, f"{m.key}::anything-before-the-guard", not missed and not spurious,
           (f"a statement recognised by {sorted(set(missed))[:6]} in front of the guard's #ifndef gets no HEADER_PROT_ALL" if missed else "")
           + (f" a {sorted(set(spurious))} line in front of the guard is reported" if spurious else ""), m.node, evaluations=n)
