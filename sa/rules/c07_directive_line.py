"""R-7.5 (property C07): a preprocessor directive is one statement of one line, whatever token the lexer can put on that line.

"Every statement ... ends at a line end" and "nothing is skipped silently": the primary that claims a `#` line reports how many
tokens belong to it; everything it claims is popped without any other primary seeing it.  The lexer removes line splices, so
the directive ends at the first NEWLINE token.  IsPreprocessorStatement.run is interpreted (sa/stubrun.py, DESIGN §3.4b) on
`# define X <K> a`, `# pragma <K> a`, `# error <K> a`, `# warning <K> a` followed by a second line `b;`, for every token
kind K that the lexer of this tree can produce (its three tables and the literal kinds of its Token(...) constructions):
the count it claims must stop at the first NEWLINE -- a claim that runs on swallows the next statement unseen."""
from __future__ import annotations

import ast

from ..fold import Unknown, fold_in_fn, fold_name
from ..minieval import Obj, Unsupported
from ..model import Undecided, walk_fn
from ..stubrun import RUNTIME_ERRORS, StubContext, line_tokens, run_rule


def lexer_kinds(prog):
    """Token kinds the lexer of this tree can produce: the values of keywords / operators / brackets and every constant kind given
    to a Token(...) construction in lexer/lexer.py."""
    dm = prog.mod("lexer/dictionary.py")
    kinds = set()
    for t in ("keywords", "operators", "brackets"):
        try:
            kinds |= {v for v in fold_name(t, dm).values() if isinstance(v, str)}
        except Unknown as e:
            raise Undecided(f"lexer table {t} does not fold: {e}")
    for fn in prog.fns:
        if fn.mod.rel != "lexer/lexer.py":
            continue
        for n in walk_fn(fn.node):
            if isinstance(n, ast.Call) and isinstance(n.func, ast.Name) and n.func.id == "Token" and n.args:
                a = n.args[0]
                v = fold_in_fn(a, fn, default=None)
                if isinstance(v, str):
                    kinds.add(v)
                elif isinstance(a, ast.Subscript):
                    # Token(table[key], pos): any value of a foldable table (the three big ones are already in)
                    t = fold_in_fn(a.value, fn, default=None)
                    if isinstance(t, dict):
                        kinds |= {x for x in t.values() if isinstance(x, str)}
    return kinds


_TEXT = {"IDENTIFIER": "k", "CONSTANT": "1", "STRING": '"s"', "CHAR_CONST": "'c'", "COMMENT": "//c", "MULT_COMMENT": "/*c*/"}


def rule_directive_line(run, prog, rid="R-7.5"):
    run.rule(rid, "IsPreprocessorStatement.run, interpreted on `# define X <K> a` / `# pragma <K> a` / `# error <K> a` / "
             "`# warning <K> a` + a second line, for every token kind K the lexer can produce, claims exactly the tokens up to "
             "the first NEWLINE (or stops the run with CParsingError): the next line is never swallowed", floor=1)
    m = prog.method("IsPreprocessorStatement", "run")
    run.require(m is not None, "anchor vanished: IsPreprocessorStatement.run")
    kinds = sorted(lexer_kinds(prog) - {"NEWLINE"})
    run.require(len(kinds) >= 64, f"only {len(kinds)} token kinds found for the lexer (floor 64, 70 % of the 92 of the pinned tree)")
    heads = {"define": ["HASH", "SPACE", ("IDENTIFIER", "define"), "SPACE", ("IDENTIFIER", "X"), "SPACE"],
             "pragma": ["HASH", "SPACE", ("IDENTIFIER", "pragma"), "SPACE"],
             "error": ["HASH", "SPACE", ("IDENTIFIER", "error"), "SPACE"],
             "warning": ["HASH", "SPACE", ("IDENTIFIER", "warning"), "SPACE"]}
    bad, n = None, 0
    try:
        for dname, head in heads.items():
            for k in kinds:
                item = (k, _TEXT[k]) if k in _TEXT else k
                line1 = head + [item, "SPACE", ("IDENTIFIER", "a"), "NEWLINE"]
                toks = line_tokens(line1, 1, 1) + line_tokens([("IDENTIFIER", "b"), "SEMI_COLON", "NEWLINE"], 2, 1)
                sc = StubContext(prog, toks, history=("IsEmptyLine",), scope="GlobalScope")
                n += 1
                try:
                    r = run_rule(prog, "IsPreprocessorStatement", sc)
                except RUNTIME_ERRORS:
                    continue                    # a fatal diagnostic: not silent
                if isinstance(r, (tuple, list)) and len(r) == 2 and r[0] is True and r[1] != len(line1) and bad is None:
                    bad = (dname, k, r[1], len(line1))
        # ... and every word the dispatch of run() can select (the `check_<word>` methods of the class, whatever they were
        # written for): `# <word> ( x ) a` + a second line is claimed up to its NEWLINE or refused with CParsingError
        ips = prog.classes.get("IsPreprocessorStatement")
        words = sorted(mn[len("check_"):] for mn in (ips.methods if ips is not None else {}) if mn.startswith("check_"))
        skipped = {}
        for w in words:
            for tail in ([("IDENTIFIER", "x")], ["LPARENTHESIS", ("IDENTIFIER", "x"), "RPARENTHESIS"],
                         ["LPARENTHESIS", ("IDENTIFIER", "x"), "RPARENTHESIS", "SPACE", ("IDENTIFIER", "a")], []):
                line1 = ["HASH", ("IDENTIFIER", w)] + (["SPACE"] + tail if tail else []) + ["NEWLINE"]
                toks = line_tokens(line1, 1, 1) + line_tokens([("IDENTIFIER", "b"), "SEMI_COLON", "NEWLINE"], 2, 1)
                pre = Obj("PreProcessors", indent=1, _indent=1, macros=[], includes=[], total_ifs=1, total_elifs=0, total_elses=0,
                          total_ifdefs=0, total_ifndefs=0, skip_define=False)
                sc = StubContext(prog, toks, history=("IsEmptyLine",), scope="GlobalScope", preproc=pre)
                n += 1
                try:
                    r = run_rule(prog, "IsPreprocessorStatement", sc)
                except RUNTIME_ERRORS:
                    continue
                except Unsupported as e:
                    skipped.setdefault(w, str(e))         # e.g. the constant-expression parser of #if / #elif: not interpreted
                    continue
                if isinstance(r, (tuple, list)) and len(r) == 2 and (r[0] is not True or r[1] != len(line1)) and bad is None:
                    bad = (w, " ".join(t if isinstance(t, str) else t[1] for t in tail) or "(nothing)", r[1] if r[0] is True else f"no match ({r[0]!r})", len(line1))
    except Unsupported as e:
        raise Undecided(f"IsPreprocessorStatement.run is outside the evaluable subset: {e}")
    run.ob(rid, f"{m.key}::one-line-per-directive", bad is None,
           (f"`# {bad[0]} ... {bad[1]} a` + newline + `b;`: the directive claims {bad[2]} tokens, its line has {bad[3]}: the statement "
            f"on the next line is consumed without being examined by any rule (the lexer can produce {bad[1]})") if bad else "",
           m.node, evaluations=n, kinds=len(kinds), words_not_interpreted=sorted(skipped))
