"""R-19.5 (property C19): history look-back scans agree about comments.  Kept in its own file; called from c19.check."""
from __future__ import annotations

import ast
from typing import List, Optional, Set

from ..fold import fold_in_fn
from ..model import parent, text, walk_fn


def _skip_set(test, fn) -> Optional[tuple]:
    """(index variable, kinds) when *test* has the form  [<bound test> and] (history[-v] == K | history[-v] in (K...) | ... or ...)."""
    parts = test.values if isinstance(test, ast.BoolOp) and isinstance(test.op, ast.And) else [test]
    kinds: Set[str] = set()
    var = None
    seen = False
    for p in parts:
        alts = p.values if isinstance(p, ast.BoolOp) and isinstance(p.op, ast.Or) else [p]
        local: Set[str] = set()
        ok = True
        for a in alts:
            if not (isinstance(a, ast.Compare) and len(a.ops) == 1 and isinstance(a.left, ast.Subscript)
                    and text(a.left.value) in ("context.history", "self.history", "history")
                    and isinstance(a.left.slice, ast.UnaryOp) and isinstance(a.left.slice.op, ast.USub)
                    and isinstance(a.left.slice.operand, ast.Name)):
                ok = False
                break
            v = fold_in_fn(a.comparators[0], fn, default=None)
            if isinstance(a.ops[0], ast.Eq) and isinstance(v, str):
                local.add(v)
            elif isinstance(a.ops[0], ast.In) and isinstance(v, (tuple, list, set, frozenset)) and all(isinstance(x, str) for x in v):
                local |= set(v)
            else:
                ok = False
                break
            var = a.left.slice.operand.id
        if ok and local:
            kinds |= local
            seen = True
    return (var, kinds) if seen else None


def rule_lookback(run, prog):
    run.rule("R-19.5", "contradiction rule: a look-back over context.history made of several successive skip loops on the same "
             "index (history[-i] in <kinds>) either skips IsComment in every loop or in none: a scan that lets comments through "
             "in one stretch and stops on them in the next gives a different answer when a comment line is inserted there", floor=0)
    n = 0
    for fn in prog.fns:
        if not fn.mod.rel.startswith("rules/"):
            continue
        done = set()
        for w in walk_fn(fn.node):
            if not isinstance(w, ast.While) or id(w) in done:
                continue
            first = _skip_set(w.test, fn)
            if first is None:
                continue
            blk = None
            p = parent(w)
            for field in ("body", "orelse", "finalbody"):
                b = getattr(p, field, None)
                if isinstance(b, list) and any(s is w for s in b):
                    blk = b
            if blk is None:
                continue
            i0 = [i for i, s in enumerate(blk) if s is w][0]
            if i0 > 0 and isinstance(blk[i0 - 1], ast.While) and (_skip_set(blk[i0 - 1].test, fn) or (None,))[0] == first[0]:
                continue                         # not the head of the run of loops
            sets: List[Set[str]] = [first[1]]
            loops = [w]
            j = i0 + 1
            while j < len(blk) and isinstance(blk[j], ast.While):
                nxt = _skip_set(blk[j].test, fn)
                if nxt is None or nxt[0] != first[0]:
                    break
                sets.append(nxt[1])
                loops.append(blk[j])
                j += 1
            for lp in loops:
                done.add(id(lp))
            n += 1
            with_c = [i for i, s in enumerate(sets) if "IsComment" in s]
            ok = not with_c or len(with_c) == len(sets)
            run.ob("R-19.5", f"{fn.key}::lookback[{first[0]}@{len(sets)} loop(s)]", ok,
                   f"the look-back over the statement history skips comments in loop(s) {[i + 1 for i in with_c]} of {len(sets)} only "
                   f"(skip sets {[sorted(s) for s in sets]}): a comment inserted in the other stretch stops the scan and changes "
                   f"the diagnostic", loops[0], skip_sets=[sorted(s) for s in sets])
    if n == 0:
        run.note("R-19.5: no look-back written as successive skip loops over context.history[-i] in this tree (nothing to compare)")
