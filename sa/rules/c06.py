"""C06 — the verdict is a pure function of the file.  DESIGN.md §4.6."""
from __future__ import annotations

import ast
from typing import Dict, List, Optional, Set, Tuple

from ..calls import callgraph
from ..cfg import cfg_of
from ..facts import registry_model
from ..fold import try_fold
from ..model import AnalysisError, Fn, ancestors, parent, text, walk_fn

MUTATORS = {"append", "extend", "remove", "insert", "pop", "clear", "sort", "reverse", "update", "add", "discard",
            "setdefault", "popitem", "__setitem__", "__delitem__"}
COPIERS = {"list", "tuple", "set", "frozenset", "sorted", "dict", "reversed", "enumerate", "map", "filter", "len", "any",
           "all", "iter", "zip", "str", "repr", "max", "min", "sum"}


def _is_mutable_display(e) -> bool:
    if isinstance(e, (ast.List, ast.Dict, ast.Set, ast.ListComp, ast.DictComp, ast.SetComp)):
        return True
    if isinstance(e, ast.Call) and isinstance(e.func, ast.Name) and e.func.id in ("list", "dict", "set", "defaultdict", "OrderedDict"):
        return True
    if isinstance(e, ast.Call) and text(e.func) in ("collections.defaultdict", "collections.OrderedDict", "collections.deque"):
        return True
    return False


def global_mutables(prog) -> Dict[Tuple[str, str], ast.AST]:
    """(module rel, name) -> defining expr, for module-level names bound to mutable displays."""
    out = {}
    for rel, mod in prog.mods.items():
        for name, vals in mod.assigns.items():
            if any(isinstance(v, ast.expr) and _is_mutable_display(v) for v in vals):
                out[(rel, name)] = vals[0]
    return out


def class_mutables(prog) -> Dict[Tuple[str, str], ast.AST]:
    out = {}
    for c in prog.classes.values():
        for name, e in c.attrs.items():
            if name == "__slots__":
                continue
            if _is_mutable_display(e):
                out[(c.name, name)] = e
    return out


def resolve_global(prog, fn: Fn, name: str, gm) -> Optional[Tuple[str, str]]:
    """Does *name*, read inside fn, denote a module-level mutable?"""
    if (fn.mod.rel, name) in gm:
        return (fn.mod.rel, name)
    if name in fn.mod.imports:
        src, orig = fn.mod.imports[name]
        m2 = prog.mod_by_dotted(src)
        if m2 is not None and orig and (m2.rel, orig) in gm:
            return (m2.rel, orig)
    return None


def _locals_of(fn: Fn) -> Set[str]:
    out = set(fn.params)
    globs = set()
    for n in walk_fn(fn.node):
        if isinstance(n, ast.Global):
            globs.update(n.names)
        elif isinstance(n, ast.Assign):
            for t in n.targets:
                out.update(_tn(t))
        elif isinstance(n, (ast.AugAssign, ast.AnnAssign)):
            out.update(_tn(n.target))
        elif isinstance(n, (ast.For, ast.comprehension)):
            out.update(_tn(n.target))
        elif isinstance(n, ast.NamedExpr):
            out.add(n.target.id)
        elif isinstance(n, ast.With):
            for it in n.items:
                if it.optional_vars is not None:
                    out.update(_tn(it.optional_vars))
        elif isinstance(n, ast.ExceptHandler) and n.name:
            out.add(n.name)
    return out - globs


def _tn(t):
    if isinstance(t, ast.Name):
        return [t.id]
    if isinstance(t, (ast.Tuple, ast.List)):
        r = []
        for e in t.elts:
            r += _tn(e)
        return r
    if isinstance(t, ast.Starred):
        return _tn(t.value)
    return []


def _is_copy(e, name: str) -> bool:
    """Does expression e (which mentions name) produce a fresh object rather than an alias of name?"""
    if isinstance(e, ast.Name):
        return False
    if isinstance(e, ast.Subscript) and isinstance(e.slice, ast.Slice):
        return True
    if isinstance(e, ast.Subscript):
        return True                      # element, not the container (elements are strings in this tree)
    if isinstance(e, (ast.BinOp, ast.List, ast.Tuple, ast.Set, ast.ListComp, ast.SetComp, ast.GeneratorExp, ast.DictComp,
                      ast.Compare, ast.BoolOp, ast.JoinedStr, ast.Dict)):
        if isinstance(e, ast.BoolOp):
            # `x or []` may evaluate to x itself
            return all(_is_copy(v, name) or name not in {n.id for n in ast.walk(v) if isinstance(n, ast.Name)} for v in e.values)
        return True
    if isinstance(e, ast.Call):
        if isinstance(e.func, ast.Name) and e.func.id in COPIERS:
            return True
        if isinstance(e.func, ast.Attribute) and e.func.attr in ("copy", "keys", "values", "items", "get", "index", "count", "join"):
            return True
        return True                      # result of some call: not the object itself (callee mutation handled separately)
    if isinstance(e, ast.IfExp):
        return _is_copy(e.body, name) and _is_copy(e.orelse, name)
    if isinstance(e, ast.Attribute):
        return True
    if isinstance(e, ast.Starred):
        return True
    return True


def mutated_params(prog, fn: Fn) -> Set[str]:
    """Parameters of fn that fn mutates in place (directly)."""
    out = set()
    ps = set(fn.params)
    rebound = set()
    for n in walk_fn(fn.node):
        if isinstance(n, ast.Call) and isinstance(n.func, ast.Attribute) and n.func.attr in MUTATORS \
                and isinstance(n.func.value, ast.Name) and n.func.value.id in ps:
            out.add(n.func.value.id)
        elif isinstance(n, (ast.Assign, ast.Delete)):
            for t in (n.targets if isinstance(n, (ast.Assign, ast.Delete)) else []):
                if isinstance(t, ast.Subscript) and isinstance(t.value, ast.Name) and t.value.id in ps:
                    out.add(t.value.id)
        elif isinstance(n, ast.AugAssign):
            if isinstance(n.target, ast.Name) and n.target.id in ps:
                out.add(n.target.id)
            elif isinstance(n.target, ast.Subscript) and isinstance(n.target.value, ast.Name) and n.target.value.id in ps:
                out.add(n.target.value.id)
    return out


def rule_shared_mutables(run, prog, rid="R-6.1"):
    run.rule(rid, "no function mutates a module-level or class-level mutable object (lists/dicts/sets bound at import "
             "time) or a mutable default argument: directly, through a local alias bound without copy, by storing it "
             "into an attribute, or by passing it to a repository function that mutates that parameter", floor=80)
    gm = global_mutables(prog)
    cm = class_mutables(prog)
    run.require(len(gm) >= 90, f"only {len(gm)} module-level mutable tables found (floor 90)")
    cg = callgraph(prog)
    mut_cache: Dict[str, Set[str]] = {}

    def callee_mutates(call: ast.Call, fn: Fn, argname_nodes: List[ast.AST]) -> Optional[str]:
        for c in cg.calls_of.get(fn.key, []):
            if c.node is call:
                for t in c.targets:
                    if t.key not in mut_cache:
                        mut_cache[t.key] = mutated_params(prog, t)
                    if not mut_cache[t.key]:
                        continue
                    params = t.params
                    off = 1 if (t.cls is not None and params and params[0] in ("self", "cls")) else 0
                    for i, a in enumerate(call.args):
                        if any(a is x for x in argname_nodes) and i + off < len(params) and params[i + off] in mut_cache[t.key]:
                            return f"{t.key} mutates parameter {params[i + off]}"
                    for k in call.keywords:
                        if any(k.value is x for x in argname_nodes) and k.arg in mut_cache[t.key]:
                            return f"{t.key} mutates parameter {k.arg}"
        return None

    for fn in prog.fns:
        locs = _locals_of(fn)
        # names in this function that denote a shared object: global name (if not shadowed) or alias
        shared: Dict[str, str] = {}      # local name -> description of the shared object
        for n in walk_fn(fn.node):
            if isinstance(n, ast.Name) and isinstance(n.ctx, ast.Load) and n.id not in locs:
                g = resolve_global(prog, fn, n.id, gm)
                if g is not None:
                    shared[n.id] = f"{g[0]}::{g[1]}"
        # mutable defaults
        a = fn.node.args
        pos = a.posonlyargs + a.args
        for p, d in list(zip(pos[len(pos) - len(a.defaults):], a.defaults)) + [
                (p, d) for p, d in zip(a.kwonlyargs, a.kw_defaults) if d is not None]:
            if _is_mutable_display(d) or (isinstance(d, ast.Call) and isinstance(d.func, ast.Name) and d.func.id in prog.classes):
                # (an instance of a repository class built in the signature is created once, at definition time)
                shared[p.arg] = f"{fn.key}::default[{p.arg}]"
        # class-level mutables through self./cls./ClassName.
        def class_shared(e) -> Optional[str]:
            if isinstance(e, ast.Attribute) and isinstance(e.value, ast.Name):
                base = e.value.id
                cname = None
                if base in ("self", "cls") and fn.cls is not None:
                    cname = fn.cls.name
                elif base in prog.classes:
                    cname = base
                while cname is not None:
                    if (cname, e.attr) in cm:
                        # instance attribute of the same name assigned in __init__ shadows it
                        init = prog.method(cname, "__init__")
                        if base == "self" and init is not None and any(
                                isinstance(x, ast.Assign) and any(text(t) == f"self.{e.attr}" for t in x.targets)
                                for x in walk_fn(init.node)):
                            return None
                        return f"{cname}.{e.attr}"
                    bases = prog.classes[cname].bases if cname in prog.classes else []
                    cname = bases[0] if bases else None
            return None

        if not shared and not any(isinstance(n, ast.Attribute) and class_shared(n) for n in walk_fn(fn.node)):
            continue
        # alias propagation (flow-insensitive, to a fixed point)
        changed = True
        while changed:
            changed = False
            for n in walk_fn(fn.node):
                if isinstance(n, ast.Assign) and len(n.targets) == 1 and isinstance(n.targets[0], ast.Name):
                    v = n.value
                    src = None
                    if isinstance(v, ast.Name) and v.id in shared:
                        src = shared[v.id]
                    elif isinstance(v, ast.BoolOp):
                        for sub in v.values:
                            if isinstance(sub, ast.Name) and sub.id in shared:
                                src = shared[sub.id]
                    elif isinstance(v, ast.IfExp):
                        for sub in (v.body, v.orelse):
                            if isinstance(sub, ast.Name) and sub.id in shared:
                                src = shared[sub.id]
                    elif class_shared(v):
                        src = class_shared(v)
                    if src and n.targets[0].id not in shared:
                        # an alias is only interesting if the name is not *also* bound to fresh objects... keep it simple:
                        shared[n.targets[0].id] = src + " (alias)"
                        changed = True
        problems: Dict[str, List[Tuple[ast.AST, str]]] = {}

        def hit(desc, node, what):
            problems.setdefault(desc.replace(" (alias)", ""), []).append((node, what))

        for n in walk_fn(fn.node):
            if isinstance(n, ast.Call) and isinstance(n.func, ast.Attribute) and n.func.attr in MUTATORS:
                r = n.func.value
                if isinstance(r, ast.Name) and r.id in shared:
                    hit(shared[r.id], n, f".{n.func.attr}() on shared object")
                elif class_shared(r):
                    hit(class_shared(r), n, f".{n.func.attr}() on class-level object")
            if isinstance(n, ast.AugAssign):
                t = n.target
                if isinstance(t, ast.Name) and t.id in shared and " (alias)" in shared[t.id] and not isinstance(n.value, ast.Constant):
                    hit(shared[t.id], n, "augmented assignment on an alias mutates the shared object in place")
                if isinstance(t, ast.Subscript) and isinstance(t.value, ast.Name) and t.value.id in shared:
                    hit(shared[t.value.id], n, "item update")
            if isinstance(n, (ast.Assign, ast.Delete)):
                for t in n.targets:
                    if isinstance(t, ast.Subscript) and isinstance(t.value, ast.Name) and t.value.id in shared:
                        hit(shared[t.value.id], n, "item assignment / deletion")
                    if isinstance(t, ast.Subscript) and class_shared(t.value):
                        hit(class_shared(t.value), n, "item assignment on class-level object")
                if isinstance(n, ast.Assign):
                    # storing the shared object itself into an attribute (escape without copy)
                    v = n.value
                    if isinstance(v, ast.Name) and v.id in shared and any(isinstance(t, ast.Attribute) for t in n.targets):
                        hit(shared[v.id], n, "shared object stored into an attribute without copy")
            if isinstance(n, ast.Call):
                argn = [a_ for a_ in list(n.args) + [k.value for k in n.keywords] if isinstance(a_, ast.Name) and a_.id in shared]
                if argn:
                    why = callee_mutates(n, fn, argn)
                    if why:
                        hit(shared[argn[0].id], n, f"passed to a function that mutates it: {why}")
        descs = sorted({d.replace(" (alias)", "") for d in shared.values()})
        for d in descs:
            ps = problems.get(d, [])
            run.ob(rid, f"{fn.key}::shared[{d}]", not ps,
                   f"{fn.qual} mutates shared state {d}: " + "; ".join(f"{w} at line {getattr(nd, 'lineno', '?')}" for nd, w in ps[:3]),
                   ps[0][0] if ps else fn.node)
        for d, ps in problems.items():
            if d not in descs:
                run.ob(rid, f"{fn.key}::shared[{d}]", False,
                       f"{fn.qual} mutates class-level state {d}: " + "; ".join(w for _, w in ps[:3]), ps[0][0])


ITERATOR_MAKERS = {"map", "filter", "zip", "iter", "reversed", "enumerate", "open", "itertools.chain", "itertools.count",
                   "itertools.cycle", "itertools.filterfalse", "itertools.islice"}


def rule_one_shot(run, prog):
    run.rule("R-6.1b", "no one-shot object at import level: a module-level or class-level name bound to an iterator "
             "(map / filter / zip / iter / generator expression / open ...) is consumed by its first use, so that every "
             "later use in the process sees something else", floor=0)
    # positive self-test of the detector (the expected count on the repository is zero)
    probe = ast.parse("kw = map(str.upper, names)\ngen = (x for x in names)\nok = tuple(map(str.upper, names))\n")
    hits = [st.targets[0].id for st in probe.body if isinstance(st.value, ast.GeneratorExp) or
            (isinstance(st.value, ast.Call) and text(st.value.func) in ITERATOR_MAKERS)]
    run.require(hits == ["kw", "gen"], "self-test of the one-shot-iterator detector failed")
    n = 0
    for rel, mod in sorted(prog.mods.items()):
        if rel == "__main__.py":
            continue
        binds = []
        for name, vals in mod.assigns.items():
            for v in vals:
                if isinstance(v, ast.GeneratorExp) or (isinstance(v, ast.Call) and text(v.func) in ITERATOR_MAKERS):
                    binds.append((name, v))
        for c in mod.classes.values():
            for name, v in c.attrs.items():
                if isinstance(v, ast.GeneratorExp) or (isinstance(v, ast.Call) and text(v.func) in ITERATOR_MAKERS):
                    binds.append((f"{c.name}.{name}", v))
        for name, v in binds:
            n += 1
            users = []
            short = name.split(".")[-1]
            for fn in prog.fns:
                for x in walk_fn(fn.node):
                    if isinstance(x, ast.Name) and x.id == short and isinstance(x.ctx, ast.Load) and (
                            fn.mod is mod or (short in fn.mod.imports and fn.mod.imports[short][0] == mod.dotted)):
                        users.append(fn.key)
                    if isinstance(x, ast.Attribute) and x.attr == short and "." in name:
                        users.append(fn.key)
            run.ob("R-6.1b", f"{rel}::{name}::one-shot", not users,
                   f"`{name} = {text(v, 50)}` is a one-shot iterator created at import time and used in {sorted(set(users))[:3]}: "
                   f"the first statement that consumes it gets all its elements, every later one (same file or next file) none",
                   v)
    run.note(f"R-6.1b: {n} import-level iterator binding(s) found")


def rule_class_state(run, prog):
    run.rule("R-6.2", "run-time stores on class objects / module globals are exactly the known, per-activation-rewritten "
             "ones (Rule.__new__: context, name = cls.__name__; Rules singleton); Rule instances are created only by "
             "Registry.run_rules; Registry.dependencies is written only while the registry is built", floor=5)
    allowed = {
        ("rules/rule.py::Rule.__new__", "cls.context"): "rewritten at every instantiation, read only by the instance just created",
        ("rules/rule.py::Rule.__new__", "cls.name"): "function of the class only",
        ("rules/__init__.py::Rules.__new__", "cls.__instance"): "process-wide singleton of the immutable rule table",
    }
    found = set()
    for fn in prog.fns:
        if fn.name == "__init_subclass__":
            continue
        for n in walk_fn(fn.node):
            tgts = []
            if isinstance(n, ast.Assign):
                tgts = n.targets
            elif isinstance(n, (ast.AugAssign, ast.AnnAssign)):
                tgts = [n.target]
            for t in tgts:
                if isinstance(t, ast.Attribute) and isinstance(t.value, ast.Name):
                    base = t.value.id
                    is_cls = base == "cls" or (base in prog.classes) or \
                        (base in fn.mod.imports and fn.mod.imports[base][1] in prog.classes) or \
                        text(t.value) in ("type(self)", "self.__class__")
                    if is_cls:
                        k = (fn.key, text(t))
                        found.add(k)
                        ok = k in allowed
                        if ok and text(t) == "cls.name":
                            ok = isinstance(n, ast.Assign) and text(n.value) == "cls.__name__"
                        run.ob("R-6.2", f"{fn.key}::class-store[{text(t)}]", ok,
                               f"attribute stored on a class object at run time ({text(n)}): state shared by all files of "
                               f"the process", n)
                elif isinstance(t, ast.Attribute) and isinstance(t.value, ast.Call) and text(t.value.func) == "type":
                    run.ob("R-6.2", f"{fn.key}::class-store[{text(t)}]", False,
                           f"attribute stored on a class object at run time ({text(n)})", n)
            if isinstance(n, ast.Call) and isinstance(n.func, ast.Name) and n.func.id == "setattr" and n.args:
                a0 = text(n.args[0])
                if a0 in ("cls",) or a0 in prog.classes:
                    run.ob("R-6.2", f"{fn.key}::class-store[setattr]", False, f"setattr on a class object: {text(n)}", n)
        # module globals written at run time
        globs = [g for n in walk_fn(fn.node) if isinstance(n, ast.Global) for g in n.names]
        for gname in globs:
            written = any(isinstance(n, (ast.Assign, ast.AugAssign)) and gname in
                          sum([_tn(t) for t in (n.targets if isinstance(n, ast.Assign) else [n.target])], [])
                          for n in walk_fn(fn.node))
            run.ob("R-6.2", f"{fn.key}::global[{gname}]", not written,
                   f"module-level variable {gname} is assigned at run time: state carried from one file to the next", fn.node)
    for k in allowed:
        if k not in found:
            run.note(f"R-6.2: expected class-level store {k} not present any more")
    # Rule instances are created only in Registry.run_rules
    rule_names = {c.name for c in prog.subclasses("Rule")}
    cg = callgraph(prog)
    bad = []
    n_ctor = 0
    for c in cg.calls:
        if isinstance(c.node, ast.Call) and isinstance(c.node.func, ast.Name) and c.node.func.id in rule_names:
            bad.append(c)
        if c.how == "dynamic:rule-ctor":
            n_ctor += 1
    run.ob("R-6.2", "registry.py::Registry.run_rules::rule-instances", n_ctor == 1 and not bad,
           "Rule instances are created outside Registry.run_rules (class-level Rule.context would be shared between them)",
           bad[0].node if bad else None, direct_constructions=[text(b.node) for b in bad])
    # Registry.dependencies writers
    writers = set()
    for fn in prog.fns:
        for n in walk_fn(fn.node):
            if isinstance(n, ast.Assign) and any("dependencies" in text(t) for t in n.targets):
                writers.add(fn.key)
            if isinstance(n, ast.Call) and isinstance(n.func, ast.Attribute) and n.func.attr in MUTATORS \
                    and "dependencies" in text(n.func.value):
                writers.add(fn.key)
    okw = writers <= {"registry.py::Registry.__init__", "rules/rule.py::Check.register"}
    reg_sites = [c.caller.key for c in cg.sites.get("rules/rule.py::Check.register", [])]
    run.ob("R-6.2", "registry.py::Registry::dependencies-writers", okw and set(reg_sites) <= {"registry.py::Registry.__init__"},
           f"Registry.dependencies is modified after construction (writers: {sorted(writers)}, register called from {reg_sites})",
           prog.cls("Registry").node)


def _fresh_in_iteration(fn, loop, use, expr, ctor: str, depth=0):
    """Is the value of *expr* (evaluated at *use*, inside *loop*) built from a `<ctor>(...)` call made in the same
    iteration?  Either the expression contains the construction itself, or it reads locals every path from the loop header
    to the use defines (reaching definitions, the loop's back edges cut) by values that derive from one.
    -> (ok, why, the constructor call found)"""
    from ..dataflow import _rd_of, cfg_node_of
    for c in ast.walk(expr):
        if isinstance(c, ast.Call) and isinstance(c.func, ast.Name) and c.func.id == ctor:
            inside = any(a is loop for a in ancestors(c))
            return (inside, "" if inside else f"{ctor}(...) is built outside the loop", c)
    if depth > 4:
        return False, "definition chain too long", None
    g, rd = _rd_of(fn)
    at = cfg_node_of(g, use)
    head = g.nid(loop) if isinstance(loop, ast.For) else g.nid(loop.test)
    names = [n for n in ast.walk(expr) if isinstance(n, ast.Name) and isinstance(n.ctx, ast.Load)]
    if at is None or head is None or not names:
        return False, f"`{text(expr, 40)}` does not come from a {ctor}(...) construction", None
    inside_ids = {id(x) for st in loop.body for x in ast.walk(st)}
    why = f"`{text(expr, 40)}` does not come from a {ctor}(...) construction"
    for nm in names:
        defs = [d for d in rd.get(at, {}).get(nm.id, set()) if d >= 0 and g.nodes[d].ast is not None and id(g.nodes[d].ast) in inside_ids]
        if not defs:
            continue
        # every path of the iteration defines it before the use
        if g.can_reach(head, at, avoid=set(defs), follow_exc=False,
                       edge_filter=lambda a, b, lab: True) and at not in defs:
            why = f"`{nm.id}` may still hold the object of an earlier file when it is used (a path of the iteration does not rebuild it)"
            continue
        results = []
        for d in defs:
            a = g.nodes[d].ast
            val = a.value if isinstance(a, (ast.Assign, ast.AnnAssign)) and g.nodes[d].kind == "stmt" else None
            if val is None:
                results.append((False, f"`{nm.id}` is bound by `{text(a, 40)}`, not by a {ctor}(...) construction", None))
            else:
                results.append(_fresh_in_iteration(fn, loop, a, val, ctor, depth + 1))
        if results and all(r[0] for r in results):
            return True, "", results[0][2]
        if results:
            why = next(r[1] for r in results if not r[0])
    return False, why, None


def _constructors_observed(prog, fi, ci):
    """File.__init__ / Context.__init__ interpreted on stubs: (each File gets its own new Errors, Context.errors is that
    object); None when they cannot be interpreted."""
    import os.path
    from ..minieval import Evaluator, Obj, Unsupported
    try:
        made = []

        def errors_ctor(*a, **k):
            made.append(Obj("Errors", _seq=[]))
            return made[-1]
        pathmod = Obj("module", _native={"basename": os.path.basename, "splitext": os.path.splitext, "split": os.path.split,
                                         "dirname": os.path.dirname, "join": os.path.join})
        files = []
        for path in ("a/x.c", "b/y.h"):
            ev = Evaluator({}, modules={"os": {"path": pathmod}}, lookup=_module_lookup(prog, ["file.py"]))
            ev.globals.update(_stub_globals())
            ev.globals["Errors"] = errors_ctor
            me = Obj("File")
            ev.invoke(fi.node, [me, path], {})
            files.append(me)
        fresh = len(made) == 2 and files[0].__dict__.get("errors") is made[0] and files[1].__dict__.get("errors") is made[1]
        ev = Evaluator({}, lookup=_module_lookup(prog, ["context.py"]))
        ev.globals.update(_stub_globals())
        ev.globals.update({"GlobalScope": lambda *a: Obj("GlobalScope"), "PreProcessors": lambda *a: Obj("PreProcessors"),
                           "int": int, "len": len})
        ctx = Obj("Context")
        ev.invoke(ci.node, [ctx, files[0], [Obj("Token", type="INT", value=None, pos=(1, 1))]], {})
        same = ctx.__dict__.get("errors") is files[0].__dict__.get("errors")
        return fresh, same
    except (Unsupported, LookupError, TypeError, ValueError, AttributeError):
        return None


def rule_fresh(run, prog):
    run.rule("R-6.3", "per-file objects are fresh: Lexer and Context are constructed inside main's per-file loop, File owns "
             "a fresh Errors, and the constructors of Context / Scope* / PreProcessors / File / Errors bind only literals, "
             "constructor results and their own parameters (no class-level mutable in those modules)", floor=8)
    main = prog.fn("__main__.py::main")
    cg = callgraph(prog)
    runs = [c.node for c in cg.calls_of.get(main.key, []) if any(t.key == "registry.py::Registry.run" for t in c.targets)
            and isinstance(c.node, ast.Call)]
    run.require(len(runs) >= 1, "anchor vanished: the call of Registry.run in main")
    for call in runs:
        loop = next((a for a in ancestors(call) if isinstance(a, (ast.For, ast.While))), None)
        arg = call.args[0] if call.args else (call.keywords[0].value if call.keywords else None)
        if loop is None or arg is None:
            for cname in ("Lexer", "Context"):
                run.ob("R-6.3", f"{main.key}::fresh[{cname}]", False,
                       f"registry.run is not called inside a per-file loop with a context argument", call)
            continue
        ok_c, why_c, ctor = _fresh_in_iteration(main, loop, call, arg, "Context")
        run.ob("R-6.3", f"{main.key}::fresh[Context]", ok_c,
               f"Context is not constructed once per file inside the per-file loop: {why_c}", ctor or call)
        ok_l, why_l = False, "no Context(...) construction found to look at its token argument"
        node_l = call
        if ctor is not None:
            targ = ctor.args[1] if len(ctor.args) > 1 else next((k.value for k in ctor.keywords if k.arg == "tokens"), None)
            if targ is None:
                why_l = "Context(...) is built without a token list argument"
            else:
                ok_l, why_l, lx = _fresh_in_iteration(main, loop, ctor, targ, "Lexer")
                node_l = lx or ctor
        run.ob("R-6.3", f"{main.key}::fresh[Lexer]", ok_l,
               f"Lexer is not constructed once per file inside the per-file loop: {why_l}", node_l)
    gm = global_mutables(prog)
    for cname in ["Context", "PreProcessors", "File", "Errors"] + [c.name for c in prog.subclasses("Scope", strict=False)]:
        c = prog.cls(cname)
        bad_attrs = [a for a, e in c.attrs.items() if a != "__slots__" and _is_mutable_display(e)]
        init = c.methods.get("__init__")
        bad = []
        if init is not None:
            for n in walk_fn(init.node):
                if isinstance(n, ast.Assign) and any(isinstance(t, ast.Attribute) and text(t.value) == "self" for t in n.targets):
                    for nm in ast.walk(n.value):
                        if isinstance(nm, ast.Name) and isinstance(nm.ctx, ast.Load) and nm.id not in init.params:
                            if resolve_global(prog, init, nm.id, gm) is not None and not _is_copy(n.value, nm.id):
                                bad.append(n)
        run.ob("R-6.3", f"{c.key}::fresh-state", not bad_attrs and not bad,
               f"{cname} shares mutable state between instances (class-level mutable {bad_attrs} / global stored in __init__)",
               bad[0] if bad else c.node)
    fi = prog.method("File", "__init__")
    ok = any(isinstance(n, ast.Assign) and text(n.targets[0]) == "self.errors" and text(n.value) == "Errors()" for n in walk_fn(fi.node))
    ci = prog.method("Context", "__init__")
    ok2 = any(isinstance(n, ast.Assign) and text(n.targets[0]) == "self.errors" and text(n.value) == "file.errors" for n in walk_fn(ci.node))
    if not (ok and ok2):
        seen = _constructors_observed(prog, fi, ci)
        if seen is not None:
            ok, ok2 = seen
    run.ob("R-6.3", f"{fi.key}::fresh-errors", ok, "File.__init__ does not create a fresh Errors()", fi.node)
    run.ob("R-6.3", f"{ci.key}::errors-of-file", ok2, "Context.errors is not the file's own Errors", ci.node)


# ------------------------------------------------------------------------------------------------
# The rule tables, observed: Rules.__init__, Check.__init_subclass__, Check.register and Registry.__init__ are run by the
# analyser's interpreter (minieval) on stub classes, with the order of __subclasses__() / os.listdir permuted.
_SEM = {}


def _module_lookup(prog, rels):
    def lookup(name):
        for rel in rels:
            m = prog.mods.get(rel)
            if m is not None and len(m.assigns.get(name, [])) == 1 and isinstance(m.assigns[name][0], ast.expr):
                return m.assigns[name][0]
        return None
    return lookup


def _stub_globals():
    return {"attrgetter": lambda *names: (lambda o: o.__dict__[names[0]] if len(names) == 1 else tuple(o.__dict__[n] for n in names)),
            "list": list, "dict": dict, "set": set, "tuple": tuple, "print": lambda *a, **k: None,
            "reversed": lambda x: list(reversed(x)), "enumerate": lambda x, start=0: list(enumerate(x, start)),
            "zip": lambda *x: list(zip(*x)), "str": str, "repr": repr}


def registry_semantics(prog):
    """{"primaries": [problems], "discovery": [...], "dependencies": [...], "register": [...], "init_subclass": [...],
    "unsupported": {part: reason}} -- an empty list means the part behaves as the registry model assumes."""
    if id(prog) in _SEM:
        return _SEM[id(prog)]
    import collections
    import itertools
    import os.path
    from ..minieval import Evaluator, Obj, Raised, Unsupported
    out = {"primaries": [], "discovery": [], "dependencies": [], "register": [], "init_subclass": [], "unsupported": {}}
    errors = (Raised, LookupError, TypeError, ValueError, AttributeError)

    # ---- Rules.__init__ ------------------------------------------------------------------------------
    ri = prog.fn("rules/__init__.py::Rules.__init__")
    prim = [Obj("type", __name__=n, name=n, priority=p, scope=()) for n, p in (("IsA", 10), ("IsB", 30), ("IsC", 20), ("IsD", 5))]
    chk = [Obj("type", __name__=n, name=n) for n in ("CheckX", "CheckY")]
    want = [x.__dict__["__name__"] for x in sorted(prim, key=lambda o: -o.__dict__["priority"])]
    listing = ["is_a.py", "check_b.py", "is_c.py"]
    try:
        results = []
        for perm in ([0, 1, 2, 3], [3, 2, 1, 0], [2, 0, 3, 1]):
            for files in (listing, listing[::-1]):
                imported = []
                order = [prim[i] for i in perm]
                g = _stub_globals()
                g.update({"__file__": "/pkg/norminette/rules/__init__.py",
                          "Primary": Obj("type", _native={"__subclasses__": lambda o=order: list(o)}),
                          "Check": Obj("type", _native={"__subclasses__": lambda: list(chk)}),
                          "Rule": Obj("type", _native={"__subclasses__": lambda o=order: list(o) + list(chk)})})
                pathmod = Obj("module", _native={"dirname": os.path.dirname, "realpath": lambda p_: p_, "abspath": lambda p_: p_,
                                                 "splitext": os.path.splitext, "join": os.path.join, "basename": os.path.basename})
                ev = Evaluator({}, modules={"os": {"path": pathmod, "listdir": lambda d, f=files: list(f),
                                                   "scandir": lambda d, f=files: [Obj("DirEntry", name=x, path=d + "/" + x,
                                                                                      _native={"is_file": lambda: True, "is_dir": lambda: False})
                                                                                  for x in f]},
                                            "glob": {"glob": lambda pat, f=files, **k: [os.path.dirname(pat) + "/" + x for x in f]},
                                            "importlib": {"import_module": lambda nm, *a, _i=imported: _i.append(nm)}},
                               lookup=_module_lookup(prog, ["rules/__init__.py"]))
                ev.globals.update(g)
                me = Obj("Rules")
                try:
                    ev.call_function(ri.node, {ri.params[0]: me})
                except errors as e:
                    out["primaries"].append(f"Rules.__init__ fails on stub rule classes: {type(e).__name__}: {e}")
                    raise StopIteration
                got = me.__dict__.get("primaries")
                names = [x.__dict__.get("__name__") for x in got] if isinstance(got, (list, tuple)) else None
                results.append(names)
                if names != want:
                    out["primaries"].append(f"with __subclasses__() order {[o.__dict__['__name__'] for o in order]} rules.primaries is {names}, "
                                            f"expected {want} (descending priority, whatever the import order)")
                missing = [f for f in files if "norminette.rules." + f[:-3] not in imported]
                if missing:
                    out["discovery"].append(f"modules {missing} of the rules directory are not imported (imported: {imported})")
                if me.__dict__.get("checks") is None or [x.__dict__["__name__"] for x in me.__dict__["checks"]] != ["CheckX", "CheckY"]:
                    out["discovery"].append("rules.checks is not Check.__subclasses__()")
    except StopIteration:
        pass
    except Unsupported as e:
        out["unsupported"]["rules_init"] = str(e)

    # ---- Check.__init_subclass__ ------------------------------------------------------------------------------
    ck = prog.cls("Check")
    isc = ck.methods.get("__init_subclass__")
    reg = ck.methods.get("register")
    if isc is None or reg is None:
        raise AnalysisError("anchor vanished: Check.__init_subclass__ / Check.register")
    cases = [({}, {}), ({"depends_on": ("IsA",)}, {}), ({"depends_on": ("IsA", "IsB")}, {"runs_on_rule": True}),
             ({}, {"runs_on_start": True}), ({"depends_on": ("IsA",)}, {"runs_on_end": True}), ({}, {"runs_on_rule": False}),
             ({"runs_on_end": True}, {})]
    try:
        for attrs, kwargs in cases:
            cls = Obj("CheckStub", __name__="CheckS", **attrs)
            ev = Evaluator({}, lookup=_module_lookup(prog, ["rules/rule.py"]))
            ev.globals.update(_stub_globals())
            ev.globals["super"] = lambda *a: Obj("super", _native={"__init_subclass__": lambda *a_, **k_: None})
            try:
                ev.invoke(isc.node, [cls], dict(kwargs))
            except errors as e:
                out["init_subclass"].append(f"Check.__init_subclass__ fails for class attributes {attrs}, keywords {kwargs}: {type(e).__name__}: {e}")
                continue
            deps = attrs.get("depends_on", ())
            exp = {"depends_on": deps,
                   "runs_on_start": kwargs.get("runs_on_start", attrs.get("runs_on_start", False)),
                   "runs_on_rule": kwargs.get("runs_on_rule", attrs.get("runs_on_rule", not deps)),
                   "runs_on_end": kwargs.get("runs_on_end", attrs.get("runs_on_end", False))}
            gotv = {k: cls.__dict__.get(k, "<unset>") for k in exp}
            if any(bool(gotv[k]) != bool(exp[k]) or gotv[k] == "<unset>" for k in exp if k != "depends_on") \
                    or tuple(gotv["depends_on"] if gotv["depends_on"] != "<unset>" else ("<unset>",)) != tuple(deps):
                out["init_subclass"].append(f"a Check declared with attributes {attrs} and class keywords {kwargs} gets {gotv}, the "
                                            f"registry model assumes {exp}")
    except Unsupported as e:
        out["unsupported"]["init_subclass"] = str(e)

    # ---- Registry.__init__ + Check.register ------------------------------------------------------------------------
    gi = prog.fn("registry.py::Registry.__init__")
    spec = [("CheckM", ("IsA",), False, False, False), ("CheckB", ("IsA", "IsB"), False, True, False),
            ("CheckZ", (), False, True, False), ("CheckA", (), True, True, True), ("CheckK", ("IsB",), False, False, True),
            ("CheckC", ("IsA",), False, True, False)]
    try:
        tables = []
        for perm in itertools.islice(itertools.permutations(range(len(spec))), 0, 720, 97):
            stubs = [Obj("CheckStub", __name__=n, name=n, depends_on=d, runs_on_start=s_, runs_on_rule=r, runs_on_end=e_)
                     for n, d, s_, r, e_ in (spec[i] for i in perm)]
            ev = Evaluator({("CheckStub", "register"): reg.node, **{("Registry", n): m.node for n, m in prog.cls("Registry").methods.items()}},
                           modules={"collections": {"defaultdict": lambda f=None: collections.defaultdict(list),
                                                    "OrderedDict": collections.OrderedDict}},
                           lookup=_module_lookup(prog, ["registry.py", "rules/rule.py"]))
            ev.globals.update(_stub_globals())
            ev.globals["defaultdict"] = lambda f=None: collections.defaultdict(list)
            ev.globals["rules"] = Obj("Rules", checks=stubs, primaries=[], all=stubs)
            me = Obj("Registry")
            try:
                ev.call_function(gi.node, {gi.params[0]: me})
            except errors as e:
                out["dependencies"].append(f"Registry.__init__ fails on stub checks: {type(e).__name__}: {e}")
                break
            deps = me.__dict__.get("dependencies")
            if not isinstance(deps, dict):
                out["dependencies"].append("Registry.__init__ does not build self.dependencies")
                break
            table = {k: [x.__dict__["__name__"] for x in v] for k, v in deps.items() if v}
            tables.append(table)
            expect = {}
            for n, d, s_, r, e_ in spec:
                for k in list(d) + (["_start"] if s_ else []) + (["_rule"] if r else []) + (["_end"] if e_ else []):
                    expect.setdefault(k, []).append(n)
            for k in sorted(set(expect) | set(table)):
                if sorted(table.get(k, [])) != sorted(expect.get(k, [])):
                    out["register"].append(f"slot {k!r} holds {sorted(table.get(k, []))}, the registry model expects {sorted(expect.get(k, []))}")
        if tables and any(t != tables[0] for t in tables[1:]):
            k = next(k for t in tables[1:] for k in t if t.get(k) != tables[0].get(k))
            other = next(t for t in tables[1:] if t.get(k) != tables[0].get(k))
            out["dependencies"].append(f"the order of Registry.dependencies[{k!r}] follows the registration order ({tables[0].get(k)} vs "
                                       f"{other.get(k)}): it would be decided by os.listdir")
    except Unsupported as e:
        out["unsupported"]["registry_init"] = str(e)
    for k in ("primaries", "discovery", "dependencies", "register", "init_subclass"):
        out[k] = sorted(set(out[k]))
    _SEM[id(prog)] = out
    return out


def rule_order(run, prog):
    run.rule("R-6.4", "registry order is independent of the directory listing: Primary priorities pairwise distinct, rule "
             "names distinct, rules.primaries and every Registry.dependencies list come out of sorted(key=priority / "
             "__name__), nothing else consumes __subclasses__() order", floor=6)
    rm = registry_model(prog)
    seen: Dict = {}
    for c in rm.primaries:
        p = rm.priority.get(c.name)
        ok = isinstance(p, int) and p not in seen
        run.ob("R-6.4", f"{c.key}::priority", ok,
               f"priority {p!r} of {c.name} is not a unique integer (also {seen.get(p)}): the order of the two rules "
               f"would be decided by os.listdir", c.node, priority=p)
        seen.setdefault(p, c.name)
    sem = registry_semantics(prog)
    ri = prog.fn("rules/__init__.py::Rules.__init__")
    asg = {text(n.targets[0]): n for n in walk_fn(ri.node) if isinstance(n, ast.Assign)}
    pn = asg.get("self.primaries")
    if "rules_init" in sem["unsupported"]:
        # outside the interpreter's subset: the syntactic form
        run.note(f"R-6.4: Rules.__init__ not interpreted ({sem['unsupported']['rules_init']}); syntactic form used")
        ok = pn is not None and isinstance(pn.value, ast.Call) and text(pn.value.func) == "sorted" and "priority" in text(
            [k.value for k in pn.value.keywords if k.arg == "key"][0] if [k for k in pn.value.keywords if k.arg == "key"] else ast.Constant(0))
        why = "rules.primaries is not sorted by priority"
    else:
        ok = not sem["primaries"]
        why = "rules.primaries is not sorted by priority: " + "; ".join(sem["primaries"][:2])
    run.ob("R-6.4", f"{ri.key}::sorted-primaries", ok, why, pn or ri.node)
    gi = prog.fn("registry.py::Registry.__init__")
    stores = [n for n in walk_fn(gi.node) if isinstance(n, ast.Assign) and "self.dependencies[" in text(n.targets[0])]
    if "registry_init" in sem["unsupported"]:
        run.note(f"R-6.4: Registry.__init__ not interpreted ({sem['unsupported']['registry_init']}); syntactic form used")
        ok = bool(stores) and all(isinstance(n.value, ast.Call) and text(n.value.func) == "sorted" and any(
            k.arg == "key" and "__name__" in text(k.value) for k in n.value.keywords) for n in stores)
        # ... and it happens for every key: the store is inside a loop over self.dependencies.items()
        ok = ok and all(any(isinstance(a, ast.For) and "self.dependencies" in text(a.iter) for a in ancestors(n)) for n in stores)
        why = "the dependency lists are not re-sorted by class name after registration"
    else:
        ok = not sem["dependencies"]
        why = "the dependency lists are not re-sorted by class name after registration: " + "; ".join(sem["dependencies"][:2])
    run.ob("R-6.4", f"{gi.key}::sorted-dependencies", ok, why, stores[0] if stores else gi.node)
    users = []
    for fn in prog.fns:
        for n in walk_fn(fn.node):
            if isinstance(n, ast.Attribute) and n.attr in ("__subclasses__",):
                users.append((fn.key, n))
            if isinstance(n, ast.Attribute) and n.attr in ("checks", "all", "primaries") and text(n.value) in ("rules", "self") \
                    and isinstance(n.ctx, ast.Load) and fn.mod.rel in ("registry.py", "rules/__init__.py"):
                users.append((fn.key, n))
    allowed_users = {"rules/__init__.py::Rules.__init__", "registry.py::Registry.__init__", "registry.py::Registry.run"}
    extra = sorted({k for k, _ in users} - allowed_users)
    run.ob("R-6.4", "rules/__init__.py::Rules::order-consumers", not extra and len(users) >= 4,
           f"rule tables / __subclasses__() are consumed in {extra}: an order-sensitive use outside the sorted tables",
           users[0][1] if users else None, users=len(users))
    # registration order does not matter: Check.register only adds the class to the lists of its slots, Registry.__init__
    # sorts afterwards (above)
    reg = prog.fn("rules/rule.py::Check.register")
    if "registry_init" in sem["unsupported"]:
        only_append = all(not (isinstance(n, ast.Call) and isinstance(n.func, ast.Attribute) and n.func.attr in MUTATORS - {"append"}
                               and "dependencies" in text(n.func.value)) for n in walk_fn(reg.node))
        why = "Check.register does more than append to the dependency lists"
    else:
        only_append = not sem["register"]
        why = "Check.register does more than append the class to the lists of its slots: " + "; ".join(sem["register"][:2])
    run.ob("R-6.4", f"{reg.key}::append-only", only_append, why, reg.node)


SETTERS = {
    "sys.setrecursionlimit": "sys.setrecursionlimit", "os.chdir": "os.chdir", "locale.setlocale": "locale.setlocale",
    "signal.signal": "signal.signal", "random.seed": "random.seed", "os.umask": "os.umask",
    "sys.setswitchinterval": "sys.setswitchinterval", "os.putenv": "os.putenv", "sys.settrace": "sys.settrace",
}


def rule_restore(run, prog):
    run.rule("R-6.5", "PAIR: every call that changes interpreter/process state (sys.setrecursionlimit, os.chdir, "
             "os.environ[...] =, locale/signal/random.seed ...) is followed by a restoring call of the same API that runs "
             "on all exits, exceptional ones included (try/finally around the yield of a generator context manager)", floor=1)
    n_found = 0
    for fn in prog.fns:
        if fn.mod.rel == "__main__.py":
            continue
        calls = [n for n in walk_fn(fn.node) if isinstance(n, ast.Call) and text(n.func) in SETTERS]
        env_stores = [n for n in walk_fn(fn.node) if isinstance(n, (ast.Assign, ast.AugAssign, ast.Delete))
                      and any("os.environ" in text(t) for t in (n.targets if not isinstance(n, ast.AugAssign) else [n.target]))]
        for n in env_stores:
            n_found += 1
            run.ob("R-6.5", f"{fn.key}::environ-store", False, "os.environ modified in the analysis path", n)
        by_api: Dict[str, List[ast.Call]] = {}
        for c in calls:
            by_api.setdefault(text(c.func), []).append(c)
        for api, cs in by_api.items():
            # a context-manager class: acquired in __enter__, given back in __exit__ on every path through it
            if fn.cls is not None and fn.name in ("__enter__", "__exit__") and {"__enter__", "__exit__"} <= set(fn.cls.methods):
                ex = fn.cls.methods["__exit__"]
                en = fn.cls.methods["__enter__"]
                if fn.name == "__exit__" and any(isinstance(x, ast.Call) and text(x.func) == api for x in walk_fn(en.node)):
                    continue                      # judged with __enter__
                n_found += 1
                gx = cfg_of(ex)
                from ..dataflow import cfg_node_of
                rest = {cfg_node_of(gx, x) for x in walk_fn(ex.node) if isinstance(x, ast.Call) and text(x.func) == api}
                rest.discard(None)
                okc = bool(rest) and gx.exit not in gx.reachable(gx.entry, avoid=rest, follow_exc=False)
                run.ob("R-6.5", f"{fn.key}::restore[{api}]", okc,
                       f"{api} is changed in __enter__ and not restored on every path through __exit__ "
                       f"({'no restoring call' if not rest else 'a path skips the restoring call'}): the setting leaks into the "
                       f"analysis of later files", cs[0])
                continue
            n_found += 1
            first = min(cs, key=lambda c: (c.lineno, c.col_offset))
            restores = [c for c in cs if c is not first]
            ok = False
            why = "no restoring call"
            for r in restores:
                # the restore must sit in a `finally` whose try body contains everything between acquire and restore
                fin = None
                cur = r
                for a in ancestors(r):
                    if isinstance(a, ast.Try) and any(_contains(s, r) for s in a.finalbody):
                        fin = a
                        break
                    if a is fn.node:
                        break
                if fin is None:
                    why = "the restoring call is not in a finally clause: it is skipped when the guarded code raises"
                    continue
                # acquire happens before the try or inside its body
                if _contains(fin, first) and not any(_contains(s, first) for s in fin.body):
                    why = "acquire is not covered by the try"
                    continue
                if not _contains(fin, first):
                    # acquire precedes the try in the same block, nothing that can raise in between
                    blk = _block_of(fin, fn)
                    idx_t = [i for i, s in enumerate(blk) if s is fin]
                    idx_a = [i for i, s in enumerate(blk) if _contains(s, first)]
                    if not idx_t or not idx_a or idx_a[0] > idx_t[0]:
                        why = "acquire does not precede the try in the same block"
                        continue
                    between = blk[idx_a[0] + 1: idx_t[0]]
                    if any(isinstance(x, (ast.Call, ast.Yield)) for s in between for x in ast.walk(s)):
                        why = "statements that may raise sit between acquire and the try"
                        continue
                is_gen = any(isinstance(x, (ast.Yield, ast.YieldFrom)) for x in walk_fn(fn.node))
                if is_gen and not any(isinstance(x, (ast.Yield, ast.YieldFrom)) for s in fin.body for x in ast.walk(s)):
                    why = "the yield of the context manager is outside the try"
                    continue
                ok = True
            run.ob("R-6.5", f"{fn.key}::restore[{api}]", ok,
                   f"{api} is changed and not restored on all exits ({why}): the setting leaks into the analysis of later files",
                   first)
    run.require(n_found >= 1, "no process-state setter found at all (expected sys.setrecursionlimit in recursion_limit)")


def _contains(container, node) -> bool:
    n = node
    while n is not None:
        if n is container:
            return True
        n = parent(n)
    return False


def _block_of(stmt, fn):
    p = parent(stmt)
    for field in ("body", "orelse", "finalbody"):
        blk = getattr(p, field, None)
        if isinstance(blk, list) and any(s is stmt for s in blk):
            return blk
    return []


AMBIENT = {
    "os.environ", "os.getenv", "os.getcwd", "os.getpid", "time.time", "time.monotonic", "time.localtime", "time.strftime",
    "datetime.datetime.now", "datetime.now", "datetime.date.today", "random.random", "random.randint", "random.choice",
    "random.shuffle", "os.listdir", "os.scandir", "os.walk", "glob.glob", "open", "input", "sys.argv", "os.urandom",
    "uuid.uuid4", "socket.gethostname", "platform.platform", "os.path.abspath", "os.path.realpath", "os.stat",
    "os.path.exists", "os.path.getmtime", "pathlib.Path", "hash", "id",
}
AMBIENT_ALLOWED = {
    ("file.py::File.source", "open"): "reads the file under analysis: it IS the input",
    ("rules/__init__.py::Rules.__init__", "os.listdir"): "rule discovery; order neutralised by R-6.4",
    ("rules/__init__.py::Rules.__init__", "os.path.realpath"): "rule discovery",
    ("rules/__init__.py::Rules.__init__", "os.path.abspath"): "rule discovery",
    ("rules/__init__.py::Rules.__init__", "os.scandir"): "rule discovery; order neutralised by R-6.4",
    ("rules/__init__.py::Rules.__init__", "glob.glob"): "rule discovery; order neutralised by R-6.4",
    ("rules/__init__.py::Rules.__init__", "pathlib.Path"): "rule discovery; order neutralised by R-6.4",
    ("errors.py::JSONErrorsFormatter.__str__", "os.path.abspath"): "presentation of the path in the JSON report",
    ("rules/rule.py::Rule.__hash__", "hash"): "hash of the rule's name string, used for equality with strings only",
}


def rule_ambient(run, prog):
    run.rule("R-6.6", "no hidden inputs: outside __main__ the analysis path reads no ambient state (environment, clock, "
             "randomness, cwd, file system, object identity) except the allow-listed sites", floor=3)
    for fn in prog.fns:
        if fn.mod.rel == "__main__.py":
            continue
        for n in walk_fn(fn.node):
            t = None
            if isinstance(n, ast.Call):
                t = text(n.func)
            elif isinstance(n, ast.Attribute) and text(n) in ("os.environ", "sys.argv"):
                t = text(n)
            if t in AMBIENT:
                k = (fn.key, t)
                why = AMBIENT_ALLOWED.get(k)
                if why is None and t in ("os.path.abspath", "os.path.realpath") and fn.cls is not None \
                        and (fn.cls.name == "_formatter" or prog.is_sub(fn.cls.name, "_formatter")):
                    # any method of a formatter (not only __str__): the formatters run after the analysis and are views of
                    # its result (R-16.4); how they spell the path decides no diagnostic
                    why = "presentation of the path in a report"
                run.ob("R-6.6", f"{fn.key}::ambient[{t}]", why is not None,
                       f"{t} read in the analysis path: the verdict would depend on something other than the file", n,
                       allowed_because=why)
    # module-level ambient reads (import time) in analysis modules
    for rel, mod in prog.mods.items():
        if rel == "__main__.py":
            continue
        for st in mod.tree.body:
            if isinstance(st, (ast.FunctionDef, ast.ClassDef, ast.AsyncFunctionDef)):
                continue
            for n in ast.walk(st):
                if isinstance(n, ast.Call) and text(n.func) in AMBIENT:
                    run.ob("R-6.6", f"{rel}::module-level::ambient[{text(n.func)}]", False,
                           f"{text(n.func)} evaluated at import time in an analysis module", n)


def check(run, prog):
    rule_shared_mutables(run, prog)
    rule_one_shot(run, prog)
    rule_class_state(run, prog)
    rule_fresh(run, prog)
    rule_order(run, prog)
    rule_restore(run, prog)
    rule_ambient(run, prog)
    from .c06_longlived import rule_long_lived
    rule_long_lived(run, prog)               # R-6.7
    from .c06_memo import rule_memoised_results
    rule_memoised_results(run, prog)         # R-6.8
