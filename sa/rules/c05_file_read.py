"""R-5.15 (property C05) and R-7.6 = R-16.7 (properties C07 / C16): reading the file.

"Whatever a .c/.h file contains" includes bytes that are not valid text.  Two obligations on every read of file content on
the analysis path (open(...).read(), Path.read_text, ...; not in __main__'s own option handling):

* lossless (R-7.6 / R-16.7): the decoding is strict or reversible -- no `errors="ignore"` / `"replace"` / `"backslashreplace"` /
  `"namereplace"` / `"xmlcharrefreplace"`: such a handler drops or rewrites bytes before the lexer sees them, so text that no
  rule recognises disappears while the file is reported OK;
* answered (R-5.15): a strict text decoding can raise UnicodeDecodeError (a ValueError).  Every such read must be inside a try
  whose handler catches it (UnicodeDecodeError / UnicodeError / ValueError / Exception) and raises one of the repository's
  own errors (which main() turns into the one-line fatal diagnostic) -- or main's per-file try must catch it itself."""
from __future__ import annotations

import ast
from typing import List, Optional

from ..fold import fold_in_fn
from ..model import ancestors, text, walk_fn

LOSSY = {"ignore", "replace", "backslashreplace", "namereplace", "xmlcharrefreplace"}
_CATCHES = {"UnicodeDecodeError", "UnicodeError", "ValueError", "Exception", "BaseException"}


def file_reads(prog):
    """(fn, call) for every call that opens / reads file content as text on the analysis path."""
    out = []
    for fn in prog.fns:
        if fn.mod.rel == "__main__.py":
            continue
        for n in walk_fn(fn.node):
            if not isinstance(n, ast.Call):
                continue
            f = text(n.func)
            if f in ("open", "io.open", "codecs.open") or f.endswith(".read_text") or (f.endswith(".open") and "path" in f.lower()):
                mode = None
                if f.endswith("open"):
                    m = n.args[1] if len(n.args) > 1 else next((k.value for k in n.keywords if k.arg == "mode"), None)
                    mode = fold_in_fn(m, fn, default=None) if m is not None else "r"
                if isinstance(mode, str) and ("b" in mode or "w" in mode or "a" in mode):
                    continue                      # bytes, or not a read
                out.append((fn, n))
    return out


def _kw(call, name):
    return next((k.value for k in call.keywords if k.arg == name), None)


def rule_lossless_read(run, prog, rid="R-7.6"):
    run.rule(rid, "the text analysed is the text of the file: every read of file content on the analysis path decodes strictly (or "
             "reversibly); no errors= handler that drops or rewrites bytes (ignore / replace / backslashreplace ...)", floor=1)
    reads = file_reads(prog)
    run.require(len(reads) >= 1, "anchor vanished: no read of file content found outside __main__")
    for fn, call in reads:
        e = _kw(call, "errors")
        v = fold_in_fn(e, fn, default=None) if e is not None else None
        bad = e is not None and (not isinstance(v, str) or v in LOSSY)
        run.ob(rid, f"{fn.key}::read[{text(call.func, 30)}]", not bad,
               f"`{text(call, 70)}` decodes with errors={v!r}: bytes that are not valid text are dropped or rewritten before the lexer "
               f"sees them -- text no rule recognises vanishes and the file is still reported OK", call)


def rule_read_answered(run, prog, rid="R-5.15"):
    run.rule(rid, "reading the file cannot end in a traceback: every strict text read on the analysis path is inside a try whose "
             "handler for the decoding error raises one of the repository's own errors (main turns those into the one-line fatal "
             "diagnostic), or main's per-file try catches the decoding error itself", floor=0)
    reads = file_reads(prog)
    run.require(len(reads) >= 1, "anchor vanished: no read of file content found outside __main__")
    main = prog.fn("__main__.py::main")
    main_catches = False
    for t in walk_fn(main.node):
        if isinstance(t, ast.Try) and any("Lexer" in text(s, 200) for s in t.body):
            for h in t.handlers:
                names = [text(x) for x in (h.type.elts if isinstance(h.type, ast.Tuple) else [h.type])] if h.type is not None else ["BaseException"]
                if any(nm.split(".")[-1] in _CATCHES | {"OSError"} and nm.split(".")[-1] != "OSError" for nm in names):
                    main_catches = True
    repo_errors = {c for c in prog.classes if prog.is_sub(c, "NorminetteError")} | {"NorminetteError"}
    for fn, call in reads:
        e = _kw(call, "errors")
        v = fold_in_fn(e, fn, default=None) if e is not None else None
        if isinstance(v, str) and v not in ("strict",):
            run.note(f"{rid}: `{text(call, 50)}` cannot raise a decoding error (errors={v!r}); whether that handler is acceptable is R-7.6's business")
            continue
        handled = main_catches
        why = "no enclosing try catches UnicodeDecodeError"
        # the decoding happens at .read() / iteration of the opened file: the with-statement (or the call) must be inside the try
        for a in ancestors(call):
            if isinstance(a, (ast.FunctionDef, ast.AsyncFunctionDef)):
                break
            if isinstance(a, ast.Try) and not any(call is x for h in a.handlers for x in ast.walk(h)):
                for h in a.handlers:
                    names = [text(x).split(".")[-1] for x in (h.type.elts if isinstance(h.type, ast.Tuple) else [h.type])] \
                        if h.type is not None else ["BaseException"]
                    if not set(names) & _CATCHES:
                        continue
                    raises = [r for r in ast.walk(h) if isinstance(r, ast.Raise) and r.exc is not None]
                    ok = [r for r in raises if text(r.exc.func if isinstance(r.exc, ast.Call) else r.exc).split(".")[-1] in repo_errors]
                    if ok:
                        handled = True
                    else:
                        why = f"the handler `except {', '.join(names)}` does not raise a NorminetteError"
        run.ob(rid, f"{fn.key}::read-answered[{text(call.func, 30)}]", handled,
               f"`{text(call, 60)}` decodes the file strictly: a byte sequence that is not valid text raises UnicodeDecodeError, and "
               f"{why}: the run dies with a traceback instead of a fatal diagnostic", call)
