"""C07 — every statement is examined exactly once; nothing is skipped silently
(partial: ownership of the token stream and the fatal clause).  DESIGN.md §4.7."""
from __future__ import annotations

import ast

from ..calls import callgraph
from ..cfg import cfg_of
from ..model import ancestors, text, walk_fn
from .c05 import caught_at, handler_names, _cfg_node_of_expr

LIST_MUTATORS = {"pop", "insert", "remove", "clear", "sort", "reverse", "append", "extend", "__setitem__", "__delitem__"}


def _value_when_debug_zero(test):
    """If *test* is a function of context.debug and constants only, its truth value for debug == 0."""
    class Sub(ast.NodeTransformer):
        ok = True

        def visit_Attribute(self, node):
            if text(node) in ("context.debug", "self.debug", "self.context.debug"):
                return ast.copy_location(ast.Constant(0), node)
            self.ok = False
            return node

        def visit_Name(self, node):
            self.ok = False
            return node

        def visit_Call(self, node):
            self.ok = False
            return node

    import copy
    sub = Sub()
    e = sub.visit(ast.parse(ast.unparse(test), mode="eval").body)
    if not sub.ok:
        return None
    if not any(isinstance(n, ast.Constant) for n in ast.walk(e)):
        return None
    allowed = (ast.Compare, ast.BoolOp, ast.UnaryOp, ast.Constant, ast.And, ast.Or, ast.Not, ast.Eq, ast.NotEq, ast.Lt,
               ast.LtE, ast.Gt, ast.GtE, ast.Is, ast.IsNot, ast.Load, ast.USub)
    if not all(isinstance(n, allowed) for n in ast.walk(e)):
        return None
    try:
        return bool(eval(compile(ast.fix_missing_locations(ast.Expression(e)), "<debug-test>", "eval"), {"__builtins__": {}}))
    except Exception:
        return None


# ------------------------------------------------------------------------------------------------
# abstract values of marker variables
A_NONE, A_EMPTY, A_NONEMPTY, A_NUM, A_NUM_NZ, A_ZERO, A_TRUE, A_FALSE, A_UNK = (
    "None", "empty", "nonempty", "number", "nonzero", "zero", "True", "False", "unknown")
_TRUTH = {A_NONE: (False,), A_EMPTY: (False,), A_NONEMPTY: (True,), A_NUM: (True, False), A_NUM_NZ: (True,),
          A_ZERO: (False,), A_TRUE: (True,), A_FALSE: (False,), A_UNK: (True, False)}


def _abs_value(e, state) -> str:
    if isinstance(e, ast.Constant):
        if e.value is None:
            return A_NONE
        if e.value is True:
            return A_TRUE
        if e.value is False:
            return A_FALSE
        if isinstance(e.value, (int, float)):
            return A_ZERO if e.value == 0 else A_NUM_NZ
        if isinstance(e.value, str):
            return A_NONEMPTY if e.value else A_EMPTY
    if isinstance(e, (ast.List, ast.Tuple, ast.Dict, ast.Set)):
        n = len(e.elts) if not isinstance(e, ast.Dict) else len(e.keys)
        return A_NONEMPTY if n else A_EMPTY
    if isinstance(e, ast.Call) and isinstance(e.func, ast.Name) and e.func.id in ("list", "dict", "set", "tuple") and not e.args:
        return A_EMPTY
    if isinstance(e, ast.Name) and e.id in state:
        return state[e.id]
    if isinstance(e, (ast.BinOp, ast.Call, ast.Subscript)) or isinstance(e, ast.Name):
        # arithmetic on offsets / lengths: a number that may be zero; anything else: unknown
        if isinstance(e, ast.BinOp) or (isinstance(e, ast.Call) and isinstance(e.func, ast.Name) and e.func.id == "len"):
            return A_NUM
        if isinstance(e, ast.Name):
            return A_NUM if e.id in ("offset", "index", "pos", "i") else A_UNK
        return A_UNK
    return A_UNK


def _outcomes(test, state):
    """Possible truth values of *test* given the abstract marker state and debug == 0."""
    v = _value_when_debug_zero(test)
    if v is not None:
        return (v,)
    if isinstance(test, ast.Name) and test.id in state:
        return _TRUTH[state[test.id]]
    if isinstance(test, ast.UnaryOp) and isinstance(test.op, ast.Not):
        return tuple(sorted({not x for x in _outcomes(test.operand, state)}))
    if isinstance(test, ast.BoolOp):
        outs = [_outcomes(v_, state) for v_ in test.values]
        if isinstance(test.op, ast.And):
            if any(o == (False,) for o in outs):
                return (False,)
            if all(o == (True,) for o in outs):
                return (True,)
        else:
            if any(o == (True,) for o in outs):
                return (True,)
            if all(o == (False,) for o in outs):
                return (False,)
        return (True, False)
    if isinstance(test, ast.Compare) and len(test.ops) == 1:
        L, op, R = test.left, test.ops[0], test.comparators[0]
        if isinstance(L, ast.Name) and L.id in state:
            a = state[L.id]
            if isinstance(op, (ast.Is, ast.IsNot)) and isinstance(R, ast.Constant) and R.value is None:
                if a == A_NONE:
                    res = True
                elif a == A_UNK:
                    return (True, False)
                else:
                    res = False
                return (res,) if isinstance(op, ast.Is) else (not res,)
            if isinstance(op, (ast.Eq, ast.NotEq)) and isinstance(R, (ast.List, ast.Tuple)) and not R.elts:
                if a in (A_EMPTY,):
                    res = True
                elif a in (A_NONEMPTY,):
                    res = False
                else:
                    return (True, False)
                return (res,) if isinstance(op, ast.Eq) else (not res,)
        if isinstance(L, ast.Call) and text(L.func) == "len" and L.args and isinstance(L.args[0], ast.Name) and L.args[0].id in state \
                and isinstance(R, ast.Constant) and R.value == 0:
            a = state[L.args[0].id]
            if a in (A_EMPTY, A_NONEMPTY):
                ne = a == A_NONEMPTY
                if isinstance(op, (ast.Gt, ast.NotEq)):
                    return (ne,)
                if isinstance(op, ast.Eq):
                    return (not ne,)
    return (True, False)


def _always_raises_in_normal_mode(prog, fn) -> bool:
    """The helper cannot reach its normal exit when debug == 0 (every such path raises)."""
    g = cfg_of(fn)
    blocked = {}
    for node in g.nodes:
        if node.kind == "test":
            v = _value_when_debug_zero(node.ast)
            if v is not None:
                blocked[node.id] = "F" if v else "T"
    has_raise = any(isinstance(n, ast.Raise) and "CParsingError" in text(n) for n in walk_fn(fn.node))
    reach = g.reachable(g.entry, follow_exc=False, edge_filter=lambda n, m, lab: not (n in blocked and lab == blocked[n]))
    return has_raise and g.exit not in reach


def unrecognised_is_fatal(prog, rn):
    from ..calls import callgraph
    cg = callgraph(prog)
    g = cfg_of(rn)
    # pop_tokens calls and the match tests (first component of run_rules' result)
    pops = [n for n in walk_fn(rn.node) if isinstance(n, ast.Call) and isinstance(n.func, ast.Attribute) and n.func.attr == "pop_tokens"]
    if not pops:
        return False, "no pop_tokens call in Registry.run", {}
    match_vars = set()
    for n in walk_fn(rn.node):
        if isinstance(n, ast.Assign) and isinstance(n.targets[0], ast.Tuple) and text(n.value).startswith("self.run_rules") \
                and isinstance(n.targets[0].elts[0], ast.Name):
            match_vars.add(n.targets[0].elts[0].id)
    match_edges = {}
    for node in g.nodes:
        if node.kind == "test":
            t = node.ast
            if isinstance(t, ast.Name) and t.id in match_vars:
                match_edges[node.id] = "T"
            elif isinstance(t, ast.Compare) and isinstance(t.left, ast.Name) and t.left.id in match_vars \
                    and isinstance(t.ops[0], ast.Is) and text(t.comparators[0]) == "True":
                match_edges[node.id] = "T"
    loops = [n for n in walk_fn(rn.node) if isinstance(n, ast.While) and "tokens" in text(n.test)]
    if len(loops) != 1:
        return False, "main loop of Registry.run not found", {}
    loop_test = g.nid(loops[0].test)
    blind = []
    for p in pops:
        pid = _cfg_node_of_expr(g, p)
        # reachable from the loop test without traversing a "matched" edge?
        if g.can_reach(loop_test, pid, follow_exc=False,
                       edge_filter=lambda n, m, lab: not (n in match_edges and lab == match_edges[n])):
            blind.append(pid)
    if not blind:
        return False, "no blind pop_tokens found (every consumption follows a match?) - cannot locate the unrecognised path", {}
    # marker variables: locals assigned in Registry.run from constants / displays / offsets and tested later
    tested = set()
    for node in g.nodes:
        if node.kind == "test":
            for x in ast.walk(node.ast):
                if isinstance(x, ast.Name):
                    tested.add(x.id)
    markers = set()
    for n in walk_fn(rn.node):
        if isinstance(n, ast.Assign) and len(n.targets) == 1 and isinstance(n.targets[0], ast.Name) and n.targets[0].id in tested \
                and n.targets[0].id not in match_vars:
            markers.add(n.targets[0].id)
    raising_helpers = set()
    for c in cg.calls_of.get(rn.key, []):
        for t in c.targets:
            if t.key != rn.key and t.cls is not None and t.cls.name == "Registry" and _always_raises_in_normal_mode(prog, t):
                raising_helpers.add(id(c.node))

    def transfer(node, state):
        """-> (new state dict, terminated?)"""
        a = node.ast
        st = dict(state)
        if node.kind == "stmt" and a is not None:
            if isinstance(a, ast.Raise):
                return st, True
            for c in ast.walk(a):
                if isinstance(c, ast.Call) and id(c) in raising_helpers:
                    return st, True
            if isinstance(a, ast.Assign):
                for t in a.targets:
                    if isinstance(t, ast.Name) and t.id in markers:
                        st[t.id] = _abs_value(a.value, state)
            elif isinstance(a, ast.AugAssign) and isinstance(a.target, ast.Name) and a.target.id in markers:
                st[a.target.id] = A_NUM if st.get(a.target.id) in (A_NUM, A_NUM_NZ, A_ZERO) else A_UNK
            elif isinstance(a, ast.Expr) and isinstance(a.value, ast.Call) and isinstance(a.value.func, ast.Attribute) \
                    and isinstance(a.value.func.value, ast.Name) and a.value.func.value.id in markers:
                m = a.value.func
                if m.attr in ("append", "extend", "add", "insert"):
                    st[m.value.id] = A_NONEMPTY
                elif m.attr == "clear":
                    st[m.value.id] = A_EMPTY
        if node.id in blind:
            st["<pending>"] = A_TRUE
        return st, False

    start = {m: A_UNK for m in markers}
    start["<pending>"] = A_FALSE
    seen = set()
    work = [(g.entry, tuple(sorted(start.items())))]
    witness = None
    n_states = 0
    while work:
        nid, st_t = work.pop()
        if (nid, st_t) in seen:
            continue
        seen.add((nid, st_t))
        n_states += 1
        state = dict(st_t)
        node = g.nodes[nid]
        if nid == g.exit:
            if state.get("<pending>") == A_TRUE and witness is None:
                witness = {k: v for k, v in state.items() if k != "<pending>"}
            continue
        new, dead = transfer(node, state)
        if dead:
            continue
        outs = None
        if node.kind == "test":
            outs = _outcomes(node.ast, new)
        for m, lab in g.succ[nid]:
            if lab == "exc":
                continue
            if outs is not None and lab in ("T", "F") and (lab == "T") not in outs:
                continue
            work.append((m, tuple(sorted(new.items()))))
    stats = {"abstract_states": n_states, "blind_pops": len(blind), "markers": sorted(markers),
             "raising_helpers": len(raising_helpers)}
    if witness is not None:
        return False, f"reachable with marker values {witness} (e.g. a truthiness test on an offset that can be 0)", stats
    return True, "", stats


# ------------------------------------------------------------------------------------------------
# R-7.4: a list must not shrink / be reordered while a `for` iterates it
SHRINKERS = {"remove", "pop", "clear", "insert", "sort", "reverse"}
DICT_SHRINKERS = {"pop", "popitem", "clear"}
VIEW_WRAPPERS = {"enumerate", "reversed", "iter", "zip"}           # iterate the argument itself, not a copy
DICT_VIEWS = {"items", "keys", "values"}


def _iterated_containers(fn, it):
    """[(canonical text, is_dict_view)] of the containers a `for ... in <it>` walks *in place* (copies yield nothing)."""
    from ..dataflow import expand_aliases, is_path
    if isinstance(it, ast.Call) and isinstance(it.func, ast.Name) and it.func.id in VIEW_WRAPPERS and not it.keywords:
        out = []
        for a in it.args:
            out += _iterated_containers(fn, a)
        return out
    if isinstance(it, ast.Call) and isinstance(it.func, ast.Attribute) and it.func.attr in DICT_VIEWS and not it.args:
        base = expand_aliases(fn, it.func.value)
        return [(text(base, 400), True)] if is_path(base) else []
    e = expand_aliases(fn, it)
    if is_path(e) and not (isinstance(e, ast.Subscript) and isinstance(e.slice, ast.Slice)):
        return [(text(e, 400), False)]
    return []                       # L[:], L[::-1], list(L), sorted(L), tuple(L), L.copy(), a fresh call result ...


def _container_mutations(fn, loop, cont, is_dict):
    """Statements / calls in the body of *loop* that shrink or reorder the container spelled *cont*."""
    from ..dataflow import expand_aliases
    out = []

    def same(e):
        return text(expand_aliases(fn, e), 400) == cont

    stack = list(loop.body)
    while stack:
        n = stack.pop()
        if isinstance(n, (ast.FunctionDef, ast.AsyncFunctionDef, ast.ClassDef, ast.Lambda)):
            continue
        stack.extend(ast.iter_child_nodes(n))
        if isinstance(n, ast.Call) and isinstance(n.func, ast.Attribute) \
                and n.func.attr in (DICT_SHRINKERS if is_dict else SHRINKERS) and same(n.func.value):
            out.append((n, f".{n.func.attr}()"))
        elif isinstance(n, ast.Delete):
            for t in n.targets:
                if isinstance(t, ast.Subscript) and same(t.value):
                    out.append((n, "del ...[...]"))
        elif isinstance(n, (ast.Assign, ast.AugAssign)) and not is_dict:
            tg = n.targets if isinstance(n, ast.Assign) else [n.target]
            for t in tg:
                for sub in ([t] + (list(t.elts) if isinstance(t, (ast.Tuple, ast.List)) else [])):
                    if isinstance(sub, ast.Subscript) and isinstance(sub.slice, ast.Slice) and same(sub.value):
                        out.append((n, "slice assignment"))
            if isinstance(n, ast.AugAssign) and not isinstance(n.op, ast.Add) and same(n.target):
                out.append((n, "in-place operator"))
    return out


def rule_no_shrink_while_iterating(run, prog):
    from ..dataflow import cfg_node_of
    run.rule("R-7.4", "whole program, after inlining: no `for x in L` (L a name / attribute path walked in place -- also "
             "through enumerate / reversed / zip / dict views; not a copy such as L[:], list(L), sorted(L)) has a body that "
             "shrinks or reorders L (remove / pop / clear / insert / sort / reverse / del L[..] / slice assignment) on a path "
             "that comes back to the loop header: the iteration would skip or repeat elements (a file never analysed but "
             "reported OK, a statement never checked).  Appending is the work-list idiom and is allowed; so is a mutation "
             "after which every path leaves the loop", floor=17)
    n_loops = 0
    n_all = 0
    for fn in prog.fns:
        loops = [n for n in walk_fn(fn.node) if isinstance(n, (ast.For, ast.AsyncFor))]
        n_all += len(loops)
        if not loops:
            continue
        g = cfg_of(fn)
        for lp in sorted(loops, key=lambda n: (n.lineno, n.col_offset)):
            conts = _iterated_containers(fn, lp.iter)
            if not conts:
                continue
            n_loops += 1
            head = g.nid(lp)
            bad = []
            # statements that end the process: nothing after them comes back to the loop
            inside = {id(x) for st_ in lp.body for x in ast.walk(st_)}
            body_nodes = {n.id for n in g.nodes if n.ast is not None and id(n.ast) in inside}
            stops = {n.id for n in g.nodes if n.kind == "stmt" and isinstance(n.ast, ast.Expr) and isinstance(n.ast.value, ast.Call)
                     and text(n.ast.value.func) in ("sys.exit", "exit", "quit", "os._exit")}
            for cont, is_dict in conts:
                for node, how in _container_mutations(fn, lp, cont, is_dict):
                    at = cfg_node_of(g, node)
                    if at is None or head is None or at == head or g.can_reach(
                            at, head, avoid=stops, follow_exc=False, edge_filter=lambda a_, b_, lab: b_ == head or b_ in body_nodes):
                        bad.append((node, how, cont))
            run.ob("R-7.4", f"{fn.key}::for[{text(lp.iter, 60)}]", not bad,
                   "the loop iterates `" + (bad[0][2] if bad else "") + "` in place and its body changes it ("
                   + ", ".join(f"{how} at line {nd.lineno}: `{text(nd, 50)}`" for nd, how, _ in bad[:3])
                   + ") before the next iteration: the element that slides into the freed position is skipped (or elements "
                     "are visited twice)", bad[0][0] if bad else lp, mutations=len(bad))
    run.note(f"R-7.4: {n_all} for-loops examined, {n_loops} of them walk a named container in place")
    run.require(n_all >= 30 and n_loops >= 17, f"only {n_all} for-loops / {n_loops} in-place ones found in the whole program "
                                               f"(floors 30 / 17)")


def eval_unrecognised_fatal(prog, rn):
    """Registry.run interpreted (minieval; Context.peek_token / check_token / pop_tokens from the tree, a stub run_rules that
    recognises `REC` lines and empty lines only) on every file of <= 4 lines over {recognised, unrecognised}, with and without
    a final newline, debug level 0: CParsingError must come out iff some line is unrecognised.  -> [problems]; raises
    minieval.Unsupported when run() is outside the interpreter's subset."""
    import collections
    import itertools
    from ..minieval import Obj, Raised, Unsupported
    from ..stubrun import RUNTIME_ERRORS, StubContext, evaluator_for, tok
    problems = []
    n_runs = 0
    for n in range(1, 5):
        for kinds in itertools.product("RU", repeat=n):
            for final_nl in (True, False):
                toks = []
                for i, k in enumerate(kinds):
                    toks.append(tok("REC" if k == "R" else "UNK", i + 1, 1, "x"))
                    if i < n - 1 or final_nl:
                        toks.append(tok("NEWLINE", i + 1, 2))
                sc = StubContext(prog, toks, history=[])
                ev = evaluator_for(prog, "Registry", sc, max_steps=60000)
                ctx = sc.obj
                prim = Obj("PrimaryClass", name="IsStub", scope=())

                def run_rules(context, rule, _ctx=ctx):
                    if isinstance(rule, Obj) and rule._cls == "PrimaryClass" and _ctx.tokens:
                        t0 = _ctx.tokens[0]
                        if t0.type == "REC":
                            return (True, 2 if len(_ctx.tokens) > 1 and _ctx.tokens[1].type == "NEWLINE" else 1)
                        if t0.type == "NEWLINE":
                            return (True, 1)
                    return (False, 0)
                ev.natives[("Registry", "run_rules")] = run_rules
                ev.natives[("Context", "update")] = lambda *a: None
                ev.globals["rules"] = Obj("Rules", primaries=[prim], checks=[], all=[])
                me = Obj("Registry", dependencies=collections.defaultdict(list))
                raised = None
                try:
                    ev.invoke(prog.method("Registry", "run").node, [me, ctx], {})
                except Raised as e:
                    raised = e.name
                except Unsupported as e:
                    if "step budget" in str(e):
                        problems.append(f"Registry.run does not terminate on a file of lines {''.join(kinds)}")
                        continue
                    raise
                except RUNTIME_ERRORS as e:
                    raise Unsupported(f"Registry.run fails on the stub file: {type(e).__name__}: {e}")
                n_runs += 1
                want = "U" in kinds
                desc = f"lines {'/'.join('unrecognised' if k == 'U' else 'recognised' for k in kinds)}" + \
                       ("" if final_nl else " (no final newline)")
                if want and raised != "CParsingError":
                    problems.append(f"{desc}: the run ends normally" + (f" (raises {raised})" if raised else "")
                                    + ", expected the fatal CParsingError")
                elif not want and raised is not None:
                    problems.append(f"{desc}: raises {raised}")
                if ctx.tokens and raised is None:
                    problems.append(f"{desc}: {len(ctx.tokens)} token(s) are left unconsumed")
    return sorted(set(problems), key=problems.index), n_runs


def _ctx_receiver(fn, e) -> bool:
    """Does *e* denote the context (also through a local alias: `c = context`; `ctx = self.context`)?"""
    from ..dataflow import expand_aliases
    t = text(expand_aliases(fn, e))
    if t in ("context", "self.context", "ctx"):
        return True
    return t == "self" and fn.cls is not None and fn.cls.name == "Context"


def check(run, prog):
    cg = callgraph(prog)
    # ---- R-7.1 ownership -----------------------------------------------------------------
    run.rule("R-7.1", "OWN: Context.tokens is assigned only in Context.__init__ and Context.pop_tokens; pop_tokens is called "
             "only from Registry.run; no rule mutates the token list in place or rebinds it; tkn_scope is assigned only "
             "by the registry and Context.__init__", floor=4)
    writers = []
    mutators = []
    scope_writers = []
    for fn in prog.fns:
        for n in walk_fn(fn.node):
            tgts = []
            if isinstance(n, ast.Assign):
                tgts = n.targets
            elif isinstance(n, (ast.AugAssign, ast.AnnAssign)):
                tgts = [n.target]
            elif isinstance(n, ast.Delete):
                tgts = n.targets
            for t in tgts:
                for sub in ([t] + (list(t.elts) if isinstance(t, (ast.Tuple, ast.List)) else [])):
                    s = text(sub)
                    if isinstance(sub, ast.Attribute) and sub.attr == "tokens" and _ctx_receiver(fn, sub.value):
                        writers.append((fn, n))
                    if isinstance(sub, ast.Subscript) and isinstance(sub.value, ast.Attribute) and sub.value.attr == "tokens":
                        mutators.append((fn, n))
                    if isinstance(sub, ast.Attribute) and sub.attr == "tkn_scope":
                        scope_writers.append((fn, n))
            if isinstance(n, ast.Call) and isinstance(n.func, ast.Attribute) and n.func.attr in LIST_MUTATORS \
                    and isinstance(n.func.value, ast.Attribute) and n.func.value.attr == "tokens" \
                    and _ctx_receiver(fn, n.func.value.value):
                mutators.append((fn, n))
    allowed_w = {"context.py::Context.__init__", "context.py::Context.pop_tokens"}
    bad = [(f, n) for f, n in writers if f.key not in allowed_w]
    run.ob("R-7.1", "context.py::Context::tokens-writers", len(writers) >= 2 and not bad,
           "context.tokens is rebound outside Context.__init__/pop_tokens: " + ", ".join(f"{f.key}:{n.lineno}" for f, n in bad),
           bad[0][1] if bad else None, writers=sorted({f.key for f, _ in writers}))
    run.ob("R-7.1", "context.py::Context::tokens-in-place", not mutators,
           "the token list is mutated in place: " + ", ".join(f"{f.key}:{n.lineno}" for f, n in mutators[:4]),
           mutators[0][1] if mutators else None)
    sites = cg.sites.get("context.py::Context.pop_tokens", [])
    callers = sorted({c.caller.key for c in sites})
    run.ob("R-7.1", "context.py::Context.pop_tokens::callers", bool(sites) and set(callers) <= {"registry.py::Registry.run"},
           f"pop_tokens is called from {callers}: a rule consumes tokens behind the registry's back",
           next((c.node for c in sites if c.caller.key != "registry.py::Registry.run"), None), callers=callers)
    allowed_s = {"context.py::Context.__init__", "registry.py::Registry.run", "registry.py::Registry.run_rules"}
    bad = [(f, n) for f, n in scope_writers if f.key not in allowed_s]
    run.ob("R-7.1", "context.py::Context::tkn_scope-writers", len(scope_writers) >= 3 and not bad,
           "context.tkn_scope is assigned outside the registry: " + ", ".join(f"{f.key}:{n.lineno}" for f, n in bad),
           bad[0][1] if bad else None)

    # ---- R-7.2 unrecognised => fatal ---------------------------------------------------------
    run.rule("R-7.2", "Registry.run interpreted by the analyser on every stub file of <= 4 lines over {recognised, "
             "unrecognised} x {final newline or not}, debug level 0: the fatal CParsingError comes out iff a line is "
             "unrecognised, every token is consumed.  Fallback when run() is outside the interpreter's subset: typestate by "
             "abstract interpretation of its CFG: after a `blind` "
             "pop_tokens (one that can be reached without a primary having matched in that iteration) no path reaches the "
             "normal end of the function without raising CParsingError; the local marker variables that remember the "
             "unrecognised tokens are tracked with the abstract values None / empty / non-empty / number-possibly-zero",
             floor=1)
    rn = prog.fn("registry.py::Registry.run")
    from ..minieval import Unsupported
    try:
        probs, n_runs = eval_unrecognised_fatal(prog, rn)
        ok, why, stats = not probs, "; ".join(probs[:3]), {"decided_by": "interpretation of Registry.run on stub files", "files": n_runs}
    except Unsupported as ex:
        run.note(f"R-7.2: Registry.run not interpreted on stub files ({ex}); abstract interpretation of its CFG used")
        ok, why, stats = unrecognised_is_fatal(prog, rn)
    run.ob("R-7.2", f"{rn.key}::unrecognised->fatal", ok,
           "text that no primary recognises can be consumed and the run still reaches the normal end of Registry.run in "
           f"normal (debug == 0) mode: {why}", rn.node, **stats)

    # ---- R-7.3 not swallowed --------------------------------------------------------------------
    run.rule("R-7.3", "EXC: no try below main catches CParsingError (or a base) raised by the registry without re-raising",
             floor=1)
    n_try = 0
    for fn in prog.fns:
        if fn.mod.rel == "__main__.py":
            continue
        for n in walk_fn(fn.node):
            if isinstance(n, ast.Try):
                for h in n.handlers:
                    names = handler_names(h)
                    if any(nm in ("CParsingError", "NorminetteError", "Exception", "BaseException") for nm in names):
                        n_try += 1
                        reraises = any(isinstance(x, ast.Raise) for x in ast.walk(h))
                        run.ob("R-7.3", f"{fn.key}::handler[{','.join(names)}]", reraises,
                               "fatal parse errors are swallowed below main", h)
    main = prog.fn("__main__.py::main")
    calls = [c for c in cg.calls_of.get(main.key, []) if any(t.key == "registry.py::Registry.run" for t in c.targets)]
    ok = len(calls) == 1 and caught_at(prog, calls[0].node, "CParsingError", main.node)
    run.ob("R-7.3", f"{main.key}::registry.run-in-try", ok, "registry.run is not called under main's fatal-error handler",
           calls[0].node if calls else main.node)

    rule_no_shrink_while_iterating(run, prog)
    from .c07_directive_line import rule_directive_line
    rule_directive_line(run, prog)           # R-7.5
    from .c05_file_read import rule_lossless_read
    rule_lossless_read(run, prog, "R-7.6")
    from .snippet_rules import rule_statement_extent
    rule_statement_extent(run, prog)         # R-7.7
    from .snippet_rules import rule_unrecognisable_fragments
    rule_unrecognisable_fragments(run, prog)  # R-7.8
    # which scope a `{` opens is read off the statement record: a record that forgets (a window, a cap) loses the owner
    from .c14_history import rule_history_append_only
    rule_history_append_only(run, prog, "R-7.9")
