"""C07 — every statement is examined exactly once; nothing is skipped silently
(partial: ownership of the token stream and the fatal clause).  DESIGN.md §4.7."""
from __future__ import annotations

import ast

from ..calls import callgraph
from ..cfg import cfg_of
from ..model import ancestors, text, walk_fn
from .c05 import caught_at, handler_names, _cfg_node_of_expr

LIST_MUTATORS = {"pop", "insert", "remove", "clear", "sort", "reverse", "append", "extend", "__setitem__", "__delitem__"}


def _value_when_debug_zero(test):
    """If *test* is a function of context.debug and constants only, its truth value for debug == 0."""
    class Sub(ast.NodeTransformer):
        ok = True

        def visit_Attribute(self, node):
            if text(node) in ("context.debug", "self.debug", "self.context.debug"):
                return ast.copy_location(ast.Constant(0), node)
            self.ok = False
            return node

        def visit_Name(self, node):
            self.ok = False
            return node

        def visit_Call(self, node):
            self.ok = False
            return node

    import copy
    sub = Sub()
    e = sub.visit(copy.deepcopy(test))
    if not sub.ok:
        return None
    if not any(isinstance(n, ast.Constant) for n in ast.walk(e)):
        return None
    allowed = (ast.Compare, ast.BoolOp, ast.UnaryOp, ast.Constant, ast.And, ast.Or, ast.Not, ast.Eq, ast.NotEq, ast.Lt,
               ast.LtE, ast.Gt, ast.GtE, ast.Is, ast.IsNot, ast.Load, ast.USub)
    if not all(isinstance(n, allowed) for n in ast.walk(e)):
        return None
    try:
        return bool(eval(compile(ast.fix_missing_locations(ast.Expression(e)), "<debug-test>", "eval"), {"__builtins__": {}}))
    except Exception:
        return None


def check(run, prog):
    cg = callgraph(prog)
    # ---- R-7.1 ownership -----------------------------------------------------------------
    run.rule("R-7.1", "OWN: Context.tokens is assigned only in Context.__init__ and Context.pop_tokens; pop_tokens is called "
             "only from Registry.run; no rule mutates the token list in place or rebinds it; tkn_scope is assigned only "
             "by the registry and Context.__init__", floor=4)
    writers = []
    mutators = []
    scope_writers = []
    for fn in prog.fns:
        for n in walk_fn(fn.node):
            tgts = []
            if isinstance(n, ast.Assign):
                tgts = n.targets
            elif isinstance(n, (ast.AugAssign, ast.AnnAssign)):
                tgts = [n.target]
            elif isinstance(n, ast.Delete):
                tgts = n.targets
            for t in tgts:
                for sub in ([t] + (list(t.elts) if isinstance(t, (ast.Tuple, ast.List)) else [])):
                    s = text(sub)
                    if isinstance(sub, ast.Attribute) and sub.attr == "tokens" and text(sub.value) in ("self", "context", "self.context", "ctx"):
                        writers.append((fn, n))
                    if isinstance(sub, ast.Subscript) and isinstance(sub.value, ast.Attribute) and sub.value.attr == "tokens":
                        mutators.append((fn, n))
                    if isinstance(sub, ast.Attribute) and sub.attr == "tkn_scope":
                        scope_writers.append((fn, n))
            if isinstance(n, ast.Call) and isinstance(n.func, ast.Attribute) and n.func.attr in LIST_MUTATORS \
                    and isinstance(n.func.value, ast.Attribute) and n.func.value.attr == "tokens" \
                    and text(n.func.value.value) in ("self", "context", "self.context", "ctx"):
                mutators.append((fn, n))
    allowed_w = {"context.py::Context.__init__", "context.py::Context.pop_tokens"}
    bad = [(f, n) for f, n in writers if f.key not in allowed_w]
    run.ob("R-7.1", "context.py::Context::tokens-writers", len(writers) >= 2 and not bad,
           "context.tokens is rebound outside Context.__init__/pop_tokens: " + ", ".join(f"{f.key}:{n.lineno}" for f, n in bad),
           bad[0][1] if bad else None, writers=sorted({f.key for f, _ in writers}))
    run.ob("R-7.1", "context.py::Context::tokens-in-place", not mutators,
           "the token list is mutated in place: " + ", ".join(f"{f.key}:{n.lineno}" for f, n in mutators[:4]),
           mutators[0][1] if mutators else None)
    sites = cg.sites.get("context.py::Context.pop_tokens", [])
    callers = sorted({c.caller.key for c in sites})
    run.ob("R-7.1", "context.py::Context.pop_tokens::callers", bool(sites) and set(callers) <= {"registry.py::Registry.run"},
           f"pop_tokens is called from {callers}: a rule consumes tokens behind the registry's back",
           next((c.node for c in sites if c.caller.key != "registry.py::Registry.run"), None), callers=callers)
    allowed_s = {"context.py::Context.__init__", "registry.py::Registry.run", "registry.py::Registry.run_rules"}
    bad = [(f, n) for f, n in scope_writers if f.key not in allowed_s]
    run.ob("R-7.1", "context.py::Context::tkn_scope-writers", len(scope_writers) >= 3 and not bad,
           "context.tkn_scope is assigned outside the registry: " + ", ".join(f"{f.key}:{n.lineno}" for f, n in bad),
           bad[0][1] if bad else None)

    # ---- R-7.2 unrecognised => fatal ---------------------------------------------------------
    run.rule("R-7.2", "MPT/typestate: from every append to the list of unrecognised tokens in Registry.run, every path to "
             "the function's normal exit passes through `raise CParsingError` unless it passed a test that the debug level "
             "is non-zero", floor=2)
    rn = prog.fn("registry.py::Registry.run")
    g = cfg_of(rn)
    appends = [n for n in walk_fn(rn.node) if isinstance(n, ast.Call) and isinstance(n.func, ast.Attribute)
               and n.func.attr == "append" and isinstance(n.func.value, ast.Name)]
    # the list that collects context.tokens[0]
    appends = [a for a in appends if a.args and "tokens[0]" in text(a.args[0])]
    run.require(len(appends) >= 1, "anchor vanished: unrecognised-token list append in Registry.run")
    lst = appends[0].func.value.id
    raises = {g.nid(n) for n in walk_fn(rn.node) if isinstance(n, ast.Raise) and "CParsingError" in text(n)}
    raises.discard(None)
    # debug tests: edges on which context.debug is known non-zero
    debug_edges = {}
    for node in g.nodes:
        if node.kind == "test":
            v = _value_when_debug_zero(node.ast)
            if v is not None:
                debug_edges[node.id] = "F" if v else "T"     # the other outcome needs a non-zero debug level
    # resets of the list (unrecognized_tkns = []) end the obligation; they must themselves be debug-guarded
    resets = {g.nid(n) for n in walk_fn(rn.node) if isinstance(n, ast.Assign) and any(
        isinstance(t, ast.Name) and t.id == lst for t in n.targets) and isinstance(n.value, ast.List) and not n.value.elts}
    resets.discard(None)
    init_resets = {r for r in resets if not any(isinstance(a, (ast.While, ast.For, ast.If)) for a in ancestors(g.nodes[r].ast))}
    loop_resets = resets - init_resets

    # tests on the emptiness of the list: while the list is non-empty (after an append, no reset on the
    # path) only the "non-empty" outcome is feasible
    nonempty_edge = {}
    for node in g.nodes:
        if node.kind == "test":
            t = text(node.ast)
            if t in (f"{lst} != []", lst, f"len({lst}) > 0", f"len({lst})", f"len({lst}) != 0", f"{lst} != list()"):
                nonempty_edge[node.id] = "T"
            elif t in (f"{lst} == []", f"not {lst}", f"len({lst}) == 0", f"not len({lst})"):
                nonempty_edge[node.id] = "F"

    def normal_edge(n, m, lab):
        if lab == "exc":
            return False
        if n in nonempty_edge and lab != nonempty_edge[n]:
            return False          # infeasible: the list is known to be non-empty on this path
        if n in debug_edges and lab == debug_edges[n]:
            return False          # this way the debug level is non-zero: the property does not compare those runs
        return True

    for a in appends:
        aid = _cfg_node_of_expr(g, a)
        escapes = g.can_reach(aid, g.exit, avoid=raises | loop_resets, follow_exc=False, edge_filter=normal_edge)
        run.ob("R-7.2", f"{rn.key}::unrecognised->fatal", not escapes and bool(raises),
               "a path from recording an unrecognised token to the normal end of Registry.run avoids `raise CParsingError` "
               "in normal (debug == 0) mode: the text is dropped while the file still gets a verdict", a)
    for r in sorted(loop_resets):
        # a reset inside the loop is only reachable through a debug edge or after the raise
        n = g.nodes[r]
        reach_plain = g.can_reach(_cfg_node_of_expr(g, appends[0]), r, avoid=raises, follow_exc=False, edge_filter=normal_edge)
        run.ob("R-7.2", f"{rn.key}::reset-guarded", not reach_plain,
               "the list of unrecognised tokens is emptied in normal mode without the fatal error", n.ast)

    # ---- R-7.3 not swallowed --------------------------------------------------------------------
    run.rule("R-7.3", "EXC: no try below main catches CParsingError (or a base) raised by the registry without re-raising",
             floor=1)
    n_try = 0
    for fn in prog.fns:
        if fn.mod.rel == "__main__.py":
            continue
        for n in walk_fn(fn.node):
            if isinstance(n, ast.Try):
                for h in n.handlers:
                    names = handler_names(h)
                    if any(nm in ("CParsingError", "NorminetteError", "Exception", "BaseException") for nm in names):
                        n_try += 1
                        reraises = any(isinstance(x, ast.Raise) for x in ast.walk(h))
                        run.ob("R-7.3", f"{fn.key}::handler[{','.join(names)}]", reraises,
                               "fatal parse errors are swallowed below main", h)
    main = prog.fn("__main__.py::main")
    calls = [c for c in cg.calls_of.get(main.key, []) if any(t.key == "registry.py::Registry.run" for t in c.targets)]
    ok = len(calls) == 1 and caught_at(prog, calls[0].node, "CParsingError", main.node)
    run.ob("R-7.3", f"{main.key}::registry.run-in-try", ok, "registry.run is not called under main's fatal-error handler",
           calls[0].node if calls else main.node)
