"""R-10.11 (property C10): the round-trip law itself, on an exhaustive small domain.

Lexer.get_next_token is interpreted (sa/lexsim.py, DESIGN §3.4b), call after call, on every string of length <= 3 (thorough tier: 4) over a
reduced lexical alphabet and on every string of length <= 3 (4) over the characters the normalisations are made of (backslash,
newline, blank, the trigraph / digraph characters, a quote and a comment opener).  For each call, the raw text the cursor moved over,
normalised by an independent scanner (trigraphs, then digraphs replaced left to right; a backslash -- written either way --
immediately followed by a newline removed), must be: one character per BAD_LEXEME recorded by that call, followed by the text of
the token returned (its value, or the spelling its kind stands for in the tables; blanks of a block comment compared up to their
width, which is R-3.7's business).  Nothing else may disappear or appear."""
from __future__ import annotations

import itertools

from ..fold import Unknown, fold_name
from ..lexsim import LexerSim
from ..minieval import Unsupported
from ..model import AnalysisError, Undecided

ALPHABET = "a1 \t\n\\\"'/*+;"
NORMALISING = "\\\n ?/<:%a\"*"


def _normalise(raw: str, tri, di) -> str:
    out, i = [], 0
    while i < len(raw):
        if raw[i:i + 3] in tri:
            ch, w = tri[raw[i:i + 3]], 3
        elif raw[i:i + 2] in di:
            ch, w = di[raw[i:i + 2]], 2
        else:
            ch, w = raw[i], 1
        if ch == "\\" and raw[i + w:i + w + 1] == "\n":
            i += w + 1
            continue
        out.append(ch)
        i += w
    return "".join(out)


def rule_round_trip(run, prog, rid="R-10.11"):
    run.rule(rid, "round trip: get_next_token, interpreted call after call on every string of length <= 3 (thorough: 4) over {letter, digit, blank, "
             "tab, newline, backslash, both quotes, slash, star} and of length <= 3 (4) over the characters of the "
             "normalisations, moves the cursor over raw text whose independent normalisation (trigraphs / digraphs replaced, "
             "backslash-newline removed) is one character per BAD_LEXEME of that call followed by the text of the token returned",
             floor=1)
    gnt = prog.method("Lexer", "get_next_token")
    run.require(gnt is not None, "anchor vanished: Lexer.get_next_token")
    dm = prog.mod("lexer/dictionary.py")
    try:
        T = {t: fold_name(t, dm) for t in ("keywords", "operators", "brackets", "trigraphs", "digraphs")}
    except Unknown as e:
        raise AnalysisError(f"lexer tables do not fold: {e}")
    spelling = {"SPACE": " ", "TAB": "\t", "NEWLINE": "\n"}
    for tn in ("keywords", "operators", "brackets"):
        for k, kind in T[tn].items():
            spelling.setdefault(kind, k)
    tri, di = dict(T["trigraphs"]), dict(T["digraphs"])
    domain = []
    thorough = run.tier == "thorough"
    for k in range(1, 5 if thorough else 4):
        domain += ["".join(c) for c in itertools.product(ALPHABET if thorough else ALPHABET[:-2], repeat=k)]
    if thorough:
        for k in range(1, 5):
            domain += ["".join(c) for c in itertools.product(NORMALISING, repeat=k)]
    else:
        for k in range(1, 4):
            domain += ["".join(c) for c in itertools.product("\\\n ?/<:a\"", repeat=k)]
    # what may stand between a backslash and the end of the line, in every kind of token and between tokens
    for ctx in ("", "a", "//", "/*", '"', "'", "1"):
        for bs in ("\\", "??/"):
            for mid in ("", " ", "\t", "  ", "a"):
                domain.append(ctx + bs + mid + "\nb")
    # an escape whose second character is written as a digraph / trigraph (the whole spelling belongs to the escape)
    for sp in list(tri) + list(di):
        domain += ['"\\' + sp + '" x', "'\\" + sp + "'"]
    # the characters no table knows, as the first character of the file (a byte order mark, a form feed, a control character ...):
    # reported, never skipped
    for first in "\ufeff\x0c\x0b\r\x00\x1a\u00a0\u2028@$`":
        domain += [first, first + "a", first + first + "\n", " " + first]
    bad, n, unsupported, known = None, 0, None, 0
    for src in dict.fromkeys(domain):
        if "\\\\\n" in src or "\\??/\n" in src or "??/??/\n" in src or "??/\\\n" in src:
            continue                              # two backslashes and a newline: an escaped backslash, or a splice (DESIGN §6)
        n += 1
        try:
            sim = LexerSim(prog, src, max_steps=200000)
            start, nerr = 0, 0
            if sim.pos != 0 and bad is None:
                bad = (src, src[:sim.pos], src[:sim.pos], "", 0, "nothing yet: the constructor has moved the cursor")
            for _ in range(len(src) + 2):
                out = sim.call("get_next_token")
                if out.kind != "ok":
                    break                         # a repository exception: the run ends with a fatal diagnostic (R-5.2)
                end = sim.pos
                errs = sim.error_names()
                new_bad = sum(1 for e in errs[nerr:] if e == "BAD_LEXEME")
                nerr = len(errs)
                tok = out.value
                if tok is None:
                    text = ""
                else:
                    text = tok.value if getattr(tok, "value", None) is not None else spelling.get(tok.type)
                    if text is None:
                        raise Unsupported(f"no spelling known for the value-less token kind {tok.type}")
                norm = _normalise(src[start:end], tri, di)
                want, got = norm, text
                if tok is not None and tok.type == "MULT_COMMENT":
                    want, got = norm.replace("\t", "").replace(" ", ""), text.replace(" ", "").replace("\t", "")
                ok = len(want) - len(got) == new_bad and want.endswith(got)
                if not ok and tok is not None and tok.type == "CHAR_CONST" and "UNEXPECTED_EOL_CHR" in errs and want[new_bad:] == got + "\n":
                    known += 1                    # known finding (R-10.1, parse_char_literal): the newline ending the literal
                    ok = True
                if not ok and bad is None:
                    bad = (src, src[start:end], norm, text, new_bad, getattr(tok, "type", None))
                if tok is None or end >= len(src):
                    break
                start = end
        except Unsupported as e:
            if "step budget" in str(e):
                continue                          # termination is R-5.17's business
            if unsupported is None:
                unsupported = (src, str(e))
    if unsupported is not None and bad is None:
        raise Undecided(f"get_next_token is outside the evaluable subset on {unsupported[0]!r}: {unsupported[1]}")
    run.ob(rid, f"{gnt.key}::round-trip", bad is None,
           (f"on the input {bad[0]!r} one call moves over {bad[1]!r} (normalised: {bad[2]!r}) and returns {bad[5]} with the text {bad[3]!r} "
            f"and {bad[4]} BAD_LEXEME: the difference is in no token and in no diagnostic") if bad else "", gnt.node, evaluations=n,
           inputs_showing_the_known_finding_of_R_10_1=known)
