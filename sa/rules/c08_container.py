"""R-13.5 / R-8.8 (properties C13 / C08): the diagnostics container keeps everything it is given.

"Gets that diagnostic exactly once" (C13) and "describes exactly the same diagnostics" (C08) are stated for every file, however many
lexical diagnostics it already carries when a rule speaks (a CRLF file has one BAD_LEXEME per line before CheckHeader runs).
Errors.add is interpreted (sa/xeval.py, DESIGN §3.4b) on a container that already holds n = 0, 1, 2, 999, 1000, 1001, 5000
diagnostics, in both calling conventions (an Error object; a code and a text): afterwards the container iterates over n + 1
diagnostics and the one just added is among them."""
from __future__ import annotations

from ..minieval import Unsupported
from ..model import Undecided
from ..xeval import Raised

SIZES = (0, 1, 2, 99, 100, 999, 1000, 1001, 5000)


def rule_container_keeps_all(run, prog, rid):
    run.rule(rid, "the diagnostics container keeps every diagnostic: Errors.add, interpreted on a container already holding "
             f"{', '.join(map(str, SIZES))} diagnostics (as an Error object and as code + text), leaves a container that hands "
             "out one diagnostic more, the new one included -- a late INVALID_HEADER / rule diagnostic is not dropped behind many "
             "lexical ones", floor=1)
    from .c04 import FormatterBench
    add = prog.method("Errors", "add")
    run.require(add is not None, "anchor vanished: Errors.add")
    bad, n = None, 0
    try:
        b = FormatterBench(prog)
        ev = b.ev
        ev.max_steps = 4000000
        box = ev.instantiate("Errors", [], {})
        filler = b.error("BAD_LEXEME", "No matchable token for '\\r' lexeme", positions=((1, 1),))
        size = 0
        for target in SIZES:
            while size < target:
                ev.call_method(box, "add", [filler], {})
                size += 1
            before = len(list(ev.iterate(box)))
            if before != size:
                bad = bad or (size, f"after {size} additions the container hands out {before} diagnostic(s)")
                break
            n += 1
            new = b.error("INVALID_HEADER", positions=((1, 1),))
            ev.call_method(box, "add", [new], {})
            size += 1
            items = list(ev.iterate(box))
            if (len(items) != size or not any(x is new for x in items)) and bad is None:
                bad = (target, f"a diagnostic added to a container holding {target} is not handed out afterwards ({len(items)} of {size})")
                break
    except Raised as r:
        bad = bad or (0, f"Errors.add raises {r.value!r}")
    except Unsupported as e:
        raise Undecided(f"Errors.add / Errors.__iter__ is outside the evaluable subset: {e}")
    run.ob(rid, f"{add.key}::keeps-everything", bad is None, bad[1] if bad else "", add.node, evaluations=n)
