"""R-5.13 (property C05 / C08): ordering the diagnostics cannot raise TypeError.

Errors.__iter__ sorts the diagnostics of a file when the verdict is put together; an exception there escapes main() as a
traceback.  Python raises TypeError when an ordering operator meets None (or two objects without an ordering), so every value
that reaches `<` `>` `<=` `>=`, min / max / sorted / .sort during that sort must have a type that is totally ordered and never
None.  The types are read from the repository's own annotations (dataclass fields):

 (a) a class ordered by `@dataclass(order=True)` compares its fields as a tuple: every compared field must be annotated with an
     orderable, non-Optional type;
 (b) in a hand-written __lt__/__le__/__gt__/__ge__, every operand of an ordering operator (and every element of a compared
     tuple, and the elements given to min/max) must be orderable and non-Optional: a field of such a type, len(...) / bool(...) /
     int(...) of anything, a constant, `x or <orderable constant>`, or an object of a class that itself defines an ordering."""
from __future__ import annotations

import ast
from typing import Dict, Optional

from ..model import text, walk_fn

_ORDERABLE = {"int", "str", "float", "bool", "bytes"}
_ORDER_OPS = (ast.Lt, ast.LtE, ast.Gt, ast.GtE)
_ORDER_METHODS = ("__lt__", "__le__", "__gt__", "__ge__")


def _dataclass_order(cls) -> Optional[bool]:
    """None: not a dataclass; otherwise the value of order= (False by default)."""
    for d in cls.node.decorator_list:
        if isinstance(d, ast.Name) and d.id == "dataclass" or isinstance(d, ast.Attribute) and d.attr == "dataclass":
            return False
        if isinstance(d, ast.Call) and (isinstance(d.func, ast.Name) and d.func.id == "dataclass"
                                        or isinstance(d.func, ast.Attribute) and d.func.attr == "dataclass"):
            for k in d.keywords:
                if k.arg == "order":
                    return bool(isinstance(k.value, ast.Constant) and k.value.value)
            return False
    return None


def _fields(cls) -> Dict[str, ast.AnnAssign]:
    return {st.target.id: st for st in cls.node.body if isinstance(st, ast.AnnAssign) and isinstance(st.target, ast.Name)}


def _compared(field_stmt: ast.AnnAssign) -> bool:
    v = field_stmt.value
    if isinstance(v, ast.Call) and text(v.func).endswith("field"):
        for k in v.keywords:
            if k.arg == "compare" and isinstance(k.value, ast.Constant) and k.value.value is False:
                return False
    return True


class _Types:
    def __init__(self, prog):
        self.prog = prog
        self.ordered_classes = {}
        for c in prog.classes.values():
            o = _dataclass_order(c)
            if o or any(m in c.methods for m in _ORDER_METHODS):
                self.ordered_classes[c.name] = c

    def ann_kind(self, ann) -> str:
        """'ok' (orderable, never None), 'optional', 'list:<elem kind>', or 'unknown'."""
        if ann is None:
            return "unknown"
        if isinstance(ann, ast.Constant) and isinstance(ann.value, str):
            try:
                return self.ann_kind(ast.parse(ann.value, mode="eval").body)
            except SyntaxError:
                return "unknown"
        if isinstance(ann, ast.Name):
            if ann.id in _ORDERABLE or ann.id in self.ordered_classes:
                return "ok"
            return "unknown"
        if isinstance(ann, ast.Subscript):
            base = text(ann.value).split(".")[-1]
            if base == "Optional":
                return "optional"
            if base == "Union":
                elts = ann.slice.elts if isinstance(ann.slice, ast.Tuple) else [ann.slice]
                if any(isinstance(e, ast.Constant) and e.value is None for e in elts):
                    return "optional"
                return "unknown"
            if base in ("List", "list", "Sequence", "Tuple", "tuple", "Set", "set", "Iterable"):
                inner = ann.slice.elts[0] if isinstance(ann.slice, ast.Tuple) and ann.slice.elts else ann.slice
                return "list:" + self.ann_kind(inner)
            if base == "Literal":
                elts = ann.slice.elts if isinstance(ann.slice, ast.Tuple) else [ann.slice]
                if all(isinstance(e, ast.Constant) and isinstance(e.value, str) for e in elts):
                    return "ok"
        if isinstance(ann, ast.BinOp) and isinstance(ann.op, ast.BitOr):
            if any(isinstance(e, ast.Constant) and e.value is None for e in (ann.left, ann.right)):
                return "optional"
        return "unknown"

    def expr_kind(self, e, cls, locals_: Dict[str, str]) -> str:
        if isinstance(e, ast.Constant):
            return "ok" if isinstance(e.value, (int, str, float, bytes)) and e.value is not None else "optional"
        if isinstance(e, ast.Call) and isinstance(e.func, ast.Name):
            if e.func.id in ("len", "bool", "int", "str", "float", "abs", "ord", "hash", "id", "repr"):
                return "ok"
            if e.func.id in ("min", "max") and len(e.args) == 1 and not any(k.arg == "default" for k in e.keywords):
                k = self.expr_kind(e.args[0], cls, locals_)
                return k[5:] if k.startswith("list:") else "unknown"
            if e.func.id in ("min", "max") and len(e.args) > 1:
                ks = {self.expr_kind(a, cls, locals_) for a in e.args}
                return "ok" if ks == {"ok"} else "optional" if "optional" in ks else "unknown"
        if isinstance(e, ast.BoolOp) and isinstance(e.op, ast.Or):
            # `x or ''`: the last alternative decides whether None can come out
            last = self.expr_kind(e.values[-1], cls, locals_)
            firsts = [self.expr_kind(v, cls, locals_) for v in e.values[:-1]]
            if last == "ok" and all(f in ("ok", "optional") for f in firsts):
                return "ok"
            return "optional" if "optional" in firsts + [last] else "unknown"
        if isinstance(e, ast.Tuple):
            ks = [self.expr_kind(x, cls, locals_) for x in e.elts]
            return "ok" if all(k == "ok" for k in ks) else "optional" if "optional" in ks else "unknown"
        if isinstance(e, ast.Name):
            return locals_.get(e.id, "unknown")
        if isinstance(e, ast.Attribute) and isinstance(e.value, ast.Name):
            owner = locals_.get("@" + e.value.id)
            c = self.prog.classes.get(owner) if owner else None
            if c is not None:
                f = _fields(c).get(e.attr)
                if f is not None:
                    return self.ann_kind(f.annotation)
                m = c.methods.get(e.attr)
                if m is not None and any("property" in d for d in m.decorators):
                    return self.ann_kind(m.node.returns)
        if isinstance(e, ast.BinOp):
            l, r = self.expr_kind(e.left, cls, locals_), self.expr_kind(e.right, cls, locals_)
            return "ok" if l == r == "ok" else "optional" if "optional" in (l, r) else "unknown"
        return "unknown"


def rule_ordering_types(run, prog, rid="R-5.13"):
    run.rule(rid, "TYPE / exception freedom of the report sort: every class that takes part in ordering the diagnostics "
             "(Error, Highlight and whatever they compare) orders only values whose annotated type is totally ordered and never "
             "None -- dataclass(order=True) over its compared fields, hand-written __lt__ etc. over the operands of each "
             "ordering operator and the elements given to min/max", floor=2)
    ty = _Types(prog)
    run.require("Error" in ty.ordered_classes, "anchor vanished: class Error defines no ordering (Errors.__iter__ sorts Error objects)")
    # classes reachable from Error's ordering through field types
    n = 0
    for cname, c in sorted(ty.ordered_classes.items()):
        if c.mod.rel != "errors.py":
            continue
        fields = _fields(c)
        if _dataclass_order(c):
            for fname, st in fields.items():
                if not _compared(st):
                    continue
                k = ty.ann_kind(st.annotation)
                if k.startswith("list:"):
                    k = k[5:]
                n += 1
                run.ob(rid, f"{c.key}::order-field[{fname}]", k == "ok",
                       f"@dataclass(order=True) compares the field `{fname}: {text(st.annotation)}` with `<`: "
                       + ("it may be None, and None < value raises TypeError as soon as two objects agree on the fields before it"
                          if k == "optional" else "its type has no total order the analyser can establish")
                       + " -- sorting the diagnostics of a file (Errors.__iter__) then dies with a traceback", st)
        for mname in _ORDER_METHODS:
            m = c.methods.get(mname)
            if m is None:
                continue
            params = m.params
            locals_: Dict[str, str] = {}
            if params:
                locals_["@" + params[0]] = cname
            if len(params) > 1:
                # `other` is of the same class when the method asserts / tests it, or is annotated so
                other = params[1]
                ann = m.node.args.args[1].annotation if len(m.node.args.args) > 1 else None
                same = isinstance(ann, ast.Name) and ann.id == cname or isinstance(ann, ast.Constant) and ann.value == cname
                for x in walk_fn(m.node):
                    if isinstance(x, ast.Call) and isinstance(x.func, ast.Name) and x.func.id == "isinstance" and len(x.args) == 2 \
                            and isinstance(x.args[0], ast.Name) and x.args[0].id == other and text(x.args[1]) in (cname, "type(self)", "self.__class__"):
                        same = True
                if same:
                    locals_["@" + other] = cname
            # locals bound from typed expressions (single assignment, tuple unpacking of a tuple of expressions)
            assigns = sorted((st for st in walk_fn(m.node) if isinstance(st, ast.Assign) and len(st.targets) == 1),
                             key=lambda st: (st.lineno, st.col_offset))
            for st in assigns + assigns:            # source order, twice: a local typed from a local typed further down a loop
                if True:
                    t, v = st.targets[0], st.value
                    pairs = []
                    if isinstance(t, ast.Name):
                        pairs = [(t, v)]
                    elif isinstance(t, ast.Tuple) and isinstance(v, ast.Tuple) and len(t.elts) == len(v.elts):
                        pairs = [(a, b) for a, b in zip(t.elts, v.elts) if isinstance(a, ast.Name)]
                    for a, b in pairs:
                        if isinstance(b, ast.Name) and "@" + b.id in locals_:
                            locals_["@" + a.id] = locals_["@" + b.id]       # an alias of a typed object (the inliner's `self__h = self`)
                        k = ty.expr_kind(b, c, locals_)
                        locals_[a.id] = k if a.id not in locals_ or locals_[a.id] in (k, "unknown") else "unknown"
                        # an object of an ordered class: its fields are typed too
                        if isinstance(b, ast.Call) and isinstance(b.func, ast.Name) and b.func.id in ("min", "max") and len(b.args) == 1:
                            src = b.args[0]
                            if isinstance(src, ast.Attribute) and isinstance(src.value, ast.Name):
                                oc = prog.classes.get(locals_.get("@" + src.value.id) or "")
                                f = _fields(oc).get(src.attr) if oc is not None else None
                                if f is not None and isinstance(f.annotation, ast.Subscript):
                                    inner = f.annotation.slice
                                    if isinstance(inner, ast.Name) and inner.id in ty.ordered_classes:
                                        locals_["@" + a.id] = inner.id
            for x in walk_fn(m.node):
                operands = []
                if isinstance(x, ast.Compare) and any(isinstance(o, _ORDER_OPS) for o in x.ops):
                    seq = [x.left] + list(x.comparators)
                    for i, o in enumerate(x.ops):
                        if isinstance(o, _ORDER_OPS):
                            operands += [seq[i], seq[i + 1]]
                elif isinstance(x, ast.Call) and isinstance(x.func, ast.Name) and x.func.id in ("min", "max", "sorted") and x.args:
                    operands = list(x.args) if len(x.args) > 1 else [x]
                    if x.func.id == "sorted" or any(k.arg == "key" for k in x.keywords):
                        continue
                for op in operands:
                    k = ty.expr_kind(op, c, locals_)
                    n += 1
                    run.ob(rid, f"{m.key}::ordered-operand[{text(op, 40)}]", k == "ok",
                           f"`{text(op, 60)}` is ordered in `{text(x, 70)}` but "
                           + ("may be None (Optional field): TypeError when two diagnostics meet there"
                              if k == "optional" else "its type is not known to be totally ordered")
                           + " -- Errors.__iter__ sorts with this method while the verdict is produced", x)
    run.require(n >= 6, f"only {n} ordered values found in the comparison methods of errors.py (floor 6)")
