"""R-14.9 = R-19.7 (properties C14 / C19): the statement history is append-only.

`context.history` is the only record of what came earlier in the file.  The guard check reads all of it ("was there an
instruction before the #ifndef?" -> HEADER_PROT_ALL), the look-backs of C19 read it from the end.  Each reader assumes that
nothing is ever taken out.  Ownership / effect rule: the attribute is bound once, to an empty list, in Context.__init__; the
only in-place change anywhere is `.append(...)` in Registry.run_rules; nobody deletes, truncates, rebinds, sorts or pops it,
directly or through a local alias bound without a copy."""
from __future__ import annotations

import ast

from ..model import text, walk_fn

_SHRINK = {"pop", "remove", "clear", "insert", "sort", "reverse", "extend", "__delitem__", "__setitem__", "popleft"}


def _is_history(e) -> bool:
    return isinstance(e, ast.Attribute) and e.attr == "history"


def rule_history_append_only(run, prog, rid="R-14.9"):
    run.rule(rid, "OWN / effect: context.history is bound once (to []) in Context.__init__ and afterwards only appended to, by "
             "Registry.run_rules: no del / slice assignment / pop / remove / clear / sort / rebinding / maxlen container anywhere, "
             "directly or through an uncopied alias -- every reader (HEADER_PROT_ALL, the look-backs) sees every earlier statement",
             floor=2)
    n_app = 0
    bad = []
    binds = []
    for fn in prog.fns:
        aliases = set()
        for n in walk_fn(fn.node):
            if isinstance(n, ast.Assign) and len(n.targets) == 1 and isinstance(n.targets[0], ast.Name) and _is_history(n.value):
                aliases.add(n.targets[0].id)

        def is_hist(e):
            return _is_history(e) or (isinstance(e, ast.Name) and e.id in aliases)
        for n in walk_fn(fn.node):
            if isinstance(n, ast.Call) and isinstance(n.func, ast.Attribute) and is_hist(n.func.value):
                if n.func.attr == "append":
                    n_app += 1
                    if fn.key != "registry.py::Registry.run_rules":
                        bad.append((fn, n, "appended to outside Registry.run_rules"))
                elif n.func.attr in _SHRINK:
                    bad.append((fn, n, f".{n.func.attr}() changes the recorded history"))
            elif isinstance(n, ast.Delete):
                for t in n.targets:
                    if (isinstance(t, ast.Subscript) and is_hist(t.value)) or _is_history(t):
                        bad.append((fn, n, "entries are deleted"))
            elif isinstance(n, (ast.Assign, ast.AugAssign, ast.AnnAssign)):
                tg = n.targets if isinstance(n, ast.Assign) else [n.target]
                for t in tg:
                    for x in (t.elts if isinstance(t, (ast.Tuple, ast.List)) else [t]):
                        if isinstance(x, ast.Subscript) and is_hist(x.value):
                            bad.append((fn, n, "entries are overwritten / a slice is replaced"))
                        elif _is_history(x):
                            if fn.cls is not None and fn.cls.name == "Context" and fn.name == "__init__" and isinstance(n, (ast.Assign, ast.AnnAssign)):
                                binds.append((fn, n))
                            else:
                                bad.append((fn, n, "the attribute is rebound"))
    ok_bind = len(binds) == 1 and isinstance(getattr(binds[0][1], "value", None), ast.List) and not binds[0][1].value.elts
    run.ob(rid, "context.py::Context.__init__::history-starts-empty", ok_bind,
           "Context.__init__ does not bind history exactly once to a plain empty list (a bounded container would forget statements): "
           + ", ".join(text(b, 50) for _, b in binds), binds[0][1] if binds else None)
    run.ob(rid, "registry.py::Registry.run_rules::history-append-only", not bad and n_app >= 1,
           "the statement history is changed other than by the registry's append: "
           + "; ".join(f"{f.key}:{getattr(n, 'lineno', '?')} `{text(n, 50)}` ({w})" for f, n, w in bad[:3])
           + ": a reader that scans it (HEADER_PROT_ALL, the look-backs over comments and preprocessor lines) misses what was removed",
           bad[0][1] if bad else None, appends=n_app)
