"""R-2.7 (property C02): an assignment anywhere in the condition of if / while is reported, wherever the condition is broken
into lines.

C02's edit "== replaced by =" can fall on any operator of a condition, and a conforming condition may continue on further
lines (operator first, one more tab).  The check that emits ASSIGN_IN_CONTROL walks the first line and hands every opening
parenthesis to a nest scan; whether that scan really covers the whole parenthesised condition is decided by interpreting the
emitting check (sa/stubrun.py, DESIGN §3.4b) on a family of stub control statements -- one to three lines, nested parentheses
-- with each comparison in turn replaced by each assignment operator the lexer can produce."""
from __future__ import annotations

import ast
from typing import List

from ..facts import emission_sites
from ..fold import Unknown, fold_name
from ..minieval import Unsupported
from ..model import Undecided
from ..stubrun import RUNTIME_ERRORS, StubContext, line_tokens, run_rule

ID = lambda s: ("IDENTIFIER", s)       # noqa: E731
CONT = ["NEWLINE", "TAB", "TAB", "TAB"]

TEMPLATES = {
    "one line": [ID("a"), "SPACE", "EQUALS", "SPACE", ID("b")],
    "two lines": [ID("a"), "SPACE", "EQUALS", "SPACE", ID("b")] + CONT + ["AND", "SPACE", ID("c"), "SPACE", "EQUALS", "SPACE", ID("d")],
    "nested, two lines": ["LPARENTHESIS", ID("a"), "SPACE", "EQUALS", "SPACE", ID("b"), "RPARENTHESIS"] + CONT
    + ["OR", "SPACE", "LPARENTHESIS", ID("c"), "SPACE", "EQUALS", "SPACE", ID("d"), "RPARENTHESIS"],
    "three lines": [ID("a"), "SPACE", "MORE_THAN", "SPACE", ("CONSTANT", "0")] + CONT
    + ["AND", "SPACE", ID("b"), "SPACE", "EQUALS", "SPACE", ID("c")] + CONT
    + ["AND", "SPACE", ID("d"), "SPACE", "EQUALS", "SPACE", ID("e")],
}
HEADS = {"if": ["IF", "SPACE"], "while": ["WHILE", "SPACE"], "else if": ["ELSE", "SPACE", "IF", "SPACE"]}


def rule_condition_scan(run, prog):
    run.rule("R-2.7", "the check that emits ASSIGN_IN_CONTROL, interpreted on stub if / while / else-if statements whose "
             "condition spans one to three lines (with nested parentheses) and in which each comparison in turn is replaced by "
             "each assignment operator of the lexer's table, reports ASSIGN_IN_CONTROL for every placement and never for the "
             "unedited condition", floor=1)
    try:
        ops = fold_name("operators", prog.mod("lexer/dictionary.py"))
    except Unknown as e:
        raise Undecided(f"the operator table does not fold: {e}")
    assign_kinds = sorted({k for k in ops.values() if k.endswith("ASSIGN")})
    run.require(len(assign_kinds) >= 11, f"only {len(assign_kinds)} assignment operator kinds in the lexer's table (floor 11)")
    owners = sorted({s.fn.cls.name for s in emission_sites(prog)
                     if s.fn.cls is not None and isinstance(s.code_expr, ast.Constant) and s.code_expr.value == "ASSIGN_IN_CONTROL"
                     and prog.is_sub(s.fn.cls.name, "Rule")})
    if not owners:
        run.note("R-2.7: no rule emits ASSIGN_IN_CONTROL by a literal code in this tree (R-2.2 decides whether it is emitted at all)")
        return

    def emitted(cname, toks) -> List[str]:
        sc = StubContext(prog, line_tokens(toks, 3, 1), history=("IsBlockStart", "IsControlStatement"), scope="Function")
        try:
            run_rule(prog, cname, sc)
        except RUNTIME_ERRORS:
            pass
        return sc.codes()

    for cname in owners:
        m = prog.method(cname, "run")
        missed, spurious, n = None, None, 0
        try:
            for hname, head in HEADS.items():
                for tname, cond in TEMPLATES.items():
                    stmt = ["TAB"] + head + ["LPARENTHESIS"] + cond + ["RPARENTHESIS", "NEWLINE"]
                    n += 1
                    if "ASSIGN_IN_CONTROL" in emitted(cname, stmt) and spurious is None:
                        spurious = (hname, tname)
                    for i, t in enumerate(stmt):
                        if t != "EQUALS":
                            continue
                        for k in assign_kinds:
                            n += 1
                            edited = stmt[:i] + [k] + stmt[i + 1:]
                            if "ASSIGN_IN_CONTROL" not in emitted(cname, edited) and missed is None:
                                line = 1 + sum(1 for x in stmt[:i] if x == "NEWLINE")
                                missed = (hname, tname, k, line)
        except Unsupported as e:
            raise Undecided(f"{cname}.run is outside the evaluable subset: {e}")
        run.ob("R-2.7", f"{m.key}::covers-the-condition", missed is None and spurious is None,
               (f"in an `{missed[0]}` whose condition is written on {missed[1]}, the operator {missed[2]} on line {missed[3]} of the "
                f"condition is not reported: the scan stops before the closing parenthesis and the edit `==` -> `=` passes as OK"
                if missed else f"ASSIGN_IN_CONTROL is reported for a condition without any assignment (`{spurious[0]}`, {spurious[1]})"
                if spurious else ""), m.node, evaluations=n)
