"""R-11.7 (property C11): an unterminated (or empty, or over-long) character / string literal gets its diagnostic, a
terminated one gets none -- whatever stands before the end.

The two literal sub-parsers are interpreted (sa/lexsim.py, DESIGN §3.4b) on every body of up to three units over
{letter, blank, escaped quote, escaped backslash, the other quote}, closed or left open, followed by the end of the input (and,
for character constants, by a newline), with each literal prefix.  The diagnostics must be those of an independent scanner:
a backslash takes the next character with it, so `\\"` at the very end of the input does not close a string."""
from __future__ import annotations

import itertools

from ..fold import Unknown, fold_name
from ..lexsim import LexerSim
from ..minieval import Unsupported
from ..model import Undecided


def _scan(body: str, quote: str):
    """(units before the end, how it ended: 'closed' | 'eof' | 'eol')"""
    i, units = 0, 0
    while i < len(body):
        c = body[i]
        if c == "\\":
            if i + 1 >= len(body):
                return units, "eof"
            i += 2
            units += 1
            continue
        if c == quote:
            return units, "closed"
        if c == "\n" and quote == "'":
            return units, "eol"
        i += 1
        units += 1
    return units, "eof"


def rule_literal_termination(run, prog, rid="R-11.7"):
    run.rule(rid, "termination of character and string literals: parse_string_literal / parse_char_literal, interpreted on every "
             "body of <= 3 units over {letter, blank, escaped quote, escaped backslash, the other quote}, closed or open, at the end "
             "of the input (or of the line), with every prefix, report UNEXPECTED_EOF_STR / UNEXPECTED_EOF_CHR / "
             "UNEXPECTED_EOL_CHR / EMPTY_CHAR / CHAR_AS_STRING where an independent scanner of the raw text prescribes them, and nothing "
             "for a well-formed literal",
             floor=2)
    try:
        prefixes = [p for p in fold_name("quote_prefixes", prog.mod("lexer/lexer.py")) if isinstance(p, str)]
    except Unknown as e:
        raise Undecided(f"quote_prefixes does not fold: {e}")
    prefixes = sorted(set(prefixes) | {""})
    for name, quote, other in (("parse_string_literal", '"', "'"), ("parse_char_literal", "'", '"')):
        fn = prog.method("Lexer", name)
        run.require(fn is not None, f"anchor vanished: Lexer.{name}")
        units = ["a", " ", "\\" + quote, "\\\\", other]
        # ... and the same units standing right behind a line splice (translation phase 2 removes it before the literal is read:
        # an escape sequence that begins a continuation line is still one escape sequence)
        spliced = units + ["\\\n" + u for u in units] + ["??/\n" + units[2]]
        bad, n = None, 0
        try:
            for k in range(0, 4):
                for combo in itertools.product(units if k == 3 else spliced, repeat=k):
                    body = "".join(combo)
                    tails = [quote, "", "\\"] + (["\n", quote + "\n"] if quote == "'" else [])
                    for tail in tails:
                        for pre in (prefixes if k <= 1 else [""]):
                            src = pre + quote + body + tail
                            if "\\\\\n" in src:
                                continue          # two backslashes and a newline: escape-then-newline or splice, read either way
                            n += 1
                            sim = LexerSim(prog, src)
                            out = sim.call(name)
                            got = sorted(sim.error_names())
                            count, how = _scan((body + tail).replace("\\\n", "").replace("??/\n", ""), quote)
                            want = []
                            if quote == '"':
                                if how != "closed":
                                    want = ["UNEXPECTED_EOF_STR"]
                            else:
                                if how == "eof":
                                    want.append("UNEXPECTED_EOF_CHR")
                                elif how == "eol":
                                    want.append("UNEXPECTED_EOL_CHR")
                                elif count == 0:
                                    want.append("EMPTY_CHAR")
                                elif count > 1:
                                    want.append("CHAR_AS_STRING")
                            # the property asks for the matching diagnostic on a malformed literal and for none on a valid
                            # one; an additional diagnostic on a literal that is malformed anyway is not its business
                            wrong = (not set(want) <= set(got)) if want else bool(got)
                            if (out.kind != "ok" or wrong) and bad is None:
                                bad = (src, got, want, out)
            # ... and literals cut right behind the digits of a numeric escape (the digit scan meets the end of the input)
            for body in ("\\x4", "ab\\x41", "\\xfF", "\\7", "a\\12"):
                for pre in ("", "L"):
                    src = pre + quote + body
                    n += 1
                    sim = LexerSim(prog, src)
                    out = sim.call(name)
                    got = sorted(sim.error_names())
                    want = ["UNEXPECTED_EOF_STR" if quote == '"' else "UNEXPECTED_EOF_CHR"]
                    if (out.kind != "ok" or not set(want) <= set(got)) and bad is None:
                        bad = (src, got, want, out)
        except Unsupported as e:
            raise Undecided(f"Lexer.{name} is outside the evaluable subset: {e}")
        run.ob(rid, f"{fn.key}::termination", bad is None,
               (f"the source {bad[0]!r} gets the lexical diagnostics {bad[1]} (result {bad[3]!r}); the raw text prescribes {bad[2]}")
               if bad else "", fn.node, evaluations=n)


def rule_long_constants(run, prog, rid="R-11.8"):
    run.rule(rid, "one token whatever the length: get_next_token, interpreted on a constant of each numeric family with 70 and "
             "300 digits (decimal, octal, hexadecimal, binary, with a suffix; float with a long fraction, a long "
             "exponent, a long hexadecimal mantissa), returns one CONSTANT spanning the whole constant and reports nothing", floor=1)
    fn = prog.method("Lexer", "get_next_token")
    run.require(fn is not None, "anchor vanished: Lexer.get_next_token")
    from .c05_regex import ambiguous_lexer_pattern
    amb = ambiguous_lexer_pattern(prog)
    if amb is not None:
        raise Undecided(f"the lexer pattern {amb} is exponentially ambiguous (reported by R-5.10 under C05): long constants are not fed "
                        f"through it by the analyser's interpreter")
    bad, n = None, 0
    try:
        for k in (70, 300):
            for src in ("1" * k, "0" + "7" * k, "0x" + "a" * k, "0b" + "1" * k, "9" * k + "ull", "1." + "5" * k, "1." + "5" * k + "f",
                        "5" * k + ".0", "1e" + "9" * k, "0x1." + "f" * k + "p3"):
                n += 1
                sim = LexerSim(prog, src + ";")
                out = sim.call("get_next_token")
                tok = out.value if out.kind == "ok" else None
                got = (getattr(tok, "type", None), getattr(tok, "value", None), sim.pos, sim.error_names())
                if got != ("CONSTANT", src, len(src), []) and bad is None:
                    bad = (src[:12] + f"...({len(src)} characters)", (got[0], len(got[1] or ""), got[2], got[3]), out)
    except Unsupported as e:
        raise Undecided(f"Lexer.get_next_token is outside the evaluable subset: {e}")
    run.ob(rid, f"{fn.key}::length-independent", bad is None,
           (f"the constant {bad[0]} gives (kind, length of the token text, offset reached, diagnostics) = {bad[1]} (result {bad[2]!r}): "
            f"a valid constant is cut into several tokens") if bad else "", fn.node, evaluations=n)


def rule_literal_context(run, prog, rid="R-11.9"):
    run.rule(rid, "a literal is lexed the same whatever word precedes it: get_next_token, interpreted on `<word> \"say \\\\\"hi\\\\\"\"` and "
             "`<word> '\\\\''` for every identifier-like word the lexer's own source mentions (and include / define / x), gives the "
             "word, a blank, and one STRING / CHAR_CONST spanning the literal, without diagnostic", floor=1)
    import ast as _ast
    import re as _re
    from ..model import walk_fn
    words = {"x", "include", "define", "import", "L", "u8"}
    for fn in prog.fns:
        if fn.mod.rel.startswith("lexer/"):
            for n in walk_fn(fn.node):
                if isinstance(n, _ast.Constant) and isinstance(n.value, str) and _re.fullmatch(r"[A-Za-z_]\w{1,15}", n.value):
                    words.add(n.value)
    gnt = prog.method("Lexer", "get_next_token")
    run.require(gnt is not None, "anchor vanished: Lexer.get_next_token")
    try:
        kw = fold_name("keywords", prog.mod("lexer/dictionary.py"))
    except Unknown:
        kw = {}
    bad, n = None, 0
    try:
        for w in sorted(words):
            for lit, kind in (('"say \\"hi\\""', "STRING"), ("'\\''", "CHAR_CONST")):
                if w in ("L", "u8", "u", "U"):
                    src = w + "x " + lit + ";"           # not glued: a prefix would belong to the literal
                else:
                    src = w + " " + lit + ";"
                n += 1
                sim = LexerSim(prog, src)
                toks = []
                for _ in range(3):
                    out = sim.call("get_next_token")
                    toks.append((getattr(out.value, "type", None), getattr(out.value, "value", None)) if out.kind == "ok" else (repr(out), None))
                if (toks[2] != (kind, lit) or sim.error_names()) and bad is None:
                    bad = (src, toks, sim.error_names())
    except Unsupported as e:
        raise Undecided(f"Lexer.get_next_token is outside the evaluable subset: {e}")
    run.ob(rid, f"{gnt.key}::literal-after-any-word", bad is None,
           (f"{bad[0]!r} is tokenized as {bad[1]} with the diagnostics {bad[2]}: the literal is read differently because of the word "
            f"in front of it") if bad else "", gnt.node, evaluations=n, words=len(words))
