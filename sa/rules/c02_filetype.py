"""R-2.10 (property C02): the rules that apply to one kind of file see that kind for every file name the tool accepts.

Several violations of the catalogue are tied to the kind of file ("struct or typedef in a .c file", the include guard of a header):
the rules compare `context.file.type` with ".c" / ".h".  __main__ accepts a file by the last suffix of its name, so File must
derive the type from the last suffix as well: File.__init__ is interpreted (sa/xeval.py, DESIGN §3.4b) on names with one and with
several dots, in a directory or not, and its `type` must be the last suffix -- otherwise `list.utils.c` is analysed as a file of no
kind and the kind-bound diagnostics are silently missing."""
from __future__ import annotations

import ast
import posixpath

from ..minieval import Unsupported
from ..model import Undecided, text, walk_fn
from ..xeval import Raised

NAMES = ("a.c", "b.h", "list.utils.c", "x.test.c", "y.tab.h", "d/e.f.h", "dir.v2/main.c", "a.b.c.d.c", ".hidden.c", "UP.H.h")


def rule_file_kind(run, prog, rid="R-2.10"):
    run.rule(rid, "kind of file: every rule that compares the file's type with '.c' / '.h' gets, for each accepted name (one or "
             "several dots, with or without a directory), the last suffix of the base name -- File.__init__ interpreted on "
             f"{len(NAMES)} names", floor=2)
    from .c04 import FormatterBench
    fi = prog.method("File", "__init__")
    run.require(fi is not None, "anchor vanished: File.__init__")
    sites = []
    for fn in prog.fns:
        if not fn.mod.rel.startswith("rules/"):
            continue
        for n in walk_fn(fn.node):
            if isinstance(n, ast.Compare) and any(isinstance(x, ast.Attribute) and x.attr == "type" and "file" in text(x.value)
                                                  for x in [n.left] + list(n.comparators)):
                sites.append((fn, n))
    bad, n_eval = None, 0
    try:
        for p in NAMES:
            n_eval += 1
            b = FormatterBench(prog)
            f = b.ev.construct("File", [p, "int\ta;\n"], {})
            got = b.ev.getattr(f, "type")
            want = posixpath.splitext(posixpath.basename(p))[1]
            if got != want and bad is None:
                bad = (p, got, want)
    except Raised as r:
        bad = ("a name", f"raises {r.value!r}", "")
    except Unsupported as e:
        raise Undecided(f"File.__init__ is outside the evaluable subset: {e}")
    for fn, n in sites or [(fi, fi.node)]:
        run.ob(rid, f"{fn.key}::file-kind[{text(n, 40)}]", bad is None,
               (f"the test `{text(n, 50)}` sees the type {bad[1]!r} for the file {bad[0]!r} (its last suffix is {bad[2]!r}): the "
                f"kind-bound diagnostics of this rule are missing for such a name") if bad else "", n, evaluations=n_eval)
