"""R-19.8 (property C19): a comment line between a head line and its opening brace changes nothing but line numbers.

"Inserting a comment line at a statement boundary only shifts later diagnostics": the boundary between `enum e_x` /
`struct s_x` / a function header and the `{` on the next line is such a boundary.  Which scope the body is analysed in is
decided by two cooperating sites: the head's primary may open it, otherwise IsBlockStart opens one from the statement history.
Both are interpreted (sa/snippet.py, DESIGN §3.4b): the head line is offered to the primaries in priority order, the scope it
asks for is entered the way Context.update does, the comment (if any) is recorded in the history, and the `{` line is offered
to the primaries in the resulting scope.  The scope the body ends up in must be the same with no comment, with a block comment
and with a `//` comment in between."""
from __future__ import annotations

from ..minieval import Unsupported
from ..model import Undecided
from ..snippet import first_match, lex
from ..stubrun import make_scope

HEADS = ["enum e_color\n", "typedef enum e_color\n", "struct s_point\n", "typedef struct s_point\n", "union u_word\n",
         "int\tmain(void)\n", "static char\t*ft_name(int a, char *b)\n"]
MIDDLES = [("", ()), ("/* note */\n", ("IsComment",)), ("// note\n", ("IsComment",)), ("/* a */\n/* b */\n", ("IsComment", "IsComment"))]


def _body_scope(prog, head: str, middle: str, extra_history):
    hist = ["IsFuncDeclaration", "IsBlockStart", "IsBlockEnd", "IsEmptyLine"]
    toks = lex(prog, head + middle + "{\n", first_line=20)
    glob = {"lines": 7}
    name, o = first_match(prog, toks, scope="GlobalScope", history=tuple(hist), scope_attrs=dict(glob))
    if name is None or o is None or not o.matched or o.hang or o.raised:
        return None
    brace_at = max(i for i, t in enumerate(toks) if t.__dict__["type"] == "LBRACE")
    if o.claimed > brace_at:
        return ("claimed-with-head", o.sub)       # the head's primary takes the brace as well (same-statement form)
    hist.append(name)
    scope1 = o.sub or "GlobalScope"
    hist.extend(extra_history)
    rest = toks[brace_at:]
    attrs = dict(glob) if scope1 == "GlobalScope" else {"parent": make_scope("GlobalScope", **glob), "lines": 0}
    name2, o2 = first_match(prog, rest, scope=scope1, history=tuple(hist), scope_attrs=attrs)
    if name2 is None or o2 is None or not o2.matched or o2.hang or o2.raised:
        return (scope1, "brace not recognised")
    return (o2.sub or scope1,)


def rule_comment_before_brace(run, prog, rid="R-19.8"):
    run.rule(rid, "a comment between a head line and its `{` does not change the scope of the body: for enum / struct / union / "
             "typedef heads and function headers, the head line and then the `{` line are offered to the primaries (interpreted in "
             "priority order, scopes entered as Context.update enters them); the scope the body is analysed in is the same with "
             "nothing, a block comment, a // comment or two comments in between", floor=1)
    bad, n = None, 0
    try:
        for head in HEADS:
            ref = _body_scope(prog, head, "", ())
            if ref is None:
                continue
            for middle, extra in MIDDLES[1:]:
                n += 1
                got = _body_scope(prog, head, middle, extra)
                if got is None or got[0] == "claimed-with-head":
                    continue
                if ref[0] != "claimed-with-head" and got != ref and bad is None:
                    bad = (head.strip(), middle, ref, got)
    except Unsupported as e:
        raise Undecided(f"a primary is outside the evaluable subset: {e}")
    run.ob(rid, "registry.py::Registry.run::comment-before-brace", bad is None,
           (f"`{bad[0]}` followed by `{{` on the next line puts the body in the scope {bad[2]}; with {bad[1]!r} in between it is {bad[3]}: "
            f"every diagnostic of the body (and the depth after it) changes because of a comment") if bad else "", None, evaluations=n)
