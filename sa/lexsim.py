"""Abstract execution of the Lexer's methods by the analyser's own interpreter.

``FlowEvaluator`` extends :class:`minieval.Evaluator` with the control flow the lexer uses (``while``, ``break`` /
``continue``, ``for ... else``, ``try`` / ``raise`` of repository exceptions, nested defs read as closures) and with
native stand-ins for the classes the lexer only *talks to* (``Error``, ``Highlight``, ``Errors``, ``Token``, compiled
regular expressions folded from the module constants).  ``LexerSim`` builds a ``Lexer`` instance over a stub ``File``
whose ``source`` is a representative of a small finite domain chosen by the calling rule (one escape letter, one digit
run of a given length, one unmatchable character ...), runs one method and reports what happened: returned value,
repository exception, diagnostics recorded, cursor movement, and the order of the observable events.

Nothing of the repository is imported or run by Python: the method bodies are ``ast`` trees (after the inline
pre-pass) walked by this interpreter.  A construct outside the supported subset raises ``Unsupported``; the calling
rule decides whether that is an ANALYSIS-ERROR or an undecided note -- never a pass.
"""
from __future__ import annotations

import ast
import re
import string as _string
from typing import Any, Dict, List, Optional, Tuple

from .fold import RegexConst, Unknown, fold_name
from .minieval import ClassRef, Evaluator, Obj, Unsupported, _Return
from .model import Mod, Program


class RepoRaise(Exception):
    """An exception propagating in the interpreted program."""

    def __init__(self, name: str, detail: str = ""):
        super().__init__(name, detail)
        self.name = name
        self.detail = detail


class _Break(Exception):
    pass


class _Continue(Exception):
    pass


class Closure:
    def __init__(self, node, env, bound_self=None):
        self.node = node
        self.env = env
        self.bound_self = bound_self

    def __repr__(self):
        return f"<closure {getattr(self.node, 'name', 'lambda')}>"


class ExcClass:
    def __init__(self, name: str):
        self.name = name

    def __repr__(self):
        return f"<exception class {self.name}>"


class ExcValue:
    def __init__(self, name: str, args=()):
        self.name = name
        self.args = tuple(args)

    def __repr__(self):
        return f"{self.name}{self.args!r}"


# ---------------------------------------------------------------------------------- native stand-ins
class NativeObj:
    """Base of the analyser's stand-ins: attribute reads and method calls go to the Python object."""


class HighlightStub(NativeObj):
    def __init__(self, lineno=None, column=None, length=None, hint=None):
        self.lineno, self.column, self.length, self.hint = lineno, column, length, hint

    def __repr__(self):
        return f"H({self.lineno}, {self.column}, length={self.length})"


class ErrorStub(NativeObj):
    trace: Optional[List] = None

    def __init__(self, name=None, text="", level="Error", highlights=None):
        self.name, self.text, self.level = name, text, level
        self.highlights = list(highlights) if highlights is not None else []

    @classmethod
    def from_name(cls, name, **kwargs):
        return cls(name, f"<{name}>", **kwargs)

    def add_highlight(self, *args, **kwargs):
        if len(args) == 1 and not kwargs and isinstance(args[0], HighlightStub):
            self.highlights.append(args[0])
        else:
            self.highlights.append(HighlightStub(*args, **kwargs))

    def __repr__(self):
        return f"Error({self.name}, {self.level}, {self.highlights})"


class ErrorsStub(NativeObj):
    def __init__(self, trace: List):
        self.items: List[ErrorStub] = []
        self._trace = trace

    def add(self, *args, **kwargs):
        kwargs.setdefault("level", "Error")
        if len(args) == 1 and isinstance(args[0], ErrorStub):
            err = args[0]
        elif len(args) == 1 and isinstance(args[0], str):
            err = ErrorStub.from_name(args[0], **kwargs)
        elif len(args) == 2:
            err = ErrorStub(*args, **kwargs)
        else:
            raise RepoRaise("AssertionError", "bad function call")
        self.items.append(err)
        self._trace.append(("error", err.name))
        return None

    append = add

    def __len__(self):
        return len(self.items)

    def __iter__(self):
        return iter(list(self.items))


class TokenStub(NativeObj):
    def __init__(self, type=None, pos=None, value=None):
        self.type, self.pos, self.value = type, pos, value

    @property
    def length(self):
        return len(self.value or "")

    @property
    def lineno(self):
        return self.pos[0]

    @property
    def column(self):
        return self.pos[1]

    def __repr__(self):
        return f"<{self.type}={self.value!r}@{self.pos}>"


class _ModuleNS:
    """`import itertools` in the module under analysis: attribute access goes to the real (pure) library."""

    def __init__(self, lib):
        self._lib = lib

    def __getattr__(self, name):
        return getattr(self._lib, name)


_NATIVE_TYPES = (NativeObj, re.Pattern, re.Match, _ModuleNS)

_STR_METHODS = {"upper", "lower", "startswith", "endswith", "replace", "count", "strip", "lstrip", "rstrip", "join",
                "isdigit", "isalpha", "isalnum", "isspace", "isidentifier", "isupper", "islower", "find", "rfind", "index",
                "split", "rsplit", "splitlines", "partition", "rpartition", "format", "expandtabs", "ljust", "rjust",
                "zfill", "title", "capitalize", "casefold", "removeprefix", "removesuffix", "translate", "center", "encode"}
_LIST_METHODS = {"append", "extend", "sort", "index", "count", "insert", "remove", "pop", "copy", "clear", "reverse"}
_DICT_METHODS = {"setdefault", "get", "pop", "keys", "values", "items", "update", "copy"}
_SET_METHODS = {"add", "discard", "remove", "union", "intersection", "difference", "issubset", "issuperset", "copy",
                "update", "isdisjoint"}
_TUPLE_METHODS = {"index", "count"}
_PY_ERRORS = (TypeError, KeyError, IndexError, ValueError, AttributeError, ZeroDivisionError, StopIteration)


def _builtin_table():
    return {
        "range": range, "enumerate": lambda *a, **k: list(enumerate(*a, **k)), "zip": lambda *a: list(zip(*a)),
        "len": len, "str": str, "int": int, "bool": bool, "float": float, "abs": abs, "ord": ord, "chr": chr,
        "repr": repr, "min": min, "max": max, "sum": sum, "sorted": sorted, "reversed": lambda x: list(reversed(x)),
        "tuple": tuple, "list": list, "set": set, "frozenset": frozenset, "dict": dict, "any": any, "all": all,
        "divmod": divmod, "cast": lambda t, v: v, "iter": iter, "next": next,
    }


class FlowEvaluator(Evaluator):
    MAX_DEPTH = 40

    def __init__(self, methods=None, max_steps=400000, resolve_global=None, exc_is_sub=None, **kw):
        super().__init__(methods, max_steps=max_steps, **kw)
        self.resolve_global = resolve_global        # callback(name) -> value, or raises KeyError
        self.exc_is_sub = exc_is_sub or (lambda name, base: name == base)
        self.builtins = _builtin_table()
        self.class_attrs: Dict[Tuple[str, str], Any] = {}

    # ------------------------------------------------------------------ statements
    def stmt(self, st, env):
        try:
            self._stmt(st, env)
        except _PY_ERRORS as e:
            raise RepoRaise(type(e).__name__, str(e))

    def _stmt(self, st, env):
        if isinstance(st, (ast.For, ast.While)):
            self.steps += 1
            if self.steps > self.max_steps:
                raise Unsupported("step budget exceeded")
            broke = False
            if isinstance(st, ast.For):
                for item in self.iterate(self.expr(st.iter, env)):
                    self.assign(st.target, item, env)
                    try:
                        self.block(st.body, env)
                    except _Break:
                        broke = True
                        break
                    except _Continue:
                        continue
            else:
                while self.truth(self.expr(st.test, env)):
                    self.steps += 1
                    if self.steps > self.max_steps:
                        raise Unsupported("step budget exceeded")
                    try:
                        self.block(st.body, env)
                    except _Break:
                        broke = True
                        break
                    except _Continue:
                        continue
            if not broke:
                self.block(st.orelse, env)
            return
        if isinstance(st, ast.Break):
            raise _Break()
        if isinstance(st, ast.Continue):
            raise _Continue()
        if isinstance(st, ast.Raise):
            if st.exc is None:
                cur = env.get("__sa_current_exc")
                if cur is None:
                    raise Unsupported("bare raise outside a handler")
                raise cur
            v = self.expr(st.exc, env)
            if isinstance(v, ExcClass):
                raise RepoRaise(v.name)
            if isinstance(v, ExcValue):
                raise RepoRaise(v.name, ", ".join(map(str, v.args)))
            raise Unsupported(f"raise of {v!r}")
        if isinstance(st, ast.Try):
            self._try(st, env)
            return
        if isinstance(st, (ast.FunctionDef,)):
            if st.decorator_list:
                raise Unsupported("decorated nested function")
            env[st.name] = Closure(st, env)
            return
        if isinstance(st, ast.AugAssign) and isinstance(st.target, ast.Subscript):
            base = self.expr(st.target.value, env)
            k = self.expr(st.target.slice, env)
            base[k] = self.binop(st.op, base[k], self.expr(st.value, env))
            return
        if isinstance(st, ast.AugAssign) and isinstance(st.target, ast.Attribute):
            base = self.expr(st.target.value, env)
            if isinstance(base, NativeObj):
                setattr(base, st.target.attr, self.binop(st.op, getattr(base, st.target.attr), self.expr(st.value, env)))
                return
        if isinstance(st, ast.Assert):
            if not self.truth(self.expr(st.test, env)):
                raise RepoRaise("AssertionError")
            return
        if isinstance(st, ast.With):
            raise Unsupported("with statement")
        if isinstance(st, (ast.Import, ast.ImportFrom)):
            raise Unsupported("local import")
        if isinstance(st, (ast.Global, ast.Nonlocal, ast.Delete)):
            raise Unsupported(type(st).__name__)
        super().stmt(st, env)

    def _try(self, st: ast.Try, env):
        try:
            try:
                self.block(st.body, env)
            except RepoRaise as r:
                for h in st.handlers:
                    if self._handler_matches(h, r.name):
                        if h.name:
                            env[h.name] = ExcValue(r.name, (r.detail,))
                        saved = env.get("__sa_current_exc")
                        env["__sa_current_exc"] = r
                        try:
                            self.block(h.body, env)
                        finally:
                            env["__sa_current_exc"] = saved
                        break
                else:
                    raise
            else:
                self.block(st.orelse, env)
        finally:
            if st.finalbody:
                self.block(st.finalbody, env)

    def _handler_matches(self, h: ast.ExceptHandler, name: str) -> bool:
        if h.type is None:
            return True
        ts = h.type.elts if isinstance(h.type, ast.Tuple) else [h.type]
        for t in ts:
            tn = ast.unparse(t).split(".")[-1]
            if tn in ("Exception", "BaseException") or tn == name or self.exc_is_sub(name, tn):
                return True
            if tn == "LookupError" and name in ("KeyError", "IndexError"):
                return True
        return False

    def assign(self, t, v, env):
        if isinstance(t, ast.Attribute):
            base = self.expr(t.value, env)
            if isinstance(base, NativeObj):
                setattr(base, t.attr, v)
                return
        if isinstance(t, (ast.Tuple, ast.List)) and any(isinstance(x, ast.Starred) for x in t.elts):
            vs = list(v)
            i = [k for k, x in enumerate(t.elts) if isinstance(x, ast.Starred)][0]
            after = len(t.elts) - i - 1
            if len(vs) < len(t.elts) - 1:
                raise ValueError("not enough values to unpack")
            for a, b in zip(t.elts[:i], vs[:i]):
                self.assign(a, b, env)
            self.assign(t.elts[i].value, vs[i:len(vs) - after], env)
            for a, b in zip(t.elts[i + 1:], vs[len(vs) - after:]):
                self.assign(a, b, env)
            return
        if isinstance(t, (ast.Tuple, ast.List)):
            vs = list(v)                 # TypeError when v is None: converted by stmt()
            if len(vs) != len(t.elts):
                raise ValueError("unpack arity")
        super().assign(t, v, env)

    # ------------------------------------------------------------------ expressions
    def iterate(self, v):
        if isinstance(v, (str, tuple, list, dict, set, frozenset, range)):
            return v
        if isinstance(v, ErrorsStub):
            return list(v.items)
        if v is None or isinstance(v, (int, float)):
            raise TypeError(f"{type(v).__name__} object is not iterable")
        return super().iterate(v)

    def _global(self, name: str):
        if name in self.globals:
            return self.globals[name]
        if self.resolve_global is not None:
            try:
                v = self.resolve_global(name)
            except KeyError:
                v = _MISSING
            if v is not _MISSING:
                self.globals[name] = v
                return v
        if name in self.builtins:
            return self.builtins[name]
        return _MISSING

    def expr(self, e, env):
        if isinstance(e, ast.Name):
            if e.id in env:
                return env[e.id]
            if e.id in ("True", "False", "None"):
                return super().expr(e, env)
            v = self._global(e.id)
            if v is not _MISSING:
                self.steps += 1
                return v
            raise Unsupported(f"free name {e.id}")
        if isinstance(e, ast.Attribute):
            if not (isinstance(e.value, ast.Name) and e.value.id in self.modules and e.value.id not in env):
                base = self.expr(e.value, env)
                if isinstance(base, _NATIVE_TYPES) or (isinstance(base, type) and issubclass(base, NativeObj)):
                    if e.attr.startswith("_"):
                        raise Unsupported(f"private attribute {e.attr} of a stand-in")
                    return getattr(base, e.attr)
                if isinstance(base, Obj):
                    if e.attr in base.__dict__:
                        return base.__dict__[e.attr]
                    m = self.methods.get((base._cls, e.attr))
                    if m is not None and any(ast.unparse(d) == "property" for d in m.decorator_list):
                        return self.invoke(m, [base], {})
                    if m is not None:
                        return Closure(m, {}, bound_self=base)
                    cattr = self.class_attrs.get((base._cls, e.attr))
                    if cattr is not None:
                        return cattr
                    raise AttributeError(f"{base._cls} object has no attribute {e.attr}")
                if isinstance(base, ClassRef):
                    if e.attr == "__name__":
                        return base.name
                    if (base.name, e.attr) in self.class_attrs:
                        return self.class_attrs[(base.name, e.attr)]
                    m = self.methods.get((base.name, e.attr))
                    if m is not None:
                        return Closure(m, {})
                    raise AttributeError(f"type object {base.name} has no attribute {e.attr}")
                if base is None:
                    raise AttributeError(f"NoneType object has no attribute {e.attr}")
                if isinstance(base, tuple) and e.attr in getattr(base, "_fields", ()):
                    return getattr(base, e.attr)              # NamedTuple of the repository (minieval.namedtuple_of)
                if isinstance(base, (str, tuple, frozenset, bytes)) and (e.attr in ("__contains__", "__getitem__", "__len__", "__eq__")
                                                                          or (isinstance(base, str) and e.attr in _STR_METHODS)):
                    return getattr(base, e.attr)              # a bound method of an immutable builtin value, used as a callable
                raise Unsupported(f"attribute {e.attr} on {type(base).__name__}")
            return super().expr(e, env)
        if isinstance(e, (ast.Tuple, ast.List, ast.Set)):
            out = []
            for x in e.elts:
                if isinstance(x, ast.Starred):
                    out.extend(list(self.iterate(self.expr(x.value, env))))
                else:
                    out.append(self.expr(x, env))
            return tuple(out) if isinstance(e, ast.Tuple) else out if isinstance(e, ast.List) else set(out)
        if isinstance(e, ast.Subscript):
            base = self.expr(e.value, env)
            if isinstance(e.slice, ast.Slice):
                lo = self.expr(e.slice.lower, env) if e.slice.lower else None
                hi = self.expr(e.slice.upper, env) if e.slice.upper else None
                step = self.expr(e.slice.step, env) if e.slice.step else None
                return base[lo:hi:step]
            if base is None:
                raise TypeError("NoneType object is not subscriptable")
            return base[self.expr(e.slice, env)]
        if isinstance(e, (ast.SetComp, ast.DictComp)):
            if len(e.generators) != 1:
                raise Unsupported("nested comprehension")
            g = e.generators[0]
            out = {} if isinstance(e, ast.DictComp) else set()
            for item in self.iterate(self.expr(g.iter, env)):
                env2 = dict(env)
                self.assign(g.target, item, env2)
                if all(self.truth(self.expr(c, env2)) for c in g.ifs):
                    if isinstance(e, ast.DictComp):
                        out[self.expr(e.key, env2)] = self.expr(e.value, env2)
                    else:
                        out.add(self.expr(e.elt, env2))
            return out
        if isinstance(e, ast.Lambda):
            return Closure(e, env)
        if isinstance(e, ast.JoinedStr):
            parts = []
            for v in e.values:
                if isinstance(v, ast.Constant):
                    parts.append(str(v.value))
                else:
                    x = self.expr(v.value, env)
                    if v.conversion == 114:
                        x = repr(x)
                    elif v.conversion == 115:
                        x = str(x)
                    elif v.conversion == 97:
                        x = ascii(x)
                    spec = self.expr(v.format_spec, env) if v.format_spec is not None else ""
                    parts.append(format(x, spec))
            return "".join(parts)
        if isinstance(e, ast.UnaryOp) and isinstance(e.op, (ast.UAdd, ast.Invert)):
            v = self.expr(e.operand, env)
            return +v if isinstance(e.op, ast.UAdd) else ~v
        return super().expr(e, env)

    def binop(self, op, l, r):
        if isinstance(op, ast.Div):
            return l / r
        if isinstance(op, ast.Pow):
            return l ** r
        if isinstance(op, ast.BitOr):
            return l | r
        if isinstance(op, ast.BitAnd):
            return l & r
        if isinstance(op, ast.BitXor):
            return l ^ r
        if isinstance(op, ast.LShift):
            return l << r
        if isinstance(op, ast.RShift):
            return l >> r
        return super().binop(op, l, r)

    def order(self, op, a, b) -> bool:
        if isinstance(a, Obj) or isinstance(b, Obj):
            return super().order(op, a, b)
        return {ast.Lt: lambda: a < b, ast.Gt: lambda: a > b, ast.LtE: lambda: a <= b, ast.GtE: lambda: a >= b}[type(op)]()

    # ------------------------------------------------------------------ calls
    def call_value(self, f, args, kwargs):
        """Call an already evaluated callee."""
        if isinstance(f, Closure):
            self._call_depth += 1
            if self._call_depth > self.MAX_DEPTH:
                self._call_depth -= 1
                raise Unsupported("call depth")
            try:
                if isinstance(f.node, ast.Lambda):
                    env = dict(f.env)
                    names = [a.arg for a in f.node.args.posonlyargs + f.node.args.args]
                    if len(args) != len(names) or kwargs:
                        raise Unsupported("lambda binding")
                    env.update(zip(names, args))
                    return self.expr(f.node.body, env)
                if f.bound_self is not None:
                    args = [f.bound_self] + list(args)
                return self._invoke_in(f.node, args, kwargs, dict(f.env))
            finally:
                self._call_depth -= 1
        if isinstance(f, ExcClass):
            return ExcValue(f.name, args)
        if isinstance(f, ClassRef):
            return self.instantiate(f.name, args, kwargs)
        if callable(f):
            return f(*args, **kwargs)
        raise TypeError(f"{type(f).__name__} object is not callable")

    def _invoke_in(self, fnode, args, kwargs, outer_env):
        """Like invoke(), but the body runs in a copy of *outer_env* (closure semantics for reads)."""
        env = dict(outer_env)
        env.update(self._bind(fnode, list(args), kwargs))
        try:
            self.block(fnode.body, env)
        except _Return as r:
            return r.v
        return None

    def _bind(self, fnode, args, kwargs) -> Dict[str, Any]:
        a = fnode.args
        params = [x.arg for x in a.posonlyargs + a.args]
        bound: Dict[str, Any] = {}
        rest = list(args)
        for name in params:
            if rest:
                bound[name] = rest.pop(0)
        if rest and a.vararg is None:
            raise TypeError("too many positional arguments")
        if a.vararg is not None:
            bound[a.vararg.arg] = tuple(rest)
        kw = dict(kwargs)
        for name in params[len(a.posonlyargs):] + [x.arg for x in a.kwonlyargs]:
            if name in kw:
                if name in bound:
                    raise TypeError(f"multiple values for argument {name}")
                bound[name] = kw.pop(name)
        if a.kwarg is not None:
            bound[a.kwarg.arg] = kw
        elif kw:
            raise TypeError(f"unexpected keyword argument {sorted(kw)}")
        for name, d in zip(params[len(params) - len(a.defaults):], a.defaults):
            if name not in bound:
                bound[name] = self.expr(d, {})
        for x, d in zip(a.kwonlyargs, a.kw_defaults):
            if x.arg not in bound and d is not None:
                bound[x.arg] = self.expr(d, {})
        missing = [n for n in params + [x.arg for x in a.kwonlyargs] if n not in bound]
        if missing:
            raise TypeError(f"missing arguments {missing}")
        return bound

    def invoke(self, fnode, args, kwargs):
        self._call_depth += 1
        if self._call_depth > self.MAX_DEPTH:
            self._call_depth -= 1
            raise Unsupported("call depth")
        try:
            return self.call_function(fnode, self._bind(fnode, list(args), kwargs))
        finally:
            self._call_depth -= 1

    def call(self, e: ast.Call, env):
        f = e.func
        if isinstance(f, ast.Name) and f.id == "isinstance" and len(e.args) == 2 and f.id not in env:
            return self._isinstance2(self.expr(e.args[0], env), e.args[1], env)
        if isinstance(f, ast.Name) and f.id in ("getattr", "hasattr") and f.id not in env and len(e.args) in (2, 3) and not e.keywords:
            base = self.expr(e.args[0], env)
            name = self.expr(e.args[1], env)
            if not isinstance(name, str):
                raise Unsupported("getattr with a non-string name")
            probe = ast.copy_location(ast.Attribute(value=ast.Name(id="__sa_obj", ctx=ast.Load()), attr=name, ctx=ast.Load()), e)
            env2 = dict(env)
            env2["__sa_obj"] = base
            try:
                v = self.expr(probe, env2)
            except AttributeError:
                if f.id == "hasattr":
                    return False
                if len(e.args) == 3:
                    return self.expr(e.args[2], env)
                raise
            return True if f.id == "hasattr" else v
        if isinstance(f, ast.Name) and f.id == "type" and f.id not in env and len(e.args) == 1 and not e.keywords:
            v = self.expr(e.args[0], env)
            if isinstance(v, Obj):
                return ClassRef(v._cls)
            raise Unsupported("type() of a non-instance")
        # callee first (Python order), then arguments
        callee = None
        method_of = None
        if isinstance(f, ast.Attribute):
            if isinstance(f.value, ast.Name) and f.value.id in self.modules and f.value.id not in env:
                callee = self.modules[f.value.id].get(f.attr, _MISSING)
                if callee is _MISSING or not callable(callee):
                    raise Unsupported(f"module function {f.value.id}.{f.attr}")
            elif isinstance(f.value, ast.Call) and isinstance(f.value.func, ast.Name) and f.value.func.id == "super":
                raise Unsupported("super()")
            else:
                base = self.expr(f.value, env)
                method_of = (base, f.attr)
        else:
            callee = self.expr(f, env)
        args: List[Any] = []
        for a in e.args:
            if isinstance(a, ast.Starred):
                args.extend(list(self.iterate(self.expr(a.value, env))))
            else:
                args.append(self.expr(a, env))
        kwargs: Dict[str, Any] = {}
        for k in e.keywords:
            if k.arg is None:
                kwargs.update(self.expr(k.value, env))
            else:
                kwargs[k.arg] = self.expr(k.value, env)
        if method_of is None:
            return self.call_value(callee, args, kwargs)
        base, attr = method_of
        if isinstance(base, Obj):
            if attr in base.__dict__:
                return self.call_value(base.__dict__[attr], args, kwargs)
            if (base._cls, attr) in self.natives:
                return self.natives[(base._cls, attr)](*args, **kwargs)
            m = self.methods.get((base._cls, attr))
            if m is not None:
                decos = [ast.unparse(d) for d in m.decorator_list]
                if "staticmethod" in decos:
                    return self.invoke(m, args, kwargs)
                if "classmethod" in decos:
                    return self.invoke(m, [ClassRef(base._cls)] + args, kwargs)
                return self.invoke(m, [base] + args, kwargs)
            cattr = self.class_attrs.get((base._cls, attr))
            if cattr is not None:
                return self.call_value(cattr, args, kwargs)
            raise AttributeError(f"{base._cls} object has no attribute {attr}")
        if isinstance(base, _NATIVE_TYPES) or (isinstance(base, type) and issubclass(base, NativeObj)):
            if attr.startswith("_"):
                raise Unsupported(f"private method {attr} of a stand-in")
            return getattr(base, attr)(*args, **kwargs)
        if isinstance(base, ClassRef):
            m = self.methods.get((base.name, attr))
            if m is not None:
                decos = [ast.unparse(d) for d in m.decorator_list]
                if "classmethod" in decos:
                    return self.invoke(m, [base] + args, kwargs)
                return self.invoke(m, args, kwargs)       # Class.method(self, ...) / staticmethod
            raise Unsupported(f"class attribute call {base.name}.{attr}")
        if isinstance(base, str) and attr in _STR_METHODS:
            return getattr(base, attr)(*args, **kwargs)
        if isinstance(base, list) and attr in _LIST_METHODS:
            return getattr(base, attr)(*args, **kwargs)
        if isinstance(base, dict) and attr in _DICT_METHODS:
            r = getattr(base, attr)(*args, **kwargs)
            return list(r) if attr in ("keys", "values", "items") else r
        if isinstance(base, (set, frozenset)) and attr in _SET_METHODS:
            return getattr(base, attr)(*args, **kwargs)
        if isinstance(base, tuple) and attr in _TUPLE_METHODS:
            return getattr(base, attr)(*args, **kwargs)
        if base is None:
            raise AttributeError(f"NoneType object has no attribute {attr}")
        if base is dict and attr == "fromkeys" and args:
            return dict.fromkeys(list(self.iterate(args[0])), *args[1:])
        if base is str and attr in ("join", "maketrans"):
            return getattr(str, attr)(*args, **kwargs)
        raise Unsupported(f"method {attr} on {type(base).__name__}")

    def _isinstance2(self, v, texpr, env) -> bool:
        ts = texpr.elts if isinstance(texpr, ast.Tuple) else [texpr]
        for t in ts:
            nm = ast.unparse(t).split(".")[-1]
            stub = {"Error": ErrorStub, "Highlight": HighlightStub, "H": HighlightStub, "Token": TokenStub}.get(nm)
            if stub is not None and isinstance(v, stub):
                return True
        return self._isinstance(v, texpr)


_MISSING = object()


# ---------------------------------------------------------------------------------------- the lexer
class Outcome:
    def __init__(self, kind: str, value=None, exc: str = ""):
        self.kind = kind            # "ok" | "raise"
        self.value = value
        self.exc = exc

    def __repr__(self):
        return f"ok({self.value!r})" if self.kind == "ok" else f"raise({self.exc})"


def _to_runtime(v):
    """Folded module constants -> runtime values (compiled patterns for RegexConst)."""
    if isinstance(v, RegexConst):
        return re.compile(v.pattern, v.flags)
    if isinstance(v, tuple):
        return tuple(_to_runtime(x) for x in v)
    if isinstance(v, list):
        return [_to_runtime(x) for x in v]
    if isinstance(v, dict):
        return {k: _to_runtime(x) for k, x in v.items()}
    return v


_RE_MODULE = {"match": re.match, "search": re.search, "fullmatch": re.fullmatch, "compile": re.compile, "sub": re.sub,
              "findall": re.findall, "escape": re.escape, "VERBOSE": re.VERBOSE, "X": re.X, "IGNORECASE": re.I, "I": re.I,
              "DOTALL": re.S, "S": re.S, "MULTILINE": re.M, "M": re.M, "ASCII": re.A, "A": re.A}
_STRING_MODULE = {k: getattr(_string, k) for k in ("ascii_letters", "ascii_lowercase", "ascii_uppercase", "digits",
                                                   "hexdigits", "octdigits", "punctuation", "whitespace", "printable")}
_STUBS = {"Error": ErrorStub, "Highlight": HighlightStub, "Token": TokenStub}


_PURE_STDLIB = ("itertools", "functools", "operator", "collections", "string")


class LexerSim:
    """One Lexer instance over a stub File with the given source text."""

    _STATIC: Dict[int, Dict[str, Any]] = {}

    def __init__(self, prog: Program, source: str, parsers=None, max_steps=400000):
        self.prog = prog
        self.cls = prog.cls("Lexer")
        self.mod: Mod = self.cls.mod
        self.trace: List[Tuple] = []
        st = LexerSim._STATIC.get(id(prog))
        if st is None or st["prog"] is not prog:
            st = {"prog": prog, "methods": {}, "modules": {}, "globals": {}, "class_attrs": None}
            for cname, c in prog.classes.items():
                if cname == "Lexer" or prog.is_sub("Lexer", cname):
                    for mname, fn in c.methods.items():
                        st["methods"].setdefault(("Lexer", mname), fn.node)
            for alias, (src, orig) in self.mod.imports.items():
                if orig is None and src == "re":
                    st["modules"][alias] = _RE_MODULE
                elif orig is None and src == "string":
                    st["modules"][alias] = _STRING_MODULE
            LexerSim._STATIC[id(prog)] = st
        methods = st["methods"]
        self.ev = FlowEvaluator(methods, max_steps=max_steps, resolve_global=self._resolve, exc_is_sub=self._exc_is_sub,
                                modules=st["modules"])
        self.ev.globals = st["globals"]            # resolved module-level names are immutable values: shared between runs
        self.errors = ErrorsStub(self.trace)
        self.file = Obj("File", source=source, errors=self.errors, path="sim.c", basename="sim.c", name="sim.c")
        self.me = Obj("Lexer")
        init = methods.get(("Lexer", "__init__"))
        if init is None:
            raise Unsupported("Lexer.__init__ not found")
        out = self._guard(lambda: self.ev.invoke(init, [self.me, self.file], {}))
        if out.kind != "ok":
            raise Unsupported(f"Lexer.__init__ raises {out.exc}")
        if parsers is not None:
            self.me.__dict__["parsers"] = tuple(parsers)
        else:
            e = self.cls.attrs.get("parsers")
            if isinstance(e, (ast.Tuple, ast.List)) and all(isinstance(x, ast.Name) and x.id in self.cls.methods for x in e.elts):
                self.me.__dict__["parsers"] = tuple(Closure(self.cls.methods[x.id].node, {}) for x in e.elts)
        if st["class_attrs"] is None:
            st["class_attrs"] = {}
            from .fold import fold
            for nm, val in self.cls.attrs.items():
                if nm == "parsers":
                    continue
                try:
                    st["class_attrs"][("Lexer", nm)] = _to_runtime(fold(val, self.mod))
                except (Unknown, RecursionError):
                    # a table that mentions the class's own functions (rows of sub-parsers keyed by a character, ...):
                    # evaluated with those names standing for the functions
                    env = {mn: Closure(fn.node, {}) for mn, fn in self.cls.methods.items()}
                    for (c_, a_), v_ in st["class_attrs"].items():
                        env.setdefault(a_, v_)
                    try:
                        st["class_attrs"][("Lexer", nm)] = self.ev.expr(val, env)
                    except (Unsupported, RepoRaise, LookupError, TypeError, ValueError, AttributeError):
                        pass
        self.ev.class_attrs = st["class_attrs"]
        if "parsers" in self.me.__dict__:
            self.ev.class_attrs = dict(st["class_attrs"])
            self.ev.class_attrs[("Lexer", "parsers")] = self.me.__dict__["parsers"]

    # -- global names of lexer/lexer.py -------------------------------------------------------------
    def _exc_is_sub(self, name: str, base: str) -> bool:
        return name == base or (name in self.prog.classes and self.prog.is_sub(name, base))

    def _resolve(self, name: str):
        home = self.prog.global_home(self.mod, name)
        if home is not None:
            m, nm = home
            if nm in m.classes:
                if nm in _STUBS:
                    return _STUBS[nm]
                if self.prog.is_sub(nm, "Exception") or any(b in ("Exception", "BaseException") for b in self._all_bases(nm)):
                    return ExcClass(nm)
                if nm == "Lexer":
                    return ClassRef("Lexer")
                from .minieval import namedtuple_of
                nt = namedtuple_of(m.classes[nm].node)
                if nt is not None:
                    return nt                      # a NamedTuple of the repository: the equivalent Python namedtuple
                raise Unsupported(f"class {nm} has no stand-in")
            if nm in m.functions:
                return Closure(m.functions[nm].node, {})
            try:
                return _to_runtime(fold_name(nm, m, self.prog))
            except (Unknown, RecursionError) as e:
                raise Unsupported(f"module constant {name} does not fold: {e}")
        imp = self.mod.imports.get(name)
        if imp is not None and imp[0] == "typing":
            if imp[1] == "cast":
                return lambda t, v: v
            return object()
        if imp is not None and imp[0] in _PURE_STDLIB:
            # standard-library helpers that are pure functions of their arguments: evaluated natively
            import importlib
            lib = importlib.import_module(imp[0])
            if imp[1] is None:
                return _ModuleNS(lib)
            if hasattr(lib, imp[1]):
                return getattr(lib, imp[1])
        raise KeyError(name)

    def _all_bases(self, cname: str):
        seen, todo = set(), [cname]
        while todo:
            c = todo.pop()
            if c in seen:
                continue
            seen.add(c)
            if c in self.prog.classes:
                todo.extend(self.prog.classes[c].bases)
        return seen

    # -- running ------------------------------------------------------------------------------------
    def _guard(self, thunk) -> Outcome:
        try:
            return Outcome("ok", thunk())
        except RepoRaise as r:
            return Outcome("raise", exc=r.name)
        except _PY_ERRORS as e:
            return Outcome("raise", exc=type(e).__name__)
        except (_Break, _Continue):
            raise Unsupported("break/continue outside a loop")
        except RecursionError:
            raise Unsupported("interpreter recursion")

    def call(self, method: str, *args, **kwargs) -> Outcome:
        m = self.ev.methods.get(("Lexer", method))
        if m is None:
            raise Unsupported(f"Lexer.{method} not found")
        return self._guard(lambda: self.ev.invoke(m, [self.me] + list(args), kwargs))

    def attr(self, name: str, default=None):
        d = self.me.__dict__
        for k in (name, "__" + name, "_Lexer__" + name):
            if k in d:
                return d[k]
        return default

    @property
    def pos(self):
        return self.attr("pos")

    @property
    def line(self):
        return self.attr("line")

    @property
    def line_pos(self):
        return self.attr("line_pos")

    def error_names(self) -> List[str]:
        return [e.name for e in self.errors.items]


def parsers_hook_works(prog) -> bool:
    """Does get_next_token consult `self.parsers` whatever the next character is?  (Stubs planted there -- as many as the
    tree lists -- are consulted on a letter, a digit, a quote, a slash, a bracket, a blank and an unmatchable character.)
    Rules that replace the sub-parsers by stubs are undecidable when the tokenizer selects its sub-parsers, for some first
    characters, in another way (a dispatch table, a fast path): the real sub-parsers are then decided through get_next_token
    itself (R-10.10, R-12.1)."""
    e = prog.cls("Lexer").attrs.get("parsers")
    n = len(e.elts) if isinstance(e, (ast.Tuple, ast.List)) else 10
    for src in ("a", "1", "@", "(", " ", '"', "/"):
        sim = LexerSim(prog, src)
        hits = []

        def stub(me=None, sim=sim, hits=hits):
            hits.append(sim.pos)
            return None
        sim.me.__dict__["parsers"] = tuple(stub for _ in range(max(n, 1)))
        sim.call("get_next_token")
        if not hits:
            return False
    return True
