"""Obligation bookkeeping, known findings, exception table, evidence files."""
from __future__ import annotations

import json
import os
import time
from typing import Any, Dict, List, Optional

from .model import AnalysisError, loc, text

VERIF = os.path.dirname(os.path.dirname(os.path.abspath(__file__)))
EVIDENCE_DIR = os.environ.get("SA_EVIDENCE_DIR") or os.path.join(VERIF, "evidence")
KNOWN_FILE = os.path.join(VERIF, "known_findings.json")


class Run:
    """One run of the rules of one property."""

    def __init__(self, prop: str, tier: str = "quick"):
        self.prop = prop
        self.tier = tier
        self.t0 = time.time()
        self.obligations: List[Dict[str, Any]] = []
        self.notes: List[str] = []
        self.rules: Dict[str, str] = {}          # rule id -> one-line statement
        self.floors: Dict[str, int] = {}
        self.counts: Dict[str, int] = {}
        self._seen_keys: Dict[tuple, int] = {}
        self.extra: Dict[str, Any] = {}
        self.assumptions: List[str] = []
        self.undecided: List[Dict[str, Any]] = []      # rule functions skipped: construct outside the evaluable subset

    # -- declaring -----------------------------------------------------------
    def rule(self, rid: str, statement: str, floor: int = 1):
        self.rules[rid] = statement
        self.floors[rid] = floor
        self.counts.setdefault(rid, 0)

    def ob(self, rid: str, key: str, ok: bool, what: str, node=None, **facts):
        """Record one obligation of rule *rid* on construct *key*."""
        if rid not in self.rules:
            raise AnalysisError(f"rule {rid} used before being declared")
        k = (rid, key)
        n = self._seen_keys.get(k, 0) + 1
        self._seen_keys[k] = n
        if n > 1:
            key = f"{key}#{n}"
        rec = {"rule": rid, "key": key, "ok": bool(ok), "what": what}
        if node is not None:
            rec["loc"] = loc(node)
            rec["text"] = text(node)
        if facts:
            rec["facts"] = {a: (b if isinstance(b, (int, float, str, bool, type(None), list, dict)) else str(b))
                            for a, b in facts.items()}
        self.obligations.append(rec)
        self.counts[rid] = self.counts.get(rid, 0) + 1
        return ok

    def note(self, msg: str):
        self.notes.append(msg)

    def require(self, cond, msg: str):
        if not cond:
            raise AnalysisError(msg)

    # -- finishing -----------------------------------------------------------
    def finish(self) -> int:
        from . import exceptions as exc_table
        for rid, floor in self.floors.items():
            # the floor written next to a rule is (about) the instance count of the pinned tree; refactorings merge and
            # split constructs, so the guard against a vacuous pass is 70 % of it (small floors are kept as they are)
            need = floor if floor <= 3 else max(3, int(floor * 0.7))
            if self.counts.get(rid, 0) < need:
                raise AnalysisError(
                    f"{self.prop} {rid}: only {self.counts.get(rid, 0)} instance(s) found, floor is {need} "
                    f"(the rule would pass vacuously)")
        known = load_known()
        failed = [o for o in self.obligations if not o["ok"]]
        violations, known_hits, excepted = [], [], []
        for o in failed:
            kf = match_known(known, self.prop, o)
            if kf is not None:
                o["disposition"] = "known-finding"
                known_hits.append((o, kf))
                continue
            ex = exc_table.match(self.prop, o)
            if ex is not None:
                o["disposition"] = "exception: " + ex["reason"]
                excepted.append((o, ex))
                continue
            o["disposition"] = "VIOLATION"
            violations.append(o)
        for o, kf in known_hits:
            print(f"KNOWN-FINDING: property={self.prop} {o['rule']} {o['key']} {kf.get('fails', o['what'])}")
        stale = [k for k in known.get("findings", [])
                 if k.get("property") == self.prop and k.get("status", "known") == "known"
                 and not any(kh is k for _, kh in known_hits)]
        for k in stale:
            self.note(f"known finding no longer reproduced (suppresses nothing): {k['rule']} {k['key']}")
        for ex in exc_table.unused(self.prop, [e for _, e in excepted]):
            self.note(f"exception-table entry matched nothing (suppresses nothing): {ex['rule']} {ex['key']}")

        os.makedirs(EVIDENCE_DIR, exist_ok=True)
        vpath = os.path.join(EVIDENCE_DIR, f"{self.prop}.violations.json")
        if violations:
            with open(vpath, "w") as fh:
                json.dump({"property": self.prop, "violations": violations}, fh, indent=1)
        elif os.path.exists(vpath):
            os.remove(vpath)
        self._write_evidence(len(violations), known_hits, excepted)
        for u in self.undecided:
            print(f"UNDECIDED property={self.prop} {u['rule_function']}: {u['reason'][:300]}")
        if violations:
            for o in violations:
                print(f"  {o['rule']} {o['key']}: {o['what']}" + (f"  [{o.get('loc')}] {o.get('text', '')}" if o.get("loc") else ""))
            print(f"VIOLATION property={self.prop} replay={vpath}")
            return 1
        n = len(self.obligations)
        print(f"{self.prop}: OK  {n} obligations over {len(self.rules)} rules "
              f"({len(known_hits)} known finding(s), {len(excepted)} triaged exception(s)"
              + (f", {len(self.undecided)} rule function(s) UNDECIDED" if self.undecided else "") + ") "
              f"in {time.time() - self.t0:.2f}s")
        return 0

    def _write_evidence(self, nviol, known_hits, excepted):
        obs = self.obligations
        distinct = len({(o["rule"], o["key"].split("#")[0]) for o in obs})
        discharged = sum(1 for o in obs if o["ok"])
        per_rule = {}
        for o in obs:
            d = per_rule.setdefault(o["rule"], {"statement": self.rules[o["rule"]], "instances": 0, "failed": 0})
            d["instances"] += 1
            d["failed"] += 0 if o["ok"] else 1
        samples = []
        seen_rules = set()
        for o in obs:                      # one sample per rule first, then fill up
            if o["rule"] not in seen_rules:
                seen_rules.add(o["rule"])
                samples.append(o)
        for o in obs:
            if len(samples) >= 16:
                break
            if o not in samples:
                samples.append(o)
        ev = {
            "property_id": self.prop,
            "tier": self.tier,
            "seed": int(os.environ.get("VERIF_SEED", "0") or 0),
            "level": "other",
            "coverage": {
                "explanation": ("static analysis (ast / re._parser) of the working tree at "
                                + os.environ.get("SA_REPO", "/repo") + "; rules applied: "
                                + "; ".join(f"{r}: {s}" for r, s in self.rules.items())),
                "obligations": len(obs),
                "discharged": discharged,
                "evaluations": len(obs),
                "distinct_nontrivial": distinct,
                "rule": "one evaluation per (rule, construct) obligation; distinct = distinct (rule, construct key) pairs; "
                        "every one is non-trivial in the sense that the rule had to decide something on a construct found in the tree",
                "samples": samples[:16],
                "per_rule": per_rule,
                "known_findings_reported": [o["key"] for o, _ in known_hits],
                "exceptions_applied": [{"key": o["key"], "rule": o["rule"], "reason": e["reason"]} for o, e in excepted],
                "notes": self.notes[:60],
                "normalisation": _inline_report(),
                "undecided": self.undecided,
                "exhaustive": True,
            },
            "assumptions": self.assumptions + [
                "CPython ast / re._parser are faithful to the interpreter that runs norminette",
                "name-based resolution of the helper choke points (checked by the loader: unique, never aliased)",
            ],
            "wall_s": round(time.time() - self.t0, 3),
            "violations": nviol,
        }
        ev["coverage"].update(self.extra)
        with open(os.path.join(EVIDENCE_DIR, f"{self.prop}.json"), "w") as fh:
            json.dump(ev, fh, indent=1, default=str)


def _inline_report():
    """What the inlining pre-pass (sa/inline.py) did to the tree under analysis."""
    try:
        from .model import program
        rep = list(getattr(program(), "inline_report", []))
    except Exception:       # pragma: no cover
        rep = ["unavailable"]
    return {"rule": "functions that are not in sa/inventory.json are inlined back into their callers before the rules run",
            "actions": rep or ["none: every function of the tree is in the inventory"]}


def load_known() -> Dict[str, Any]:
    if not os.path.exists(KNOWN_FILE):
        return {"findings": [], "fixed": []}
    with open(KNOWN_FILE) as fh:
        return json.load(fh)


def match_known(known, prop: str, o) -> Optional[Dict[str, Any]]:
    for k in known.get("findings", []):
        if k.get("status", "known") != "known":
            continue
        if k.get("property") == prop and k.get("rule") == o["rule"] and k.get("key") == o["key"]:
            return k
    return None
