"""Self-test of the inliner on synthetic programs: the original and the normalised module are both executed (they are
the analyser's own test fixtures, not repository code) and must print the same trace."""
from __future__ import annotations

import ast
import contextlib
import io

from .inline import normalise

CASES = {
    "method-extract": '''
class K:
    def __init__(self): self.log = []; self.i = 0
    def run(self, xs):
        out = []
        for x in xs:
            r = self._step(x)
            if r is None:
                continue
            out.append(r)
        self._tail(out)
        return out
    def _step(self, x):
        if x < 0:
            return None
        for d in range(3):
            if d * d == x:
                return ("sq", d)
        self.i += 1
        return ("n", x + self.i)
    def _tail(self, out):
        out.append(len(out))
print(K().run([4, -1, 7, 0, 1]))
''',
    "hoist-test": '''
class L:
    def __init__(self): self.p = [None, "a", None, "b"]
    def nxt(self):
        while True:
            if tok := self._match():
                return tok
            if not self.p:
                return "end"
    def _match(self):
        if not self.p:
            return None
        v = self.p.pop(0)
        for c in "xyz":
            if v == c:
                return "never"
        return v
l = L(); print(l.nxt(), l.nxt(), l.nxt())
''',
    "tail-and-kwargs": '''
def build(name, **kw):
    return dict(name=name, **kw)
class C:
    @staticmethod
    def _mk(n, t, **kwargs):
        """doc"""
        return build(n, hl=[t], **kwargs)
    def a(self, n, t):
        e = self._mk(n, t)
        return e
    def b(self, n, t):
        return self._mk(n, t, level="Notice")
print(C().a("x", 1), C().b("y", 2))
''',
    "collide-rename": '''
def helper(i, n):
    i += n
    tmp = i * 2
    return tmp
def f(i):
    tmp = 100
    r = helper(i, 3)
    return i, tmp, r
def g(i):
    i = helper(i, 1)
    return i
print(f(1), g(5))
''',
    "nested-closure": '''
def main(items):
    seen = []
    def collect(xs):
        found = []
        for x in xs:
            if x in seen:
                continue
            seen.append(x)
            found.append(x * 2)
        return found
    files = collect(items) or collect([9])
    return files, seen
print(main([1, 2, 1]), main([]))
''',
    "while-test": '''
class W:
    def __init__(self): self.n = 0
    def _more(self, lim):
        self.n += 1
        return self.n < lim
    def run(self):
        out = []
        while self._more(4):
            out.append(self.n)
        return out
print(W().run())
''',
}


def _run(src_or_tree) -> str:
    buf = io.StringIO()
    code = compile(src_or_tree, "<selftest>", "exec")
    with contextlib.redirect_stdout(buf):
        exec(code, {"__name__": "selftest"})
    return buf.getvalue()


def run() -> int:
    n = 0
    for name, src in CASES.items():
        want = _run(src)
        tree = ast.parse(src)
        keep = {f"m.py::{k}" for k in ("K.run", "K.__init__", "L.nxt", "L.__init__", "build", "C.a", "C.b", "f", "g", "main",
                                       "W.run", "W.__init__")}
        rep = normalise({"m.py": tree}, inventory=keep)
        ast.fix_missing_locations(tree)
        got = _run(tree)
        if got != want:
            raise AssertionError(f"inliner self-test {name}: output changed\n want {want!r}\n got  {got!r}\n" + ast.unparse(tree))
        if not any(r.startswith("inlined") for r in rep):
            raise AssertionError(f"inliner self-test {name}: nothing was inlined: {rep}")
        n += 1
    return n


if __name__ == "__main__":
    print("inline self-test:", run(), "cases ok")
