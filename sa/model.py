"""Program model: loader, class table, function table, registry model.

Everything is derived from the source text of the tree under analysis
(``$SA_REPO`` or /repo) with ``ast``; nothing of norminette is imported.
"""
from __future__ import annotations

import ast
import os
from typing import Dict, Iterator, List, Optional, Tuple


class AnalysisError(Exception):
    """The analyser could not do its job (vanished anchor, unclassified idiom,
    instance count below its floor).  Never a verdict on the repository."""


class Undecided(AnalysisError):
    """A rule could not be evaluated on this tree because the code uses a construct outside the analyser's evaluable
    subset (its interpreters know a part of Python and of the standard library).  Unlike a vanished anchor this is not
    fail-closed: the rule function is skipped, listed as UNDECIDED in the output and in the evidence, and the rest of the
    check is still decided."""


def repo_root() -> str:
    return os.environ.get("SA_REPO", "/repo")


class Mod:
    def __init__(self, rel: str, path: str, src: str, tree: ast.Module):
        self.rel = rel                      # e.g. "rules/check_brace.py"
        self.path = path
        self.src = src
        self.tree = tree
        dotted = rel[:-3].replace("/", ".")
        if dotted.endswith(".__init__"):
            dotted = dotted[: -len(".__init__")]
        self.dotted = "norminette" + ("." + dotted if dotted != "__init__" else "")
        # name -> (module dotted, original name)
        self.imports: Dict[str, Tuple[str, Optional[str]]] = {}
        # module-level simple assignments: name -> [value exprs]
        self.assigns: Dict[str, List[ast.expr]] = {}
        self.functions: Dict[str, "Fn"] = {}
        self.classes: Dict[str, "Cls"] = {}

    def __repr__(self):
        return f"<Mod {self.rel}>"


class Fn:
    def __init__(self, mod: Mod, cls: Optional["Cls"], node, outer: Optional["Fn"] = None):
        self.mod = mod
        self.cls = cls
        self.node = node
        self.name = node.name
        self.outer = outer
        q = node.name
        if outer is not None:
            q = f"{outer.qual}.<locals>.{q}"
        elif cls is not None:
            q = f"{cls.name}.{q}"
        self.qual = q
        self.key = f"{mod.rel}::{q}"
        self.decorators = [ast.unparse(d) for d in node.decorator_list]

    @property
    def params(self) -> List[str]:
        a = self.node.args
        return [x.arg for x in a.posonlyargs + a.args + a.kwonlyargs]

    def __repr__(self):
        return f"<Fn {self.key}>"


class Cls:
    def __init__(self, mod: Mod, node: ast.ClassDef):
        self.mod = mod
        self.node = node
        self.name = node.name
        self.bases = [ast.unparse(b).split(".")[-1] for b in node.bases]
        self.kw = {k.arg: k.value for k in node.keywords if k.arg}
        self.attrs: Dict[str, ast.expr] = {}
        self.attr_nodes: Dict[str, ast.stmt] = {}
        self.methods: Dict[str, Fn] = {}
        self.key = f"{mod.rel}::{node.name}"

    def __repr__(self):
        return f"<Cls {self.key}>"


class Program:
    def __init__(self, root: Optional[str] = None):
        self.root = root or repo_root()
        self.pkg = os.path.join(self.root, "norminette")
        self.mods: Dict[str, Mod] = {}
        self.classes: Dict[str, Cls] = {}
        self.fns: List[Fn] = []
        self.fn_by_key: Dict[str, Fn] = {}
        self._load()

    # ------------------------------------------------------------------ load
    def _load(self):
        if not os.path.isdir(self.pkg):
            raise AnalysisError(f"package directory not found: {self.pkg}")
        parsed = []
        for dirpath, dirnames, filenames in os.walk(self.pkg):
            dirnames[:] = sorted(d for d in dirnames if d != "__pycache__")
            for fn in sorted(filenames):
                if not fn.endswith(".py"):
                    continue
                path = os.path.join(dirpath, fn)
                rel = os.path.relpath(path, self.pkg)
                with open(path, encoding="utf-8") as fh:
                    src = fh.read()
                try:
                    tree = ast.parse(src, filename=path)
                except SyntaxError as e:
                    raise AnalysisError(f"syntax error in {rel}: {e}")
                parsed.append((rel, path, src, tree))
        # functions the rules do not know (not in inventory.json) are inlined back into their callers
        from .inline import normalise
        self.inline_report = normalise({rel: tree for rel, _, _, tree in parsed})
        for rel, path, src, tree in parsed:
            mod = Mod(rel, path, src, tree)
            self.mods[rel] = mod
            self._index(mod)
        if len(self.mods) < 60:
            raise AnalysisError(f"only {len(self.mods)} modules found under {self.pkg} (floor 60)")

    def _index(self, mod: Mod):
        for node in ast.walk(mod.tree):
            for ch in ast.iter_child_nodes(node):
                ch._sa_parent = node            # type: ignore[attr-defined]
        mod.tree._sa_parent = None              # type: ignore[attr-defined]
        for node in ast.walk(mod.tree):
            node._sa_mod = mod                  # type: ignore[attr-defined]

        def visit_body(body, cls: Optional[Cls], outer: Optional[Fn]):
            for st in body:
                if isinstance(st, (ast.FunctionDef, ast.AsyncFunctionDef)):
                    fn = Fn(mod, cls if outer is None else None, st, outer)
                    if outer is None and cls is not None:
                        # keep the first definition under the plain name; overloads
                        # (typing.overload stubs) are recorded under name#k
                        if st.name in cls.methods:
                            prev = cls.methods[st.name]
                            if any("overload" in d for d in prev.decorators):
                                cls.methods[st.name] = fn
                        else:
                            cls.methods[st.name] = fn
                    elif outer is None and cls is None:
                        mod.functions[st.name] = fn
                    self.fns.append(fn)
                    self._mark_fn(st, fn)
                    visit_body(st.body, None, fn)
                elif isinstance(st, ast.ClassDef) and outer is None:
                    c = Cls(mod, st)
                    mod.classes[st.name] = c
                    if st.name in self.classes:
                        # the class table is keyed by bare name: a second class of the same name is tolerated only when
                        # neither is part of the rule / scope / diagnostics hierarchies the rules reason about (e.g. two
                        # small NamedTuples of the same name in sibling modules); the first one stays in the table
                        prev = self.classes[st.name]
                        plain = lambda k: all(b_ in ("NamedTuple", "object", "Enum", "TypedDict") for b_ in k.bases) or not k.bases  # noqa: E731
                        if not (plain(prev) and plain(c)):
                            raise AnalysisError(f"class name {st.name} defined twice "
                                                f"({prev.mod.rel}, {mod.rel})")
                        self.duplicate_classes = getattr(self, "duplicate_classes", []) + [c.key]
                    else:
                        self.classes[st.name] = c
                    for s2 in st.body:
                        if isinstance(s2, ast.Assign) and len(s2.targets) == 1 and isinstance(s2.targets[0], ast.Name):
                            c.attrs[s2.targets[0].id] = s2.value
                            c.attr_nodes[s2.targets[0].id] = s2
                        elif isinstance(s2, ast.AnnAssign) and isinstance(s2.target, ast.Name) and s2.value is not None:
                            c.attrs[s2.target.id] = s2.value
                            c.attr_nodes[s2.target.id] = s2
                    visit_body(st.body, c, None)
                elif isinstance(st, (ast.If, ast.Try, ast.With, ast.For, ast.While)) and outer is not None:
                    # nested defs inside compound statements of a function
                    for field in ("body", "orelse", "finalbody"):
                        visit_body(getattr(st, field, []) or [], None, outer)
                    for h in getattr(st, "handlers", []) or []:
                        visit_body(h.body, None, outer)

        visit_body(mod.tree.body, None, None)
        for st in mod.tree.body:
            if isinstance(st, ast.ImportFrom) and st.module:
                for a in st.names:
                    mod.imports[a.asname or a.name] = (st.module, a.name)
            elif isinstance(st, ast.Import):
                for a in st.names:
                    mod.imports[a.asname or a.name.split(".")[0]] = (a.name, None)
            elif isinstance(st, ast.Assign):
                for t in st.targets:
                    if isinstance(t, ast.Name):
                        mod.assigns.setdefault(t.id, []).append(st.value)
            elif isinstance(st, ast.AnnAssign) and isinstance(st.target, ast.Name) and st.value is not None:
                mod.assigns.setdefault(st.target.id, []).append(st.value)
            elif isinstance(st, ast.AugAssign) and isinstance(st.target, ast.Name):
                mod.assigns.setdefault(st.target.id, []).append(st)  # marks "not a single constant"

    def _mark_fn(self, fnode, fn: Fn):
        # innermost function wins: mark, then nested defs re-mark their own subtree
        for n in ast.walk(fnode):
            n._sa_fn = fn                       # type: ignore[attr-defined]

    def finalize(self):
        # re-mark so that the innermost function owns each node
        for fn in sorted(self.fns, key=lambda f: f.qual.count(".<locals>.")):
            for n in ast.walk(fn.node):
                n._sa_fn = fn                   # type: ignore[attr-defined]
        for fn in self.fns:
            self.fn_by_key[fn.key] = fn
        return self

    # ------------------------------------------------------------- accessors
    def mod(self, rel: str) -> Mod:
        if rel not in self.mods:
            raise AnalysisError(f"anchor vanished: module {rel}")
        return self.mods[rel]

    def cls(self, name: str) -> Cls:
        if name not in self.classes:
            raise AnalysisError(f"anchor vanished: class {name}")
        return self.classes[name]

    def fn(self, key: str) -> Fn:
        """key: 'rel::Class.method' or 'rel::function'."""
        if key not in self.fn_by_key:
            raise AnalysisError(f"anchor vanished: function {key}")
        return self.fn_by_key[key]

    def method(self, clsname: str, name: str) -> Optional[Fn]:
        """Method lookup through the (name-based) MRO."""
        seen = set()
        todo = [clsname]
        while todo:
            c = todo.pop(0)
            if c in seen or c not in self.classes:
                continue
            seen.add(c)
            k = self.classes[c]
            if name in k.methods:
                return k.methods[name]
            todo.extend(k.bases)
        return None

    def is_sub(self, clsname: str, base: str) -> bool:
        seen = set()
        todo = [clsname]
        while todo:
            c = todo.pop()
            if c == base:
                return True
            if c in seen or c not in self.classes:
                continue
            seen.add(c)
            todo.extend(self.classes[c].bases)
        return False

    def subclasses(self, base: str, strict=True) -> List[Cls]:
        return [c for n, c in sorted(self.classes.items())
                if self.is_sub(n, base) and (not strict or n != base)]

    def mod_by_dotted(self, dotted: str) -> Optional[Mod]:
        for m in self.mods.values():
            if m.dotted == dotted:
                return m
        return None

    def global_home(self, mod: Mod, name: str, _depth: int = 0) -> Optional[Tuple[Mod, str]]:
        """Where the module-level *name*, as seen from module *mod*, is really bound: (defining module, name there).
        Follows ``from x import name [as alias]`` chains (also through a package ``__init__``); None when the name is
        not bound by an assignment / def / class of the analysed tree."""
        if _depth > 8:
            return None
        if name in mod.assigns or name in mod.functions or name in mod.classes:
            return mod, name
        if name in mod.imports:
            src, orig = mod.imports[name]
            if orig is None:
                return None
            m2 = self.mod_by_dotted(src)
            if m2 is not None:
                got = self.global_home(m2, orig, _depth + 1)
                if got is not None:
                    return got
            m3 = self.mod_by_dotted(src + "." + orig)      # `from package import module`
            if m3 is not None:
                return None
        return None

    def global_def(self, mod: Mod, name: str):
        """The value expression of the single module-level assignment that binds *name* as seen from *mod* (imports
        followed); None when there is none or the name is assigned more than once."""
        home = self.global_home(mod, name)
        if home is None:
            return None
        m, nm = home
        vals = m.assigns.get(nm, [])
        if len(vals) == 1 and isinstance(vals[0], ast.expr):
            return vals[0]
        return None

    def functions_in(self, rel_prefix: str) -> Iterator[Fn]:
        for fn in self.fns:
            if fn.mod.rel.startswith(rel_prefix):
                yield fn


def parent(node):
    return getattr(node, "_sa_parent", None)


def ancestors(node):
    p = parent(node)
    while p is not None:
        yield p
        p = parent(p)


def enclosing_fn(node) -> Optional[Fn]:
    return getattr(node, "_sa_fn", None)


def enclosing_stmt(node):
    n = node
    while n is not None and not isinstance(n, ast.stmt):
        n = parent(n)
    return n


def loc(node) -> str:
    mod = getattr(node, "_sa_mod", None)
    rel = mod.rel if mod else "?"
    return f"norminette/{rel}:{getattr(node, 'lineno', 0)}"


def text(node, limit=160) -> str:
    try:
        s = ast.unparse(node)
    except Exception:       # pragma: no cover
        s = repr(node)
    s = " ".join(s.split())
    return s if len(s) <= limit else s[: limit - 3] + "..."


def walk_fn(fn_node):
    """Walk the body of a function without descending into nested defs/classes."""
    _defs = (ast.FunctionDef, ast.AsyncFunctionDef, ast.ClassDef, ast.Lambda)
    todo = [s for s in fn_node.body if not isinstance(s, _defs)]
    while todo:
        n = todo.pop()
        yield n
        for ch in ast.iter_child_nodes(n):
            if isinstance(ch, (ast.FunctionDef, ast.AsyncFunctionDef, ast.ClassDef, ast.Lambda)):
                continue
            todo.append(ch)


_PROGRAM: Optional[Program] = None


def program() -> Program:
    global _PROGRAM
    if _PROGRAM is None:
        _PROGRAM = Program().finalize()
    return _PROGRAM
