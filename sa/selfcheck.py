"""setup_cmd: parse the tree, verify floors and the uniqueness / non-aliasing of
the helper choke points the resolver relies on.  Builds nothing."""
from __future__ import annotations

import ast

from .calls import callgraph
from .facts import catalogue, emission_sites, registry_model
from .model import AnalysisError, program, walk_fn

CHOKE_POINTS = {
    "peek_token": "Context", "check_token": "Context", "new_error": "Context", "new_warning": "Context",
    "pop_tokens": "Context", "skip_nest": "Context", "eol": "Context",
    "raw_peek": "Lexer", "line_pos": "Lexer", "get_next_token": "Lexer",
    "from_name": "Error", "add_highlight": "Error", "run_rules": "Registry",
}


def selfcheck() -> int:
    prog = program()
    rm = registry_model(prog)
    cg = callgraph(prog)
    if len(rm.primaries) < 19 or len(rm.checks) < 39:
        raise AnalysisError(f"rule floors: {len(rm.primaries)} primaries / {len(rm.checks)} checks (19 / 39)")
    # uniqueness of choke-point names
    for name, owner in CHOKE_POINTS.items():
        defs = [f for f in prog.fns if f.name == name and not any("overload" in d for d in f.decorators)]
        if len(defs) != 1 or defs[0].cls is None or defs[0].cls.name != owner:
            raise AnalysisError(f"choke point {name} must be defined exactly once, in {owner}: {[d.key for d in defs]}")
    # no aliasing: a bound method of a choke point stored in a variable
    for fn in prog.fns:
        for n in walk_fn(fn.node):
            if isinstance(n, ast.Assign) and isinstance(n.value, ast.Attribute) and n.value.attr in CHOKE_POINTS:
                raise AnalysisError(f"choke point aliased: {fn.key}: {ast.unparse(n)}")
            if isinstance(n, ast.Call) and isinstance(n.func, ast.Name) and n.func.id == "getattr" and len(n.args) >= 2 \
                    and isinstance(n.args[1], ast.Constant) and n.args[1].value in CHOKE_POINTS:
                raise AnalysisError(f"choke point reached through getattr: {fn.key}: {ast.unparse(n)}")
    # the parameter-name conventions used for receiver typing
    for fn in prog.fns:
        if "context" in fn.params and fn.cls is not None and fn.cls.name == "Context":
            raise AnalysisError(f"{fn.key}: parameter named 'context' inside Context")
    # the normalisation pre-pass (sa/inline.py) preserves behaviour on its own fixtures, and reports on this tree
    from .selftest_inline import run as inline_selftest
    try:
        n_inl = inline_selftest()
    except AssertionError as e:
        raise AnalysisError(str(e))
    # the flow evaluator (sa/lexsim.py) agrees with CPython on its own fixtures
    from .selftest_lexsim import run as lexsim_selftest
    try:
        n_sim = lexsim_selftest()
    except AssertionError as e:
        raise AnalysisError(str(e))
    for line in getattr(prog, "inline_report", []):
        print("selfcheck: inline:", line)
    cat = catalogue(prog)
    es = emission_sites(prog)
    if len(es) < 150:
        raise AnalysisError(f"only {len(es)} emission sites found (floor 150)")
    print(f"selfcheck OK: {len(prog.mods)} modules, {len(prog.classes)} classes, {len(prog.fns)} functions, "
          f"{len(rm.primaries)} primaries, {len(rm.checks)} checks, {len(cat)} catalogue codes, "
          f"{len(es)} emission sites, {len(cg.calls)} call sites ({len(cg.unresolved)} unresolved: "
          f"{sorted({ast.unparse(n.func) for _, n in cg.unresolved})}); inliner self-test {n_inl} cases, flow-evaluator self-test {n_sim} cases")
    return 0
