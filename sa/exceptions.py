"""Exception table: rule instances that fire on code which is nevertheless
correct because of a precondition established elsewhere.  One named construct
per entry, with the reason; where cheap the reason is re-validated on every run
(``validate`` returns True when the reason still holds).  These are *not*
known findings: the repository is right, the rule is path-insensitive.
An entry whose construct no longer exists suppresses nothing."""
from __future__ import annotations

from typing import Any, Callable, Dict, List, Optional

TABLE: List[Dict[str, Any]] = []


def add(prop: str, rule: str, key: str, reason: str, validate: Optional[Callable[[], bool]] = None):
    TABLE.append({"property": prop, "rule": rule, "key": key, "reason": reason, "validate": validate})


def match(prop: str, o) -> Optional[Dict[str, Any]]:
    for e in TABLE:
        if e["property"] == prop and e["rule"] == o["rule"] and e["key"] == o["key"]:
            v = e.get("validate")
            if v is not None:
                try:
                    if not v():
                        return None
                except Exception:
                    return None
            return e
    return None


def unused(prop: str, used) -> List[Dict[str, Any]]:
    return [e for e in TABLE if e["property"] == prop and not any(u is e for u in used)]


# --------------------------------------------------------------------------- C05 R-5.4
def _prog():
    from .model import program
    return program()


def _slot_guarantees_comment() -> bool:
    """CheckCommentLineLen runs only after IsComment matched, and IsComment.run returns True only
    under check_token(i, [MULT_COMMENT, COMMENT]) is True."""
    import ast
    from .facts import registry_model
    from .model import walk_fn, text
    prog = _prog()
    rm = registry_model(prog)
    if set(rm.live_slots("CheckCommentLineLen")) != {"IsComment"}:
        return False
    run = prog.method("IsComment", "run")
    for n in walk_fn(run.node):
        if isinstance(n, ast.Return) and isinstance(n.value, ast.Tuple) and text(n.value.elts[0]) == "True":
            p = n
            ok = False
            while p is not None and p is not run.node:
                from .model import parent
                q = parent(p)
                if isinstance(q, ast.If) and any(p is s for s in q.body) and "COMMENT" in text(q.test) and "is True" in text(q.test):
                    ok = True
                p = q
            if not ok:
                return False
    return True


def _define_raises_unless_rparen() -> bool:
    import ast
    from .model import walk_fn, text
    prog = _prog()
    fn = prog.method("IsPreprocessorStatement", "check_define")
    if fn is None:
        return False
    for n in walk_fn(fn.node):
        if isinstance(n, ast.If) and "RPARENTHESIS" in text(n.test) and text(n.test).startswith("not ") \
                and n.body and isinstance(n.body[0], ast.Raise) and "CParsingError" in text(n.body[0]):
            return True
    return False


def _include_raises_unless_more_than() -> bool:
    import ast
    from .model import walk_fn, text
    prog = _prog()
    cp = prog.method("IsPreprocessorStatement", "_check_path")
    ci = prog.method("IsPreprocessorStatement", "check_include")
    if cp is None or ci is None:
        return False
    a = any(isinstance(n, ast.If) and text(n.test) == "not context.check_token(index, 'MORE_THAN')"
            and n.body and isinstance(n.body[0], ast.Return) and text(n.body[0].value).startswith("(False")
            for n in walk_fn(cp.node))
    b = any(isinstance(n, ast.If) and text(n.test).startswith("not ") and n.body and isinstance(n.body[0], ast.Raise)
            for n in walk_fn(ci.node))
    return a and b


add("C05", "R-5.4", "rules/check_comment_line_len.py::CheckCommentLineLen.run::while[kinds=COMMENT,MULT_COMMENT]",
    "infeasible: the check runs only in slot IsComment, whose primary matched a COMMENT/MULT_COMMENT token at the start "
    "of the statement, so the scan finds it before the end of the token list", _slot_guarantees_comment)
add("C05", "R-5.4", "rules/check_preprocessor_define.py::CheckPreprocessorDefine.run::while[kinds=RPARENTHESIS]",
    "infeasible: IsPreprocessorStatement.check_define raises CParsingError unless the macro parameter list is closed by "
    "RPARENTHESIS, so the statement this check sees contains one", _define_raises_unless_rparen)
add("C05", "R-5.4", "rules/check_preprocessor_include.py::CheckPreprocessorInclude.run::while[kinds=MORE_THAN]",
    "infeasible: IsPreprocessorStatement.check_include raises unless _check_path found MORE_THAN (or a STRING, handled by "
    "the other branch)", _include_raises_unless_more_than)
