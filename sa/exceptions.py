"""Exception table: rule instances that fire on code which is nevertheless
correct because of a precondition established elsewhere.  One named construct
per entry, with the reason; where cheap the reason is re-validated on every run
(``validate`` returns True when the reason still holds).  These are *not*
known findings: the repository is right, the rule is path-insensitive.
An entry whose construct no longer exists suppresses nothing."""
from __future__ import annotations

from typing import Any, Callable, Dict, List, Optional

TABLE: List[Dict[str, Any]] = []


def add(prop: str, rule: str, key: str, reason: str, validate: Optional[Callable[[], bool]] = None):
    TABLE.append({"property": prop, "rule": rule, "key": key, "reason": reason, "validate": validate})


def match(prop: str, o) -> Optional[Dict[str, Any]]:
    for e in TABLE:
        if e["property"] == prop and e["rule"] == o["rule"] and e["key"] == o["key"]:
            v = e.get("validate")
            if v is not None:
                try:
                    if not v():
                        return None
                except Exception:
                    return None
            return e
    return None


def unused(prop: str, used) -> List[Dict[str, Any]]:
    return [e for e in TABLE if e["property"] == prop and not any(u is e for u in used)]
