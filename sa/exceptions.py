"""Exception table: rule instances that fire on code which is nevertheless
correct because of a precondition established elsewhere.  One named construct
per entry, with the reason; where cheap the reason is re-validated on every run
(``validate`` returns True when the reason still holds).  These are *not*
known findings: the repository is right, the rule is path-insensitive.
An entry whose construct no longer exists suppresses nothing."""
from __future__ import annotations

from typing import Any, Callable, Dict, List, Optional

TABLE: List[Dict[str, Any]] = []


def add(prop: str, rule: str, key: str, reason: str, validate: Optional[Callable[[], bool]] = None):
    TABLE.append({"property": prop, "rule": rule, "key": key, "reason": reason, "validate": validate})


def match(prop: str, o) -> Optional[Dict[str, Any]]:
    for e in TABLE:
        if e["property"] == prop and e["rule"] == o["rule"] and e["key"] == o["key"]:
            v = e.get("validate")
            if v is not None:
                try:
                    if not v():
                        return None
                except Exception:
                    return None
            return e
    return None


def unused(prop: str, used) -> List[Dict[str, Any]]:
    return [e for e in TABLE if e["property"] == prop and not any(u is e for u in used)]


# --------------------------------------------------------------------------- C05 R-5.4
def _prog():
    from .model import program
    return program()


def _slot_guarantees_comment() -> bool:
    """CheckCommentLineLen runs only after IsComment matched, and IsComment.run returns True only
    under check_token(i, [MULT_COMMENT, COMMENT]) is True."""
    import ast
    from .facts import registry_model
    from .model import walk_fn, text
    prog = _prog()
    rm = registry_model(prog)
    if set(rm.live_slots("CheckCommentLineLen")) != {"IsComment"}:
        return False
    run = prog.method("IsComment", "run")
    for n in walk_fn(run.node):
        if isinstance(n, ast.Return) and isinstance(n.value, ast.Tuple) and text(n.value.elts[0]) == "True":
            p = n
            ok = False
            while p is not None and p is not run.node:
                from .model import parent
                q = parent(p)
                if isinstance(q, ast.If) and any(p is s for s in q.body) and "COMMENT" in text(q.test) and "is True" in text(q.test):
                    ok = True
                p = q
            if not ok:
                return False
    return True


def _skip_signature(fn, upto_line=None):
    """Keyword arguments of the successive context.skip_ws(...) calls of a function, in source order."""
    import ast
    from .model import walk_fn, text
    calls = [n for n in walk_fn(fn.node) if isinstance(n, ast.Call) and text(n.func) == "context.skip_ws"]
    calls.sort(key=lambda c: (c.lineno, c.col_offset))
    if upto_line is not None:
        calls = [c for c in calls if c.lineno <= upto_line]
    return [sorted((k.arg, text(k.value)) for k in c.keywords) for c in calls]


def _same_navigation(check_cls: str, n_skips: int) -> bool:
    """The dependent check walks `# <ws> directive <ws> argument` with the same skip_ws flags as the primary
    (otherwise a layout the primary accepts - e.g. a comment between the directive and its argument - puts the
    check's index on another token than the one the primary validated)."""
    import ast
    from .model import walk_fn, text
    prog = _prog()
    prim = prog.method("IsPreprocessorStatement", "run")
    chk = prog.method(check_cls, "run")
    if prim is None or chk is None:
        return False
    disp = [n for n in walk_fn(prim.node) if isinstance(n, ast.Call) and isinstance(n.func, ast.Name) and n.func.id == "checker"]
    if not disp:
        return False
    a = _skip_signature(prim, disp[0].lineno)
    b = _skip_signature(chk)
    if check_cls == "CheckPreprocessorProtection" and len(b) >= 3:
        # its third skip in source order belongs to the #endif branch; the one in front of the macro name is the last
        b = b[:2] + [b[-1]]
    return len(a) >= n_skips and len(b) >= n_skips and a[:n_skips] == b[:n_skips]


def _define_raises_unless_rparen() -> bool:
    import ast
    from .model import walk_fn, text
    prog = _prog()
    fn = prog.method("IsPreprocessorStatement", "check_define")
    if fn is None:
        return False
    for n in walk_fn(fn.node):
        if isinstance(n, ast.If) and "RPARENTHESIS" in text(n.test) and text(n.test).startswith("not ") \
                and n.body and isinstance(n.body[0], ast.Raise) and "CParsingError" in text(n.body[0]):
            return _same_navigation("CheckPreprocessorDefine", 3)
    return False


def _include_raises_unless_more_than() -> bool:
    import ast
    from .model import walk_fn, text
    prog = _prog()
    cp = prog.method("IsPreprocessorStatement", "_check_path")
    ci = prog.method("IsPreprocessorStatement", "check_include")
    if cp is None or ci is None:
        return False
    a = any(isinstance(n, ast.If) and text(n.test) == "not context.check_token(index, 'MORE_THAN')"
            and n.body and isinstance(n.body[0], ast.Return) and text(n.body[0].value).startswith("(False")
            for n in walk_fn(cp.node))
    b = any(isinstance(n, ast.If) and text(n.test).startswith("not ") and n.body and isinstance(n.body[0], ast.Raise)
            for n in walk_fn(ci.node))
    return a and b and _same_navigation("CheckPreprocessorInclude", 3)


add("C05", "R-5.4", "rules/check_comment_line_len.py::CheckCommentLineLen.run::while[kinds=COMMENT,MULT_COMMENT]",
    "infeasible: the check runs only in slot IsComment, whose primary matched a COMMENT/MULT_COMMENT token at the start "
    "of the statement, so the scan finds it before the end of the token list", _slot_guarantees_comment)
add("C05", "R-5.4", "rules/check_preprocessor_define.py::CheckPreprocessorDefine.run::while[kinds=RPARENTHESIS]",
    "infeasible: IsPreprocessorStatement.check_define raises CParsingError unless the macro parameter list is closed by "
    "RPARENTHESIS, so the statement this check sees contains one", _define_raises_unless_rparen)
add("C05", "R-5.4", "rules/check_preprocessor_include.py::CheckPreprocessorInclude.run::while[kinds=MORE_THAN]",
    "infeasible: IsPreprocessorStatement.check_include raises unless _check_path found MORE_THAN (or a STRING, handled by "
    "the other branch)", _include_raises_unless_more_than)


# --------------------------------------------------------------------------- C08 R-8.1 (dead emission sites)
def _check_prefix_dead() -> bool:
    """new_error("") in CheckOperatorsSpacing.check_prefix sits under check_token(pos, [TAB, SPACE]); its only
    caller passes the index it has just tested against p_operators, which contains neither TAB nor SPACE."""
    import ast
    from .calls import callgraph
    from .fold import fold_name
    from .model import walk_fn, text, ancestors
    prog = _prog()
    fn = prog.method("CheckOperatorsSpacing", "check_prefix")
    if fn is None:
        return False
    em = [n for n in walk_fn(fn.node) if isinstance(n, ast.Call) and text(n.func) == "context.new_error"
          and n.args and isinstance(n.args[0], ast.Constant) and n.args[0].value == ""]
    if len(em) != 1:
        return False
    guard = [a for a in ancestors(em[0]) if isinstance(a, ast.If)]
    if not guard or "context.check_token(pos, ['TAB', 'SPACE'])" not in text(guard[0].test):
        return False
    sites = callgraph(prog).sites.get(fn.key, [])
    if len(sites) != 1:
        return False
    call = sites[0].node
    arg = text(call.args[1]) if len(call.args) > 1 else None
    g2 = [a for a in ancestors(call) if isinstance(a, ast.If)]
    if not g2 or text(g2[0].test) != f"context.check_token({arg}, p_operators) is True":
        return False
    pops = fold_name("p_operators", fn.mod)
    return not ({"TAB", "SPACE"} & set(pops))


def _expected_brace_dead() -> bool:
    """CheckBrace runs only after IsBlockStart / IsBlockEnd, both of which matched LBRACE / RBRACE at skip_ws(0)."""
    from .facts import registry_model
    from .model import text
    prog = _prog()
    rm = registry_model(prog)
    if not set(rm.live_slots("CheckBrace")) <= {"IsBlockStart", "IsBlockEnd"}:
        return False
    for cname, kind in (("IsBlockStart", "LBRACE"), ("IsBlockEnd", "RBRACE")):
        run = prog.method(cname, "run")
        body = [s for s in run.node.body if not (hasattr(s, "value") and isinstance(getattr(s, "value", None), __import__("ast").Constant))]
        if len(body) < 2:
            return False
        if not text(body[0]).startswith("i = context.skip_ws(0"):
            return False
        if text(body[1]).split(":")[0] != f"if context.check_token(i, '{kind}') is False":
            return False
    cb = prog.method("CheckBrace", "run")
    src = text(cb.node, 2000)
    return "i = context.skip_ws(i, nl=False)" in src and "if context.check_token(i, ['RBRACE', 'LBRACE']) is False:" in src


def _forbidden_in_header_dead() -> bool:
    """The guard `history[-1] not in allowed_in_header` is false in every live slot of CheckInHeader."""
    from .facts import registry_model
    from .fold import fold_name
    prog = _prog()
    rm = registry_model(prog)
    allowed = set(fold_name("allowed_in_header", prog.mod("rules/check_in_header.py")))
    slots = set(rm.live_slots("CheckInHeader"))
    return bool(slots) and slots <= allowed


add("C08", "R-8.1", "rules/check_operators_spacing.py::CheckOperatorsSpacing.check_prefix::emit[]",
    "dead site: guard check_token(pos, [TAB, SPACE]) contradicts the caller's check_token(i, p_operators) on the same index",
    _check_prefix_dead)
add("C08", "R-8.1", "rules/check_brace.py::CheckBrace.run::emit[EXPECTED_BRACE]",
    "dead site: both slots of CheckBrace matched LBRACE/RBRACE at the same skip_ws(0) position", _expected_brace_dead)
add("C08", "R-8.1", "rules/check_in_header.py::CheckInHeader.run::emit[FORBIDDEN_IN_HEADER]",
    "dead site: every live slot of CheckInHeader is in allowed_in_header", _forbidden_in_header_dead)


# --------------------------------------------------------------------------- C05 R-5.9
def _var_declaration_ids_filled() -> bool:
    """IsVarDeclaration.var_declaration: `ids[-1]` follows `if identifier is False or ...: return`, and every
    `identifier = True` sits in a suite that also appends to ids (directly, or through the backward scan of the
    parenthesis group that parenthesis_contain classified as function / pointer / var, all of which it only
    returns after meeting an IDENTIFIER inside the group)."""
    import ast
    from .model import walk_fn, text, parent
    prog = _prog()
    fn = prog.method("IsVarDeclaration", "var_declaration")
    if fn is None:
        return False
    guard = [n for n in walk_fn(fn.node) if isinstance(n, ast.If) and text(n.test).startswith("identifier is False")
             and n.body and isinstance(n.body[-1], ast.Return)]
    if not guard:
        return False
    sets = [n for n in walk_fn(fn.node) if isinstance(n, ast.Assign) and text(n.targets[0]) == "identifier" and text(n.value) == "True"]
    if not sets:
        return False
    for s in sets:
        blk = parent(s)
        body = [b for f in ("body", "orelse") for b in (getattr(blk, f, []) or []) if any(x is s for x in (getattr(blk, f, []) or []))]
        suite = getattr(blk, "body", []) if any(x is s for x in getattr(blk, "body", [])) else getattr(blk, "orelse", [])
        if not any("ids.append(" in text(x, 4000) for x in suite):
            return False
    # the default of the parameter is False and no call site passes it
    from .calls import callgraph
    for c in callgraph(prog).sites.get(fn.key, []):
        if isinstance(c.node, ast.Call) and (len(c.node.args) > 2 or any(k.arg == "identifier" for k in c.node.keywords)):
            return False
    d = fn.node.args.defaults
    return bool(d) and text(d[-1]) == "False"


add("C05", "R-5.9", "rules/is_var_declaration.py::IsVarDeclaration.var_declaration::index[ids[-1]]",
    "infeasible: the access follows `if identifier is False ...: return`, and `identifier` only becomes True in suites "
    "that also append the identifier token(s) to ids", _var_declaration_ids_filled)
