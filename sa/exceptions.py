"""Exception table: rule instances that fire on code which is nevertheless
correct because of a precondition established elsewhere.  One named construct
per entry, with the reason; where cheap the reason is re-validated on every run
(``validate`` returns True when the reason still holds).  These are *not*
known findings: the repository is right, the rule is path-insensitive.
An entry whose construct no longer exists suppresses nothing."""
from __future__ import annotations

from typing import Any, Callable, Dict, List, Optional

TABLE: List[Dict[str, Any]] = []


def add(prop: str, rule: str, key: str, reason: str, validate: Optional[Callable[[], bool]] = None):
    TABLE.append({"property": prop, "rule": rule, "key": key, "reason": reason, "validate": validate})


def match(prop: str, o) -> Optional[Dict[str, Any]]:
    for e in TABLE:
        if e["property"] == prop and e["rule"] == o["rule"] and e["key"] == o["key"]:
            v = e.get("validate")
            if v is not None:
                try:
                    if not v():
                        return None
                except Exception:
                    return None
            return e
    return None


def unused(prop: str, used) -> List[Dict[str, Any]]:
    return [e for e in TABLE if e["property"] == prop and not any(u is e for u in used)]


# --------------------------------------------------------------------------- C05 R-5.4
def _prog():
    from .model import program
    return program()


def _slot_guarantees_comment() -> bool:
    """CheckCommentLineLen runs only after IsComment matched, and IsComment.run returns True only
    under check_token(i, [MULT_COMMENT, COMMENT]) is True (decided on the CFG: rules/c05.validate_comment_slot)."""
    from .rules.c05 import validate_comment_slot
    return validate_comment_slot(_prog())


def _skip_signature(fn, upto_line=None):
    """Keyword arguments of the successive context.skip_ws(...) calls of a function, in source order."""
    import ast
    from .model import walk_fn, text
    calls = [n for n in walk_fn(fn.node) if isinstance(n, ast.Call) and text(n.func) == "context.skip_ws"]
    calls.sort(key=lambda c: (c.lineno, c.col_offset))
    if upto_line is not None:
        calls = [c for c in calls if c.lineno <= upto_line]
    return [sorted((k.arg, text(k.value)) for k in c.keywords) for c in calls]


def _same_navigation(check_cls: str, n_skips: int) -> bool:
    """The dependent check walks `# <ws> directive <ws> argument` with the same skip_ws flags as the primary
    (otherwise a layout the primary accepts - e.g. a comment between the directive and its argument - puts the
    check's index on another token than the one the primary validated)."""
    import ast
    from .model import walk_fn, text
    prog = _prog()
    prim = prog.method("IsPreprocessorStatement", "run")
    chk = prog.method(check_cls, "run")
    if prim is None or chk is None:
        return False
    disp = [n for n in walk_fn(prim.node) if isinstance(n, ast.Call) and isinstance(n.func, ast.Name) and n.func.id == "checker"]
    if not disp:
        return False
    a = _skip_signature(prim, disp[0].lineno)
    b = _skip_signature(chk)
    if check_cls == "CheckPreprocessorProtection" and len(b) >= 3:
        # its third skip in source order belongs to the #endif branch; the one in front of the macro name is the last
        b = b[:2] + [b[-1]]
    if not (len(a) >= n_skips and len(b) >= n_skips and a[:n_skips - 1] == b[:n_skips - 1]):
        return False
    # in front of the argument: what the primary skips -- its own last skip plus the leading skips of the directive's
    # handler (and of the helper that validates the argument) -- must be what the check skips there
    def flags(sig):
        return {k for k, v in sig if v == "True"}
    prim_last = flags(a[n_skips - 1])
    handlers = {"CheckPreprocessorDefine": ["check_define"], "CheckPreprocessorInclude": ["check_include", "_check_path"],
                "CheckPreprocessorProtection": ["check_ifndef", "_just_identifier"]}.get(check_cls, [])
    for hname in handlers:
        h = prog.method("IsPreprocessorStatement", hname)
        if h is None:
            continue
        first_test = min([n.lineno for n in walk_fn(h.node) if isinstance(n, ast.Call) and text(n.func) == "context.check_token"]
                         or [10 ** 9])
        for sig in _skip_signature(h, first_test):
            prim_last |= flags(sig)
    return prim_last == flags(b[n_skips - 1])


def _define_raises_unless_rparen() -> bool:
    from .rules.c05 import validate_define_rparen
    return validate_define_rparen(_prog()) and _same_navigation("CheckPreprocessorDefine", 3)


def _include_raises_unless_more_than() -> bool:
    from .rules.c05 import validate_include_more_than
    return validate_include_more_than(_prog()) and _same_navigation("CheckPreprocessorInclude", 3)


add("C05", "R-5.4", "rules/check_comment_line_len.py::CheckCommentLineLen.run::while[kinds=COMMENT,MULT_COMMENT]",
    "infeasible: the check runs only in slot IsComment, whose primary matched a COMMENT/MULT_COMMENT token at the start "
    "of the statement, so the scan finds it before the end of the token list", _slot_guarantees_comment)
add("C05", "R-5.4", "rules/check_preprocessor_define.py::CheckPreprocessorDefine.run::while[kinds=RPARENTHESIS]",
    "infeasible: IsPreprocessorStatement.check_define raises CParsingError unless the macro parameter list is closed by "
    "RPARENTHESIS, so the statement this check sees contains one", _define_raises_unless_rparen)
add("C05", "R-5.4", "rules/check_preprocessor_include.py::CheckPreprocessorInclude.run::while[kinds=MORE_THAN]",
    "infeasible: IsPreprocessorStatement.check_include raises unless _check_path found MORE_THAN (or a STRING, handled by "
    "the other branch)", _include_raises_unless_more_than)


# --------------------------------------------------------------------------- C08 R-8.1 (dead emission sites)
def _check_prefix_dead_via_table(prog, fn, need, site) -> bool:
    """Same argument when the call goes through a table of rows `(kinds, ..., handler)` scanned by
    `for kinds, ..., handler in TABLE: if context.check_token(i, kinds) is True ...: handler(self, context, i)`: for the rows
    whose handler is check_prefix, the kinds column must be disjoint from the kinds the dead site needs."""
    import ast
    from .calls import _table_display, _fn_of_value
    from .fold import fold_in_fn
    from .model import ancestors, text
    call, caller = site.node, site.caller
    loop = next((a for a in ancestors(call) if isinstance(a, ast.For) and isinstance(a.target, (ast.Tuple, ast.List))), None)
    if loop is None or not isinstance(call.func, ast.Name):
        return False
    cols = [x.id if isinstance(x, ast.Name) else None for x in loop.target.elts]
    if call.func.id not in cols:
        return False
    hcol = cols.index(call.func.id)
    disp, owner = _table_display(prog, caller, loop.iter)
    if not isinstance(disp, (ast.Tuple, ast.List)):
        return False
    # the dominating test check_token(<index>, <kinds column>) is True, on the index that is passed as the handler's position
    params = [p for p in fn.params if p not in ("self", "cls")]
    args = list(call.args)
    if args and isinstance(args[0], ast.Name) and args[0].id in ("self", "cls"):
        args = args[1:]
    guards = [a for a in ancestors(call) if isinstance(a, ast.If)]
    kcol = None
    for f in need:
        pname = f.subject[1]
        if pname not in params or params.index(pname) >= len(args):
            continue
        idx_text = text(args[params.index(pname)])
        for gd in guards:
            for n in ast.walk(gd.test):
                if isinstance(n, ast.Compare) and len(n.ops) == 1 and isinstance(n.ops[0], ast.Is) and text(n.comparators[0]) == "True" \
                        and isinstance(n.left, ast.Call) and text(n.left.func).endswith("check_token") and len(n.left.args) == 2 \
                        and text(n.left.args[0]) == idx_text and isinstance(n.left.args[1], ast.Name) and n.left.args[1].id in cols:
                    kcol = cols.index(n.left.args[1].id)
        if kcol is None:
            return False
        for row in disp.elts:
            if not isinstance(row, (ast.Tuple, ast.List)) or len(row.elts) <= max(hcol, kcol):
                return False
            if _fn_of_value(prog, caller, owner, row.elts[hcol]) is fn:
                kinds = fold_in_fn(row.elts[kcol], caller, default=None)
                if not isinstance(kinds, (list, tuple, set, frozenset)) or (set(kinds) & set(f.items)):
                    return False
        return True
    return False


def _check_prefix_dead_via_kind_dict(prog, fn, need) -> bool:
    """Same argument when the handler is selected from a dictionary keyed by token kind:
    `checkers = {**dict.fromkeys(KINDS, self.handler), KIND: self.other, ...}` and
    `checker = checkers.get(context.peek_token(i).type)` / `checkers[...]`, then `checker(context, i)`: the kinds that map to the
    handler must be disjoint from the kinds the dead site needs, and the index looked up must be the one passed on."""
    import ast
    from .fold import fold_in_fn
    from .model import text, walk_fn
    if fn.cls is None:
        return False
    params = [p for p in fn.params if p not in ("self", "cls")]
    for caller in fn.cls.methods.values():
        for d in walk_fn(caller.node):
            if not isinstance(d, ast.Dict):
                continue
            kinds, refers = set(), False
            for k, v in zip(d.keys, d.values):
                def is_handler(e):
                    return isinstance(e, ast.Attribute) and e.attr == fn.name and isinstance(e.value, ast.Name) and e.value.id in ("self", "cls")
                if k is None:
                    if isinstance(v, ast.Call) and text(v.func) == "dict.fromkeys" and len(v.args) == 2 and is_handler(v.args[1]):
                        ks = fold_in_fn(v.args[0], caller, default=None)
                        if not isinstance(ks, (list, tuple, set, frozenset, str)):
                            return False
                        kinds |= set(ks)
                        refers = True
                elif is_handler(v):
                    kv = fold_in_fn(k, caller, default=None)
                    if not isinstance(kv, str):
                        return False
                    kinds.add(kv)
                    refers = True
            if not refers:
                continue
            # the dictionary's name, the look-ups on it keyed by `<ctx>.peek_token(I).type`, and the calls of their results
            par = getattr(d, "_sa_parent", None)
            if not (isinstance(par, ast.Assign) and len(par.targets) == 1 and isinstance(par.targets[0], ast.Name)):
                return False
            dname = par.targets[0].id
            ok_calls = 0
            for n in walk_fn(caller.node):
                look = None
                if isinstance(n, ast.Call) and isinstance(n.func, ast.Attribute) and n.func.attr == "get" and text(n.func.value) == dname and n.args:
                    look = n.args[0]
                elif isinstance(n, ast.Subscript) and text(n.value) == dname:
                    look = n.slice
                if look is None:
                    continue
                if not (isinstance(look, ast.Attribute) and look.attr == "type" and isinstance(look.value, ast.Call)
                        and text(look.value.func).endswith("peek_token") and len(look.value.args) == 1):
                    return False
                idx_text = text(look.value.args[0])
                holder = getattr(n, "_sa_parent", None)
                names = set()
                if isinstance(holder, ast.NamedExpr):
                    names.add(holder.target.id)
                elif isinstance(holder, ast.Assign) and len(holder.targets) == 1 and isinstance(holder.targets[0], ast.Name):
                    names.add(holder.targets[0].id)
                direct = holder if isinstance(holder, ast.Call) and holder.func is n else None
                calls = [c for c in walk_fn(caller.node) if isinstance(c, ast.Call) and isinstance(c.func, ast.Name) and c.func.id in names]
                if direct is not None:
                    calls.append(direct)
                for c in calls:
                    for f in need:
                        pname = f.subject[1]
                        if pname not in params or params.index(pname) >= len(c.args) or text(c.args[params.index(pname)]) != idx_text:
                            return False
                        if kinds & set(f.items):
                            return False
                    ok_calls += 1
            return ok_calls > 0
    return False


def _check_prefix_dead() -> bool:
    """new_error("") in CheckOperatorsSpacing.check_prefix executes only if check_token(pos, K1) is true for K1 = {TAB, SPACE};
    at its only call site the same index has just been tested `check_token(i, K2) is True` with K2 (p_operators) disjoint
    from K1.  Decided on the CFGs with symbolic indices (sa/deadsite.py), not on source text."""
    import ast
    from .calls import callgraph
    from .deadsite import Sym, emission_nodes, facts_at
    prog = _prog()
    fn = prog.method("CheckOperatorsSpacing", "check_prefix")
    if fn is None:
        return False
    em = emission_nodes(fn, "")
    if len(em) != 1:
        return False
    need = [f for f in facts_at(prog, fn, em[0]) if f.kind == "check" and f.outcomes == frozenset({True}) and f.subject[0] == "param"]
    if not need:
        return False
    sites = [c for c in callgraph(prog).sites.get(fn.key, []) if isinstance(c.node, ast.Call)]
    if len(sites) == 1 and getattr(sites[0], "how", "") == "dynamic:table":
        return _check_prefix_dead_via_table(prog, fn, need, sites[0]) or _check_prefix_dead_via_kind_dict(prog, fn, need)
    if len(sites) != 1:
        return _check_prefix_dead_via_kind_dict(prog, fn, need)
    call, caller = sites[0].node, sites[0].caller
    params = [p for p in fn.params if p not in ("self", "cls")]
    sym = Sym(prog, caller)
    cfacts = facts_at(prog, caller, call)
    for f in need:
        pname = f.subject[1]
        if pname not in params or params.index(pname) >= len(call.args):
            continue
        arg = call.args[params.index(pname)]
        aval, _ = sym.value(arg, sym.node_of(call))
        for g in cfacts:
            if g.kind == "check" and g.subject == aval and g.outcomes == frozenset({True}) and not (g.items & f.items):
                return True
    return False


def _expected_brace_dead() -> bool:
    """CheckBrace.run emits EXPECTED_BRACE only if check_token(S, K') is False; every live slot of CheckBrace is a primary
    whose run can report a match only after check_token(S, K) was True or None for the same symbolic position S
    (skip_ws(0, nl=False, comment=False)) and a K included in K'.  Decided on the CFGs (sa/deadsite.py)."""
    from .deadsite import contradicts_guarantee, emission_nodes, facts_at, true_return_facts
    from .facts import registry_model
    prog = _prog()
    rm = registry_model(prog)
    cb = prog.method("CheckBrace", "run")
    slots = rm.live_slots("CheckBrace")
    if cb is None or not slots or any(s not in rm.primary_names for s in slots):
        return False
    em = emission_nodes(cb, "EXPECTED_BRACE")
    if not em:
        return False
    for e in em:
        site = facts_at(prog, cb, e)
        for s in slots:
            prim = prog.method(s, "run")
            if prim is None or not contradicts_guarantee(site, true_return_facts(prog, prim)):
                return False
    return True


def _forbidden_in_header_dead() -> bool:
    """CheckInHeader.run emits FORBIDDEN_IN_HEADER only if `context.history[-1] in <collection>` is false, and every live
    slot of CheckInHeader (= the primary that has just been appended to the history) is in that collection."""
    from .deadsite import emission_nodes, facts_at
    from .facts import registry_model
    prog = _prog()
    rm = registry_model(prog)
    fn = prog.method("CheckInHeader", "run")
    slots = set(rm.live_slots("CheckInHeader"))
    if fn is None or not slots:
        return False
    em = emission_nodes(fn, "FORBIDDEN_IN_HEADER")
    if not em:
        return False
    for e in em:
        ok = False
        for f in facts_at(prog, fn, e):
            if f.kind == "member" and f.outcomes == frozenset({False}) and "history[-1]" in str(f.subject[-1]) and slots <= set(f.items):
                ok = True
        if not ok:
            return False
    return True


add("C08", "R-8.1", "rules/check_operators_spacing.py::CheckOperatorsSpacing.check_prefix::emit[]",
    "dead site: guard check_token(pos, [TAB, SPACE]) contradicts the caller's check_token(i, p_operators) on the same index",
    _check_prefix_dead)
add("C08", "R-8.1", "rules/check_brace.py::CheckBrace.run::emit[EXPECTED_BRACE]",
    "dead site: both slots of CheckBrace matched LBRACE/RBRACE at the same skip_ws(0) position", _expected_brace_dead)
add("C08", "R-8.1", "rules/check_in_header.py::CheckInHeader.run::emit[FORBIDDEN_IN_HEADER]",
    "dead site: every live slot of CheckInHeader is in allowed_in_header", _forbidden_in_header_dead)


# --------------------------------------------------------------------------- C05 R-5.9
def _var_declaration_ids_filled() -> bool:
    """IsVarDeclaration.var_declaration: `ids[-1]` follows `if identifier is False or ...: return`, and every
    `identifier = True` sits in a suite that also appends to ids (directly, or through the backward scan of the
    parenthesis group that parenthesis_contain classified as function / pointer / var, all of which it only
    returns after meeting an IDENTIFIER inside the group).  Decided by rules/c05.validate_var_declaration_ids
    (the names of the list and of the flag are discovered, not spelled)."""
    from .rules.c05 import validate_var_declaration_ids
    return validate_var_declaration_ids(_prog())


add("C05", "R-5.9", "rules/is_var_declaration.py::IsVarDeclaration.var_declaration::index[ids[-1]]",
    "infeasible: the access follows `if identifier is False ...: return`, and `identifier` only becomes True in suites "
    "that also append the identifier token(s) to ids", _var_declaration_ids_filled)
