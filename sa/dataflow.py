"""Small dataflow analyses over the statement CFG."""
from __future__ import annotations

import ast
from typing import Dict, List, Optional, Set, Tuple

from .cfg import CFG, Node


def target_names(t) -> List[str]:
    if isinstance(t, ast.Name):
        return [t.id]
    if isinstance(t, (ast.Tuple, ast.List)):
        out = []
        for e in t.elts:
            out += target_names(e)
        return out
    if isinstance(t, ast.Starred):
        return target_names(t.value)
    return []


def _walrus_names(e) -> List[str]:
    out = []
    if e is None:
        return out
    for n in ast.walk(e):
        if isinstance(n, ast.NamedExpr) and isinstance(n.target, ast.Name):
            out.append(n.target.id)
    return out


def binds(node: Node, label: Optional[str]) -> Set[str]:
    """Names bound when control leaves *node* through an edge labelled *label*."""
    a = node.ast
    out: Set[str] = set()
    if a is None:
        return out
    if node.kind == "stmt":
        if isinstance(a, ast.Assign):
            for t in a.targets:
                out.update(target_names(t))
            out.update(_walrus_names(a.value))
        elif isinstance(a, (ast.AugAssign, ast.AnnAssign)):
            if not (isinstance(a, ast.AnnAssign) and a.value is None):
                out.update(target_names(a.target))
        elif isinstance(a, (ast.Import, ast.ImportFrom)):
            for al in a.names:
                out.add((al.asname or al.name).split(".")[0])
        elif isinstance(a, (ast.FunctionDef, ast.AsyncFunctionDef, ast.ClassDef)):
            out.add(a.name)
        elif isinstance(a, (ast.Expr, ast.Return)):
            out.update(_walrus_names(a.value))
        elif isinstance(a, ast.Delete):
            pass
    elif node.kind == "test":
        # walrus in a condition binds on both outcomes only if evaluated unconditionally;
        # conservatively: names bound in the leftmost operand
        e = a
        while isinstance(e, ast.BoolOp):
            e = e.values[0]
        if isinstance(e, ast.UnaryOp):
            e = e.operand
        out.update(_walrus_names(e))
        if isinstance(a, ast.BoolOp) and isinstance(a.op, ast.And) and label == "T":
            out.update(_walrus_names(a))
    elif node.kind == "iter":
        if label == "T":
            out.update(target_names(a.target))
    elif node.kind == "with":
        for it in a.items:
            if it.optional_vars is not None:
                out.update(target_names(it.optional_vars))
    elif node.kind == "handler":
        if a.name:
            out.add(a.name)
    return out


def unbinds(node: Node) -> Set[str]:
    a = node.ast
    if node.kind == "stmt" and isinstance(a, ast.Delete):
        out = set()
        for t in a.targets:
            out.update(target_names(t))
        return out
    return set()


def definitely_assigned(g: CFG, params: List[str]) -> Dict[int, Set[str]]:
    """nid -> names definitely bound on entry to the node (intersection over
    all incoming edges, exceptional ones included; an exceptional edge leaving a
    node does not carry that node's own bindings)."""
    universe: Set[str] = set(params)
    for n in g.nodes:
        for lab in (None, "T", "F"):
            universe |= binds(n, lab)
    IN: Dict[int, Set[str]] = {n.id: set(universe) for n in g.nodes}
    IN[g.entry] = set(params)
    changed = True
    order = [n.id for n in g.nodes]
    while changed:
        changed = False
        for nid in order:
            if nid == g.entry:
                continue
            preds = g.pred[nid]
            if not preds:
                continue
            acc: Optional[Set[str]] = None
            for p, lab in preds:
                pn = g.nodes[p]
                o = set(IN[p])
                if lab != "exc":
                    o |= binds(pn, lab)
                o -= unbinds(pn)
                acc = o if acc is None else (acc & o)
            if acc is not None and acc != IN[nid]:
                IN[nid] = acc
                changed = True
    return IN


def reaching_definitions(g: CFG, params: List[str]) -> Dict[int, Dict[str, Set[int]]]:
    """nid -> name -> set of defining node ids reaching the *entry* of nid
    (-1 stands for "parameter / not assigned in this function")."""
    IN: Dict[int, Dict[str, Set[int]]] = {n.id: {} for n in g.nodes}
    IN[g.entry] = {p: {-1} for p in params}
    changed = True
    while changed:
        changed = False
        for n in g.nodes:
            nid = n.id
            if nid == g.entry:
                continue
            acc: Dict[str, Set[int]] = {}
            for p, lab in g.pred[nid]:
                pn = g.nodes[p]
                o = {k: set(v) for k, v in IN[p].items()}
                if lab != "exc":
                    for name in binds(pn, lab):
                        o[name] = {p}
                for k, v in o.items():
                    acc.setdefault(k, set()).update(v)
            if acc != IN[nid]:
                IN[nid] = acc
                changed = True
    return IN


def names_loaded(e, exclude_comprehension_locals=True) -> Set[str]:
    """Free names read by expression *e* (comprehension-bound names excluded)."""
    bound: Set[str] = set()
    if exclude_comprehension_locals:
        for n in ast.walk(e):
            if isinstance(n, ast.comprehension):
                bound.update(target_names(n.target))
            elif isinstance(n, ast.Lambda):
                bound.update(a.arg for a in n.args.args)
    return {n.id for n in ast.walk(e) if isinstance(n, ast.Name) and isinstance(n.ctx, ast.Load)} - bound


# ------------------------------------------------------------------ local aliases (reaching definitions)
# `history = context.history; last = history[-1]; scope = context.scope`: a local that is bound, by the single definition
# reaching a use, to a side-effect-free path expression denotes that expression at the use -- provided nothing the
# expression is built from was rebound / stored / mutated in between.  Rules that recognise an expression by its
# spelling call expand_aliases() first, so that introducing (or removing) such locals does not change what they see.
_RD_CACHE: Dict[int, tuple] = {}
_LIST_MUTATORS = {"append", "extend", "insert", "pop", "remove", "clear", "sort", "reverse", "update", "add", "discard",
                  "setdefault", "popitem"}


def _rd_of(fn):
    from .cfg import cfg_of
    k = id(fn.node)
    if k not in _RD_CACHE:
        g = cfg_of(fn)
        _RD_CACHE[k] = (g, reaching_definitions(g, fn.params))
    return _RD_CACHE[k]


def cfg_node_of(g: CFG, e) -> Optional[int]:
    """The CFG node in which expression / statement *e* is evaluated."""
    n = e
    while n is not None:
        nid = g.nid(n)
        if nid is not None:
            return nid
        if isinstance(n, (ast.FunctionDef, ast.AsyncFunctionDef, ast.Lambda)):
            return None
        n = getattr(n, "_sa_parent", None)
    return None


def is_path(e) -> bool:
    """Name, attribute chain, or element with a constant index of one: re-evaluating it is free of side effects."""
    if isinstance(e, ast.Name):
        return True
    if isinstance(e, ast.Attribute):
        return is_path(e.value)
    if isinstance(e, ast.Subscript):
        s = e.slice
        const = isinstance(s, ast.Constant) or (isinstance(s, ast.UnaryOp) and isinstance(s.op, ast.USub)
                                                and isinstance(s.operand, ast.Constant))
        return const and is_path(e.value)
    return False


def _bound_by_expression(name_node) -> bool:
    """Is the name a comprehension variable / lambda parameter at this occurrence?"""
    n = getattr(name_node, "_sa_parent", None)
    while n is not None and not isinstance(n, ast.stmt):
        if isinstance(n, (ast.ListComp, ast.SetComp, ast.GeneratorExp, ast.DictComp)):
            for gen in n.generators:
                if name_node.id in target_names(gen.target):
                    return True
        if isinstance(n, ast.Lambda):
            a = n.args
            if name_node.id in [x.arg for x in a.posonlyargs + a.args + a.kwonlyargs]:
                return True
        n = getattr(n, "_sa_parent", None)
    return False


def _subpaths(e) -> Set[str]:
    out = set()
    x = e
    while isinstance(x, (ast.Attribute, ast.Subscript)):
        out.add(ast.unparse(x))
        x = x.value
    return out


def resolve_local(fn, name_node, accept=is_path):
    """The expression the local variable read at *name_node* (an ast.Name, Load) stands for, or None.

    Exactly one definition reaches the use, it is a plain ``name = <expr>`` with *accept*(<expr>) true, every name of
    <expr> has the same reaching definitions at the definition and at the use, and no statement on a path between the two
    stores into / deletes / calls a mutating method on a (sub-)path of <expr>."""
    if not isinstance(name_node, ast.Name) or not isinstance(name_node.ctx, ast.Load) or _bound_by_expression(name_node):
        return None
    g, RD = _rd_of(fn)
    use = cfg_node_of(g, name_node)
    if use is None:
        return None
    defs = RD.get(use, {}).get(name_node.id)
    if not defs or len(defs) != 1:
        return None
    d = next(iter(defs))
    if d < 0 or d == use:
        return None
    dn = g.nodes[d]
    a = dn.ast
    value = None
    if dn.kind == "stmt" and isinstance(a, ast.Assign) and len(a.targets) == 1 and isinstance(a.targets[0], ast.Name) \
            and a.targets[0].id == name_node.id:
        value = a.value
    elif dn.kind == "stmt" and isinstance(a, ast.AnnAssign) and isinstance(a.target, ast.Name) and a.target.id == name_node.id:
        value = a.value
    if value is None or not accept(value):
        return None
    for nm in ast.walk(value):
        if isinstance(nm, ast.Name) and RD.get(d, {}).get(nm.id, set()) != RD.get(use, {}).get(nm.id, set()):
            return None
    paths = _subpaths(value)
    # containers of which the value reads an element: storing into / mutating them changes what the value denotes
    roots = {ast.unparse(s_.value) for s_ in ast.walk(value) if isinstance(s_, ast.Subscript)}
    if paths:
        between = None
        for n in g.nodes:
            s = n.ast
            if n.kind != "stmt" or s is None or n.id == d:
                continue
            hit = False
            if isinstance(s, (ast.Assign, ast.AugAssign, ast.AnnAssign, ast.Delete)):
                tg = s.targets if isinstance(s, (ast.Assign, ast.Delete)) else [s.target]
                for t in tg:
                    for sub in ast.walk(t):
                        if isinstance(sub, (ast.Attribute, ast.Subscript)) and isinstance(sub.ctx, (ast.Store, ast.Del)):
                            # a store to  P  or to an element / slice of  P  where P is a (sub-)path of the value
                            if ast.unparse(sub) in paths or (isinstance(sub, ast.Subscript) and ast.unparse(sub.value) in roots):
                                hit = True
            if not hit:
                for c in ast.walk(s):
                    if isinstance(c, ast.Call) and isinstance(c.func, ast.Attribute) and c.func.attr in _LIST_MUTATORS \
                            and ast.unparse(c.func.value) in roots:
                        hit = True
            if hit:
                if between is None:
                    between = g.reachable(d, follow_exc=False)
                if n.id in between and (n.id == use or g.can_reach(n.id, use, follow_exc=False)):
                    return None
    return value


def _clone(n, mapping):
    if id(n) in mapping:
        return mapping[id(n)]
    new = n.__class__()
    for f, v in ast.iter_fields(n):
        if isinstance(v, list):
            setattr(new, f, [_clone(x, mapping) if isinstance(x, ast.AST) else x for x in v])
        elif isinstance(v, ast.AST):
            setattr(new, f, _clone(v, mapping))
        else:
            setattr(new, f, v)
    for a in ("lineno", "col_offset", "end_lineno", "end_col_offset"):
        if hasattr(n, a):
            setattr(new, a, getattr(n, a))
    return new


def expand_aliases(fn, e, accept=is_path, _depth=0):
    """*e* with every local alias (see resolve_local) replaced by the expression it stands for, transitively.  Returns
    *e* itself when there is nothing to replace (parent pointers stay usable); otherwise a detached copy."""
    if e is None or _depth > 6:
        return e
    mapping = {}
    for n in ast.walk(e):
        if isinstance(n, ast.Name) and isinstance(n.ctx, ast.Load):
            v = resolve_local(fn, n, accept)
            if v is not None:
                mapping[id(n)] = expand_aliases(fn, v, accept, _depth + 1)
    if not mapping:
        return e
    return _clone(e, mapping)


def uses_reached(fn, def_node, name: str):
    """Load occurrences of *name* in fn that the binding made at *def_node* (a statement / for / comprehension-free
    construct with a CFG node) may reach, in source order of the CFG walk; None when the definition has no CFG node
    (caller falls back on positions)."""
    from .model import walk_fn
    g, rd = _rd_of(fn)
    d = cfg_node_of(g, def_node)
    if d is None:
        return None
    out = []
    for u in walk_fn(fn.node):
        if isinstance(u, ast.Name) and u.id == name and isinstance(u.ctx, ast.Load) and not _bound_by_expression(u):
            at = cfg_node_of(g, u)
            if at is None or d in rd.get(at, {}).get(name, set()):
                out.append(u)
    return out
