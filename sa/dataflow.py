"""Small dataflow analyses over the statement CFG."""
from __future__ import annotations

import ast
from typing import Dict, List, Optional, Set, Tuple

from .cfg import CFG, Node


def target_names(t) -> List[str]:
    if isinstance(t, ast.Name):
        return [t.id]
    if isinstance(t, (ast.Tuple, ast.List)):
        out = []
        for e in t.elts:
            out += target_names(e)
        return out
    if isinstance(t, ast.Starred):
        return target_names(t.value)
    return []


def _walrus_names(e) -> List[str]:
    out = []
    if e is None:
        return out
    for n in ast.walk(e):
        if isinstance(n, ast.NamedExpr) and isinstance(n.target, ast.Name):
            out.append(n.target.id)
    return out


def binds(node: Node, label: Optional[str]) -> Set[str]:
    """Names bound when control leaves *node* through an edge labelled *label*."""
    a = node.ast
    out: Set[str] = set()
    if a is None:
        return out
    if node.kind == "stmt":
        if isinstance(a, ast.Assign):
            for t in a.targets:
                out.update(target_names(t))
            out.update(_walrus_names(a.value))
        elif isinstance(a, (ast.AugAssign, ast.AnnAssign)):
            if not (isinstance(a, ast.AnnAssign) and a.value is None):
                out.update(target_names(a.target))
        elif isinstance(a, (ast.Import, ast.ImportFrom)):
            for al in a.names:
                out.add((al.asname or al.name).split(".")[0])
        elif isinstance(a, (ast.FunctionDef, ast.AsyncFunctionDef, ast.ClassDef)):
            out.add(a.name)
        elif isinstance(a, (ast.Expr, ast.Return)):
            out.update(_walrus_names(a.value))
        elif isinstance(a, ast.Delete):
            pass
    elif node.kind == "test":
        # walrus in a condition binds on both outcomes only if evaluated unconditionally;
        # conservatively: names bound in the leftmost operand
        e = a
        while isinstance(e, ast.BoolOp):
            e = e.values[0]
        if isinstance(e, ast.UnaryOp):
            e = e.operand
        out.update(_walrus_names(e))
        if isinstance(a, ast.BoolOp) and isinstance(a.op, ast.And) and label == "T":
            out.update(_walrus_names(a))
    elif node.kind == "iter":
        if label == "T":
            out.update(target_names(a.target))
    elif node.kind == "with":
        for it in a.items:
            if it.optional_vars is not None:
                out.update(target_names(it.optional_vars))
    elif node.kind == "handler":
        if a.name:
            out.add(a.name)
    return out


def unbinds(node: Node) -> Set[str]:
    a = node.ast
    if node.kind == "stmt" and isinstance(a, ast.Delete):
        out = set()
        for t in a.targets:
            out.update(target_names(t))
        return out
    return set()


def definitely_assigned(g: CFG, params: List[str]) -> Dict[int, Set[str]]:
    """nid -> names definitely bound on entry to the node (intersection over
    all incoming edges, exceptional ones included; an exceptional edge leaving a
    node does not carry that node's own bindings)."""
    universe: Set[str] = set(params)
    for n in g.nodes:
        for lab in (None, "T", "F"):
            universe |= binds(n, lab)
    IN: Dict[int, Set[str]] = {n.id: set(universe) for n in g.nodes}
    IN[g.entry] = set(params)
    changed = True
    order = [n.id for n in g.nodes]
    while changed:
        changed = False
        for nid in order:
            if nid == g.entry:
                continue
            preds = g.pred[nid]
            if not preds:
                continue
            acc: Optional[Set[str]] = None
            for p, lab in preds:
                pn = g.nodes[p]
                o = set(IN[p])
                if lab != "exc":
                    o |= binds(pn, lab)
                o -= unbinds(pn)
                acc = o if acc is None else (acc & o)
            if acc is not None and acc != IN[nid]:
                IN[nid] = acc
                changed = True
    return IN


def reaching_definitions(g: CFG, params: List[str]) -> Dict[int, Dict[str, Set[int]]]:
    """nid -> name -> set of defining node ids reaching the *entry* of nid
    (-1 stands for "parameter / not assigned in this function")."""
    IN: Dict[int, Dict[str, Set[int]]] = {n.id: {} for n in g.nodes}
    IN[g.entry] = {p: {-1} for p in params}
    changed = True
    while changed:
        changed = False
        for n in g.nodes:
            nid = n.id
            if nid == g.entry:
                continue
            acc: Dict[str, Set[int]] = {}
            for p, lab in g.pred[nid]:
                pn = g.nodes[p]
                o = {k: set(v) for k, v in IN[p].items()}
                if lab != "exc":
                    for name in binds(pn, lab):
                        o[name] = {p}
                for k, v in o.items():
                    acc.setdefault(k, set()).update(v)
            if acc != IN[nid]:
                IN[nid] = acc
                changed = True
    return IN


def names_loaded(e, exclude_comprehension_locals=True) -> Set[str]:
    """Free names read by expression *e* (comprehension-bound names excluded)."""
    bound: Set[str] = set()
    if exclude_comprehension_locals:
        for n in ast.walk(e):
            if isinstance(n, ast.comprehension):
                bound.update(target_names(n.target))
            elif isinstance(n, ast.Lambda):
                bound.update(a.arg for a in n.args.args)
    return {n.id for n in ast.walk(e) if isinstance(n, ast.Name) and isinstance(n.ctx, ast.Load)} - bound
