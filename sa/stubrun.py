"""Run the ``run()`` of one rule class of the analysed tree on a *stub context* with the analyser's own interpreter
(minieval): synthetic token lists, a stub scope, a recording ``new_error``.  Nothing of norminette is imported; the ASTs
of the rule's methods and of the ``Context`` helpers they call (peek_token, check_token, skip_ws, skip_nest ...) are
interpreted.  Free module-level names are folded *in the module of the function being interpreted* (the same name may mean
different tables in context.py and in a rule module).

Used by rules that state a behaviour instead of a shape: "LINE_TOO_LONG is emitted iff a token starts beyond column 81",
"the expected guard symbol for foo.h is FOO_H" ...  Anything outside the interpreter's subset raises
``minieval.Unsupported`` -- the caller falls back on its syntactic form or reports ANALYSIS-ERROR, never a pass.
"""
from __future__ import annotations

import ast
from typing import Any, Dict, List, Optional, Sequence, Tuple

from .fold import Unknown, fold_name
from .minieval import Evaluator, Obj, Raised, Unsupported
from .model import Program

SCOPE_NAMES = ("GlobalScope", "Function", "ControlStructure", "UserDefinedType", "UserDefinedEnum", "VariableAssignation",
               "Scope")

RUNTIME_ERRORS = (Raised, LookupError, TypeError, ValueError, AttributeError, ArithmeticError, RecursionError, StopIteration,
                  AssertionError, NameError)


class _TypeToken:
    """Stands for a class object in `type(x) is GlobalScope` / `isinstance` free comparisons."""

    def __init__(self, name):
        self.__name__ = name
        self.name = name

    def __repr__(self):
        return f"<class {self.name}>"


def tok(kind: str, line: int = 1, col: int = 1, value: Optional[str] = None) -> Obj:
    return Obj("Token", type=kind, pos=(line, col), value=value)


def line_tokens(kinds: Sequence, line: int = 1, col: int = 1) -> List[Obj]:
    """Tokens laid out on one line: each item is a kind or (kind, text); widths: text length, else 1 (TAB: to next stop)."""
    out = []
    for k in kinds:
        kind, text = (k, None) if isinstance(k, str) else k
        out.append(tok(kind, line, col, text))
        if kind == "NEWLINE":
            line, col = line + 1, 1
        elif kind == "TAB":
            col += 4 - (col - 1) % 4
        else:
            col += len(text) if text else 1
    return out


class ModuleAwareEvaluator(Evaluator):
    max_call_depth = 40

    def __init__(self, prog: Program, *a, **kw):
        super().__init__(*a, **kw)
        self.prog = prog
        self._node_mod = {id(fn.node): fn.mod for fn in prog.fns}
        self._mods = []
        self.lookup = self._lookup
        self.types: Dict[str, _TypeToken] = {}

    def type_token(self, name: str) -> _TypeToken:
        if name not in self.types:
            self.types[name] = _TypeToken(name)
        return self.types[name]

    def call_function(self, fnode, args):
        m = self._node_mod.get(id(fnode))
        self._mods.append(m)
        try:
            return super().call_function(fnode, args)
        finally:
            self._mods.pop()

    def call(self, e, env):
        # a module-level function of the analysed tree (plain, or memoised with functools.lru_cache / cache, which is
        # transparent for the value): interpreted like a method
        f = e.func
        if isinstance(f, ast.Name) and f.id not in env and f.id not in self.globals and f.id not in self.functions \
                and f.id not in self.classes:
            mod = next((m for m in reversed(self._mods) if m is not None), None)
            home = self.prog.global_home(mod, f.id) if mod is not None else None
            fn = home[0].functions.get(home[1]) if home is not None else None
            if fn is not None and all(ast.unparse(d.func if isinstance(d, ast.Call) else d).split(".")[-1] in ("lru_cache", "cache")
                                      for d in fn.node.decorator_list) and self._depth_ok():
                args = []
                for a in e.args:
                    if isinstance(a, ast.Starred):
                        args.extend(list(self.iterate(self.expr(a.value, env))))
                    else:
                        args.append(self.expr(a, env))
                kwargs = {k.arg: self.expr(k.value, env) for k in e.keywords if k.arg is not None}
                if any(k.arg is None for k in e.keywords):
                    raise Unsupported("** in a call of a module-level function")
                return self.invoke(fn.node, args, kwargs)
        if isinstance(f, ast.Name) and isinstance(env.get(f.id), _TypeToken) and env[f.id].name in SCOPE_NAMES:
            # `sub(self)` in Scope.inner: a scope class handed over as a value is instantiated with its parent
            args = [self.expr(a, env) for a in e.args]
            parent = args[0] if args and isinstance(args[0], Obj) else None
            return make_scope(env[f.id].name, parent)
        return super().call(e, env)

    def _depth_ok(self) -> bool:
        return len(self._mods) < self.max_call_depth

    def _lookup(self, name):
        mod = next((m for m in reversed(self._mods) if m is not None), None)
        if mod is None:
            return None
        home = self.prog.global_home(mod, name) if hasattr(self.prog, "global_home") else None
        if home is not None and home[1] in home[0].classes:
            return None
        try:
            v = fold_name(name, mod)
        except Unknown:
            # not a constant of plain values (a table that maps names to classes of the tree, ...): the single expression it
            # is bound to is evaluated in place, class names standing for the classes
            hm = home[0] if home is not None else mod
            vals = hm.assigns.get(home[1] if home is not None else name, [])
            if len(vals) == 1 and isinstance(vals[0], ast.expr):
                return vals[0]
            return None
        try:
            return ast.parse(repr(v), mode="eval").body
        except SyntaxError:
            return None

    def expr(self, e, env):
        # class objects of the analysed tree used as values (`type(scope) is GlobalScope`, `scope = (GlobalScope, ...)`)
        if isinstance(e, ast.Name) and e.id not in env and e.id not in self.globals and e.id in self.prog.classes \
                and e.id not in self.classes:
            return self.type_token(e.id)
        if isinstance(e, ast.Attribute) and isinstance(e.value, ast.Name) and e.value.id not in env and e.value.id in self.prog.classes \
                and _is_enum_class(self.prog, e.value.id) and e.attr in self.prog.classes[e.value.id].attrs:
            return _enum_member(e.value.id, e.attr)           # HeaderState.PARSED: one object per member, compared with `is` / ==
        if isinstance(e, ast.Attribute) and e.attr == "__class__":
            base = self.expr(e.value, env)
            if isinstance(base, Obj) and "__class__" not in base.__dict__:
                return self.type_token(base._cls)
        if isinstance(e, ast.Attribute) and e.attr in ("__name__", "__qualname__"):
            base = self.expr(e.value, env)
            if isinstance(base, _TypeToken):
                return base.name
        return super().expr(e, env)

    def _isinstance(self, v, texpr) -> bool:
        ts = texpr.elts if isinstance(texpr, ast.Tuple) else [texpr]
        for t in ts:
            nm = ast.unparse(t).split(".")[-1]
            if isinstance(v, Obj) and nm in self.prog.classes and v._cls in self.prog.classes and self.prog.is_sub(v._cls, nm):
                return True
        return super()._isinstance(v, texpr)


_ENUM_MEMBERS: Dict[tuple, Obj] = {}


def _is_enum_class(prog: Program, name: str) -> bool:
    c = prog.classes.get(name)
    return c is not None and any(b.split(".")[-1] in ("Enum", "IntEnum", "StrEnum", "Flag") for b in c.bases)


def _enum_member(cls: str, name: str) -> Obj:
    key = (cls, name)
    if key not in _ENUM_MEMBERS:
        _ENUM_MEMBERS[key] = Obj(cls, name=name, value=name, _enum=True)
    return _ENUM_MEMBERS[key]


class StubContext:
    """A stub Context + recorder.  attrs override / extend the defaults."""

    def __init__(self, prog: Program, tokens: List[Obj], history: Sequence[str] = ("IsEmptyLine",), scope: str = "GlobalScope",
                 scope_attrs: Optional[Dict[str, Any]] = None, basename: str = "file.c", tkn_scope: Optional[int] = None,
                 **attrs):
        self.prog = prog
        self.emitted: List[Tuple[str, Any]] = []
        self.positions: List[Any] = []          # pos of the highlighted token at emission time
        sc = make_scope(scope, **(scope_attrs or {}))
        name, _, ext = basename.rpartition(".")
        f = Obj("File", basename=basename, name=name, type="." + ext, path="/stub/" + basename, errors=Obj("Errors", _seq=[]))
        pre = Obj("PreProcessors", indent=0, _indent=0, macros=[], includes=[], total_ifs=0, total_elifs=0, total_elses=0,
                  skip_define=False)
        d = dict(tokens=list(tokens), tkn_scope=len(tokens) if tkn_scope is None else tkn_scope, history=list(history), scope=sc,
                 file=f, errors=f.errors, debug=0, header_started=False, header_parsed=False, header="", func_alignment=0,
                 sub=None, fname_pos=0, arg_pos=[0, 0], protected=False, preproc=pre, state="running")
        d.update(attrs)
        self.obj = Obj("Context", **d)

    def codes(self) -> List[str]:
        return [c for c, _ in self.emitted]


def make_scope(name: str = "GlobalScope", parent: Optional[Obj] = None, **attrs) -> Obj:
    d = dict(parent=parent, name=name, lvl=(parent.lvl + 1) if parent is not None else 0,
             indent=(parent.indent + 1) if parent is not None else 0, lines=0, instructions=0, vdeclarations_allowed=False,
             vars=0, vars_name=[], vars_alignment=0, func_alignment=0, fdeclarations_allowed=False, multiline=False,
             header_protection=-1, tmp_scope=None, include_allowed=False, functions=0, fnames=[], typedef=False)
    d.update(attrs)
    return Obj(name, **d)


def evaluator_for(prog: Program, cls_name: str, sc: StubContext, max_steps: int = 200000) -> ModuleAwareEvaluator:
    methods: Dict[tuple, Any] = {}
    # the rule's own methods and those of its bases (Rule / Check / Primary helpers such as is_starting)
    seen = set()
    todo = [cls_name]
    while todo:
        c = todo.pop(0)
        if c in seen or c not in prog.classes:
            continue
        seen.add(c)
        for n, m in prog.classes[c].methods.items():
            methods.setdefault((cls_name, n), m.node)
        todo.extend(prog.classes[c].bases)
    for owner in ("Context", "PreProcessors", "Token"):
        if owner in prog.classes:
            for n, m in prog.classes[owner].methods.items():
                methods[(owner, n)] = m.node
    for s in SCOPE_NAMES:
        if s in prog.classes:
            chain = [s]
            while chain[-1] in prog.classes and prog.classes[chain[-1]].bases:
                chain.append(prog.classes[chain[-1]].bases[0])
            for c in chain:
                if c in prog.classes:
                    for n, m in prog.classes[c].methods.items():
                        if n not in ("__eq__", "__ne__", "__init__"):
                            methods.setdefault((s, n), m.node)

    def new_error(code, tkn=None, _sc=sc, **kw):
        _sc.emitted.append((code, tkn))
        _sc.positions.append(getattr(tkn, "pos", None) if isinstance(tkn, Obj) else None)

    natives = {("Context", "new_error"): new_error, ("Context", "new_warning"): new_error,
               ("Context", "dprint"): lambda *a, **k: None}
    ev = ModuleAwareEvaluator(prog, methods, natives=natives, max_steps=max_steps)
    # record classes that rules build themselves (Macro, wherever it lives): constructed and their classmethods interpreted
    for cn, c in prog.classes.items():
        if cn not in ("Token", "Error", "Highlight", "File") and c.mod.rel not in ("errors.py", "lexer/tokens.py", "file.py") \
                and any("dataclass" in ast.unparse(d) for d in c.node.decorator_list):
            ev.classes[cn] = c.node
            for n, m in c.methods.items():
                methods.setdefault((cn, n), m.node)

    def type_(o):
        if isinstance(o, Obj):
            return ev.type_token(o._cls)
        return type(o)
    ev.globals.update({"type": type_, "print": lambda *a, **k: None, "list": list, "tuple": tuple, "set": set, "dict": dict,
                       "str": str, "repr": repr, "enumerate": lambda x, start=0: list(enumerate(ev.iterate(x), start)),
                       "reversed": lambda x: list(reversed(ev.iterate(x))), "zip": lambda *x: list(zip(*x)),
                       "abs": abs, "ord": ord, "chr": chr, "next": next, "iter": lambda x: iter(ev.iterate(x)),
                       "filter": lambda f, x: [y for y in ev.iterate(x) if (f(y) if f is not None else y)],
                       "map": lambda f, *xs: [f(*a) for a in zip(*[ev.iterate(x) for x in xs])]})
    import math as _math
    ev.modules.setdefault("math", {}).update({k: getattr(_math, k) for k in ("floor", "ceil", "trunc", "sqrt", "log", "log2", "pow", "fabs", "inf", "pi")})
    import string as _string
    ev.modules.setdefault("string", {}).update({k: getattr(_string, k) for k in ("ascii_letters", "ascii_lowercase", "ascii_uppercase", "digits",
                                                                                  "hexdigits", "octdigits", "punctuation", "whitespace", "printable")})
    ev.modules.setdefault("itertools", {}).update({
        "filterfalse": lambda f, x: iter([y for y in ev.iterate(x) if not (f(y) if f is not None else y)]),
        "chain": lambda *xs: [y for x in xs for y in ev.iterate(x)],
        "takewhile": lambda f, x: __import__("itertools").takewhile(f, ev.iterate(x)),
        "dropwhile": lambda f, x: __import__("itertools").dropwhile(f, ev.iterate(x))})
    return ev


def run_rule(prog: Program, cls_name: str, sc: StubContext, method: str = "run", extra_args: Sequence = (),
             max_steps: int = 200000):
    """Interpret <cls_name>.<method>(context, *extra_args) on the stub; returns its result.  Raises minieval.Unsupported when
    outside the subset; exceptions of the interpreted code come out as RUNTIME_ERRORS."""
    m = prog.method(cls_name, method)
    if m is None:
        raise Unsupported(f"no method {cls_name}.{method}")
    ev = evaluator_for(prog, cls_name, sc, max_steps)
    me = Obj(cls_name, context=sc.obj, name=cls_name)
    # class-level constants (own class first, then bases) are visible on the instance
    from .fold import class_constants
    seen, todo = set(), [cls_name]
    while todo:
        c = todo.pop(0)
        if c in seen or c not in prog.classes:
            continue
        seen.add(c)
        consts = class_constants(prog.classes[c])
        for a, v in consts.items():
            me.__dict__.setdefault(a, v)
        # class-level tables that mention the class's own functions (a dispatch dictionary of handlers): evaluated with those
        # names standing for callables that interpret the function (they are called with the instance passed explicitly)
        for a, val in prog.classes[c].attrs.items():
            if a in consts or a in me.__dict__ or not isinstance(val, (ast.Dict, ast.Tuple, ast.List)):
                continue
            env_c = {}
            for mn, fn_ in prog.classes[c].methods.items():
                env_c[mn] = (lambda *a_, _n=fn_.node, **k_: ev.invoke(_n, list(a_), k_))
            for a2, v2 in consts.items():
                env_c.setdefault(a2, v2)
            try:
                me.__dict__[a] = ev.expr(val, env_c)
            except (Unsupported,) + RUNTIME_ERRORS:
                pass
        todo.extend(prog.classes[c].bases)
    return ev.invoke(m.node, [me, sc.obj] + list(extra_args), {})


_NOVALUE = object()


def default_object(prog: Program, cls_name: str, sc: "StubContext", args: Sequence = ()) -> Obj:
    """An instance stub whose attributes are those the class's own __init__ (interpreted) gives it."""
    ev = evaluator_for(prog, cls_name, sc)
    me = Obj(cls_name)
    init = prog.method(cls_name, "__init__")
    if init is not None:
        ev.invoke(init.node, [me] + list(args), {})
    return me
