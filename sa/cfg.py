"""Statement-level control-flow graph for one function (syntax-directed).

Nodes
  entry / exit (normal return or falling off the end) / rexit (exception leaves)
  stmt   : a simple statement (Assign, Expr, Return, Raise, Pass, ...)
  test   : the condition of an If / While (ast = the test expression, owner = the statement)
  iter   : the "next element?" decision of a For (ast = the For statement)
  handler: entry of an except clause (ast = ExceptHandler)
  with   : the context-manager entry of a With (ast = the With statement)

Edges carry a label: None (sequential), "T"/"F" (branch outcome), "exc"
(exceptional), "brk"/"cont" are rewritten to plain edges to their targets.

Exceptional edges: every node inside a ``try`` body gets an "exc" edge to each
handler of that try (conservatively: any statement may raise anything) and,
unless a bare / ``Exception`` / ``BaseException`` handler exists, also outward
(to the enclosing try or to rexit).  Outside any try only explicit ``raise``
statements have exceptional edges (to rexit); callers that need "callee may
raise" model it themselves.
"""
from __future__ import annotations

import ast
from typing import Dict, List, Optional, Set, Tuple


class Node:
    __slots__ = ("id", "kind", "ast", "owner")

    def __init__(self, id_: int, kind: str, a=None, owner=None):
        self.id = id_
        self.kind = kind
        self.ast = a
        self.owner = owner

    def __repr__(self):
        t = ""
        if self.ast is not None:
            try:
                t = " ".join(ast.unparse(self.ast).split())[:50]
            except Exception:
                t = type(self.ast).__name__
        return f"<{self.id}:{self.kind} {t}>"


class CFG:
    def __init__(self, fn_node):
        self.fn_node = fn_node
        self.nodes: List[Node] = []
        self.succ: Dict[int, List[Tuple[int, Optional[str]]]] = {}
        self.pred: Dict[int, List[Tuple[int, Optional[str]]]] = {}
        self.entry = self._new("entry").id
        self.exit = self._new("exit").id
        self.rexit = self._new("rexit").id
        self.node_of: Dict[int, int] = {}      # id(ast stmt/test) -> node id
        _Builder(self).build()

    def _new(self, kind, a=None, owner=None) -> Node:
        n = Node(len(self.nodes), kind, a, owner)
        self.nodes.append(n)
        self.succ[n.id] = []
        self.pred[n.id] = []
        if a is not None and id(a) not in self.node_of:
            self.node_of[id(a)] = n.id
        return n

    def edge(self, a: int, b: int, label=None):
        if (b, label) not in self.succ[a]:
            self.succ[a].append((b, label))
            self.pred[b].append((a, label))

    def nid(self, a) -> Optional[int]:
        return self.node_of.get(id(a))

    # ----------------------------------------------------------- graph queries
    def reachable(self, start: Optional[int] = None, avoid: Set[int] = frozenset(),
                  follow_exc=True, edge_filter=None) -> Set[int]:
        start = self.entry if start is None else start
        seen = set()
        todo = [start]
        while todo:
            n = todo.pop()
            if n in seen or n in avoid:
                continue
            seen.add(n)
            for m, lab in self.succ[n]:
                if lab == "exc" and not follow_exc:
                    continue
                if edge_filter is not None and not edge_filter(n, m, lab):
                    continue
                todo.append(m)
        return seen

    def can_reach(self, a: int, b: int, avoid: Set[int] = frozenset(), follow_exc=True, edge_filter=None) -> bool:
        """Is there a path a -> ... -> b that does not pass *through* a node of avoid
        (a itself may be in avoid; b may not)."""
        seen = set()
        todo = [m for m, lab in self.succ[a]
                if (follow_exc or lab != "exc") and (edge_filter is None or edge_filter(a, m, lab))]
        while todo:
            n = todo.pop()
            if n == b:
                return True
            if n in seen or n in avoid:
                continue
            seen.add(n)
            for m, lab in self.succ[n]:
                if lab == "exc" and not follow_exc:
                    continue
                if edge_filter is not None and not edge_filter(n, m, lab):
                    continue
                todo.append(m)
        return False

    def dominators(self, follow_exc=True) -> Dict[int, Set[int]]:
        nodes = sorted(self.reachable(follow_exc=follow_exc))
        dom = {n: set(nodes) for n in nodes}
        dom[self.entry] = {self.entry}
        changed = True
        while changed:
            changed = False
            for n in nodes:
                if n == self.entry:
                    continue
                ps = [p for p, lab in self.pred[n] if p in dom and (follow_exc or lab != "exc")]
                if not ps:
                    new = {n}
                else:
                    new = set.intersection(*(dom[p] for p in ps)) | {n}
                if new != dom[n]:
                    dom[n] = new
                    changed = True
        return dom

    def dominates(self, a: int, b: int, follow_exc=True) -> bool:
        """Every path entry -> b passes through a  <=>  b unreachable when a is removed."""
        if a == b:
            return True
        return b not in self.reachable(self.entry, avoid={a}, follow_exc=follow_exc)

    def stmts(self):
        for n in self.nodes:
            if n.kind == "stmt":
                yield n


_CATCH_ALL = {"Exception", "BaseException"}


class _Frame:
    def __init__(self, kind, **kw):
        self.kind = kind
        self.__dict__.update(kw)


class _Builder:
    def __init__(self, g: CFG):
        self.g = g
        self.loops: List[Tuple[int, List]] = []     # (continue target, break dangling list)
        self.trys: List[_Frame] = []                # active try frames (innermost last)

    def build(self):
        g = self.g
        out = self.seq(g.fn_node.body, [(g.entry, None)])
        for p, lab in out:
            g.edge(p, g.exit, lab)

    # dangling: list of (node id, label) whose successor is the next thing built
    def connect(self, dangling, nid):
        for p, lab in dangling:
            self.g.edge(p, nid, lab)

    def exc_targets(self) -> List[int]:
        """Where an exception raised here may go (handler entries / finally / rexit)."""
        targets = []
        for fr in reversed(self.trys):
            if fr.kind == "body":
                targets.extend(fr.handlers)
                if fr.final is not None:
                    targets.append(fr.final)
                    return targets
                if fr.catch_all:
                    return targets
            elif fr.kind in ("handler", "orelse"):
                if fr.final is not None:
                    targets.append(fr.final)
                    return targets
        targets.append(self.g.rexit)
        return targets

    def add_exc(self, nid, force=False):
        if self.trys or force:
            for t in self.exc_targets():
                self.g.edge(nid, t, "exc")

    def seq(self, stmts, dangling):
        for st in stmts:
            dangling = self.stmt(st, dangling)
        return dangling

    def stmt(self, st, dangling):
        g = self.g
        if isinstance(st, ast.If):
            t = g._new("test", st.test, st)
            self.connect(dangling, t.id)
            self.add_exc(t.id)
            out = self.seq(st.body, [(t.id, "T")])
            out += self.seq(st.orelse, [(t.id, "F")]) if st.orelse else [(t.id, "F")]
            return out
        if isinstance(st, ast.While):
            t = g._new("test", st.test, st)
            self.connect(dangling, t.id)
            self.add_exc(t.id)
            brk: List = []
            self.loops.append((t.id, brk))
            body_out = self.seq(st.body, [(t.id, "T")])
            self.loops.pop()
            self.connect(body_out, t.id)
            const_true = isinstance(st.test, ast.Constant) and bool(st.test.value)
            out = [] if const_true else self.seq(st.orelse, [(t.id, "F")]) if st.orelse else [(t.id, "F")]
            return out + brk
        if isinstance(st, (ast.For, ast.AsyncFor)):
            t = g._new("iter", st, st)
            self.connect(dangling, t.id)
            self.add_exc(t.id)
            brk = []
            self.loops.append((t.id, brk))
            body_out = self.seq(st.body, [(t.id, "T")])
            self.loops.pop()
            self.connect(body_out, t.id)
            out = self.seq(st.orelse, [(t.id, "F")]) if st.orelse else [(t.id, "F")]
            return out + brk
        if isinstance(st, (ast.With, ast.AsyncWith)):
            w = g._new("with", st, st)
            self.connect(dangling, w.id)
            self.add_exc(w.id)
            return self.seq(st.body, [(w.id, None)])
        if isinstance(st, ast.Try):
            return self.try_(st, dangling)
        if isinstance(st, ast.Return):
            n = g._new("stmt", st)
            self.connect(dangling, n.id)
            self.add_exc(n.id)
            fin = self.pending_finally()
            if fin is not None:
                g.edge(n.id, fin, "ret")
            else:
                g.edge(n.id, g.exit, None)
            return []
        if isinstance(st, ast.Raise):
            n = g._new("stmt", st)
            self.connect(dangling, n.id)
            for t in self.exc_targets():
                g.edge(n.id, t, "exc")
            return []
        if isinstance(st, ast.Break):
            n = g._new("stmt", st)
            self.connect(dangling, n.id)
            self.loops[-1][1].append((n.id, None))
            return []
        if isinstance(st, ast.Continue):
            n = g._new("stmt", st)
            self.connect(dangling, n.id)
            g.edge(n.id, self.loops[-1][0], None)
            return []
        if isinstance(st, ast.Match):       # not used by the tree; treated as opaque statement
            n = g._new("stmt", st)
            self.connect(dangling, n.id)
            self.add_exc(n.id)
            return [(n.id, None)]
        n = g._new("stmt", st)
        self.connect(dangling, n.id)
        self.add_exc(n.id)
        return [(n.id, None)]

    def pending_finally(self) -> Optional[int]:
        for fr in reversed(self.trys):
            if fr.final is not None:
                return fr.final
        return None

    def try_(self, st: ast.Try, dangling):
        g = self.g
        handler_nodes = [g._new("handler", h, st) for h in st.handlers]
        catch_all = any(h.type is None or (isinstance(h.type, ast.Name) and h.type.id in _CATCH_ALL)
                        for h in st.handlers)
        final_entry = None
        if st.finalbody:
            final_entry = g._new("finally", st, st).id
        fr = _Frame("body", handlers=[h.id for h in handler_nodes], final=final_entry, catch_all=catch_all)
        self.trys.append(fr)
        body_out = self.seq(st.body, dangling)
        self.trys.pop()
        # else clause runs after the body, not protected by the handlers
        fr2 = _Frame("orelse", final=final_entry)
        self.trys.append(fr2)
        if st.orelse:
            body_out = self.seq(st.orelse, body_out)
        self.trys.pop()
        outs = list(body_out)
        for h, hn in zip(st.handlers, handler_nodes):
            fr3 = _Frame("handler", final=final_entry)
            self.trys.append(fr3)
            outs += self.seq(h.body, [(hn.id, None)])
            self.trys.pop()
        if final_entry is None:
            return outs
        self.connect(outs, final_entry)
        fin_out = self.seq(st.finalbody, [(final_entry, None)])
        # after finally: normal continuation, or re-raise / return propagation
        # (conservative: both are possible when some incoming edge was exceptional / a return)
        incoming = [lab for _, lab in g.pred[final_entry]]
        for p, lab in fin_out:
            if "exc" in incoming:
                for t in self.exc_targets():
                    g.edge(p, t, "exc")
            if "ret" in incoming:
                outer = self.pending_finally()
                g.edge(p, outer if outer is not None else g.exit, "ret" if outer is not None else None)
        normal_in = [lab for lab in incoming if lab not in ("exc", "ret")]
        return fin_out if normal_in else []


_CACHE: Dict[int, CFG] = {}


def cfg_of(fn) -> CFG:
    """fn: model.Fn"""
    k = id(fn.node)
    if k not in _CACHE:
        _CACHE[k] = CFG(fn.node)
    return _CACHE[k]
