"""Role classification of reads of a token's text (shared by C17 / C18) and of
line-number reads (C19): climb from the read through string transformations,
local assignments, iteration and containers until a *sink* is reached.

Roles
  WIDTH        len(...) / .length of the text (or of a line of it)
  LITERAL      ==, !=, in, not in against folded constants            detail: the constants
  PREFIX       startswith / endswith / [:k] == const                 detail: the constants
  CLASS        isupper / islower / ...                               detail: predicate name
  CHARCLASS    each character tested `in` / `not in` an alphabet     detail: the alphabet
  STORE        appended to / stored in a container or object          detail: container text
  VARCOMPARE   compared with a non-constant value                    detail: other side
  MESSAGE      goes into an exception message or a print
  PATH         os.path.splitext / basename (include argument)
  HEADER       accumulated into context.header
  DISPATCH     selects a method through getattr(self, f"...{x}")
  TRUTH        only its truthiness / None-ness is used
  UNCLASSIFIED anything else (reported by the rules that forbid it)
"""
from __future__ import annotations

import ast
from typing import List, Optional, Set, Tuple

from .fold import fold_in_fn
from .model import Fn, ancestors, enclosing_stmt, parent, text, walk_fn

class CaseFolded(list):
    """Constants a text is compared with after its case was folded (lower / upper / casefold ...)."""
    folded = True


TRANSFORMS = {"upper", "lower", "strip", "lstrip", "rstrip", "split", "splitlines", "replace", "casefold", "title",
              "expandtabs", "encode", "rsplit", "partition", "format"}
CLASS_PREDICATES = {"isupper", "islower", "isdigit", "isalpha", "isalnum", "isidentifier", "isspace", "istitle", "isnumeric"}
MESSAGE_FUNCS = {"print", "CParsingError", "colors", "repr", "dprint"}

Role = Tuple[str, object, ast.AST]


def table_keys(fn: Fn, e) -> Optional[List[str]]:
    """Keys (dict) / elements (tuple, list, set) of a constant table reached as NAME, self.NAME, cls.NAME or Class.NAME --
    also when only the keys fold (`{"define": check_define, ...}`: a dispatch table of functions)."""
    v = fold_in_fn(e, fn, default=None)
    if isinstance(v, dict):
        ks = list(v)
    elif isinstance(v, (tuple, list, set, frozenset)):
        ks = list(v)
    else:
        disp = None
        if isinstance(e, ast.Name):
            from .model import program
            disp = program().global_def(fn.mod, e.id) if hasattr(program(), "global_def") else None
        elif isinstance(e, ast.Attribute) and isinstance(e.value, ast.Name):
            from .model import program
            prog = program()
            own = fn
            while own is not None and own.cls is None:
                own = own.outer
            cname = own.cls.name if (e.value.id in ("self", "cls") and own is not None) else e.value.id
            seen = set()
            while cname in prog.classes and cname not in seen:
                seen.add(cname)
                if e.attr in prog.classes[cname].attrs:
                    disp = prog.classes[cname].attrs[e.attr]
                    break
                bases = prog.classes[cname].bases
                cname = bases[0] if bases else None
        if isinstance(disp, ast.Dict):
            ks = [fold_in_fn(k, fn, default=None) if k is not None else None for k in disp.keys]
        elif isinstance(disp, (ast.Tuple, ast.List, ast.Set)):
            ks = [fold_in_fn(k, fn, default=None) for k in disp.elts]
        else:
            return None
    if not ks or not all(isinstance(k, str) for k in ks):
        return None
    return ks


def _loop_column(fn: Fn, name: ast.Name):
    """Values a loop variable takes when it ranges over a constant table: `for kind, prefix, code in ((..), (..))`."""
    for n in walk_fn(fn.node):
        if not isinstance(n, (ast.For, ast.comprehension)):
            continue
        tgt = n.target
        path = None
        if isinstance(tgt, ast.Name) and tgt.id == name.id:
            path = ()
        elif isinstance(tgt, (ast.Tuple, ast.List)):
            for i, e in enumerate(tgt.elts):
                if isinstance(e, ast.Name) and e.id == name.id:
                    path = (i,)
        if path is None or not (_inside(name, n) if isinstance(n, ast.For) else _inside(name, parent(n))):
            continue
        it = n.iter
        if isinstance(it, ast.Call) and isinstance(it.func, ast.Attribute) and it.func.attr == "items" and not it.args:
            table = fold_in_fn(it.func.value, fn, default=None)
            table = list(table.items()) if isinstance(table, dict) else None
        else:
            table = fold_in_fn(it, fn, default=None)
            if isinstance(table, dict):
                table = list(table)
        if not isinstance(table, (list, tuple, set, frozenset)):
            return None
        out = []
        for row in table:
            v = row
            for i in path:
                if not isinstance(v, (tuple, list)) or i >= len(v):
                    return None
                v = v[i]
            out.append(v)
        return out
    return None


def _consts(fn: Fn, e) -> Optional[List[str]]:
    v = fold_in_fn(e, fn, default=None)
    if v is None and isinstance(e, ast.Name) and getattr(e, "_sa_parent", None) is not None:
        col = _loop_column(fn, e)
        if col is not None and all(isinstance(x, (str, type(None))) for x in col):
            return [x for x in col if isinstance(x, str)]
        # prefix, code = TABLE[kind]: the column of a constant table the local is unpacked from (every binding)
        from .facts import unpacked_table_values
        acc, ok = set(), False
        for n in walk_fn(fn.node):
            if isinstance(n, ast.Assign) and any(isinstance(x, ast.Name) and x.id == e.id for t in n.targets for x in ast.walk(t)):
                got = unpacked_table_values(fn, n, e.id)
                if got is None:
                    ok = False
                    break
                acc |= got
                ok = True
        if ok:
            return sorted(acc)
    if isinstance(v, str):
        return [v]
    if isinstance(v, (tuple, list, set, frozenset)) and all(isinstance(x, (str, type(None))) for x in v):
        return [x for x in v if isinstance(x, str)]
    if isinstance(v, dict):
        return [k for k in v if isinstance(k, str)]
    return None


def _uses_of(fn: Fn, name: str, after: ast.AST) -> List[ast.Name]:
    """Load occurrences of *name* in fn located after statement *after* (or anywhere inside an enclosing loop)."""
    st = enclosing_stmt(after)
    # the uses this binding reaches (CFG): independent of source positions, which mean nothing for inlined helper bodies
    from .dataflow import uses_reached
    if isinstance(st, (ast.Assign, ast.AugAssign, ast.AnnAssign, ast.For, ast.With, ast.Expr, ast.If, ast.While, ast.Return)):
        got = uses_reached(fn, st, name)
        if got is not None:
            if isinstance(st, (ast.For, ast.While)):
                return got
            return [n for n in got if not _inside(n, st) or isinstance(after, ast.NamedExpr)]
    loops = [a for a in ancestors(after) if isinstance(a, (ast.For, ast.While))]
    out = []
    for n in walk_fn(fn.node):
        if isinstance(n, ast.Name) and n.id == name and isinstance(n.ctx, ast.Load):
            if (n.lineno, n.col_offset) > (st.lineno, st.col_offset) or any(_inside(n, l) for l in loops):
                if not _inside(n, st) or isinstance(st, (ast.For, ast.While)):
                    out.append(n)
    return out


def _inside(node, container) -> bool:
    x = node
    while x is not None:
        if x is container:
            return True
        x = parent(x)
    return False


def classify(fn: Fn, node: ast.AST, depth=0, seen=None) -> List[Role]:
    """Roles of the value of expression *node* (text of a token, or something derived from it)."""
    seen = seen if seen is not None else set()
    if id(node) in seen or depth > 12:
        return []
    seen.add(id(node))
    p = parent(node)
    if p is None:
        return [("UNCLASSIFIED", "no parent", node)]
    # a use that is only reached when the value has just been found equal to one of some constants carries no more
    # information than that comparison (classified on its own as LITERAL): whatever is done with it is a dispatch on them
    if not isinstance(p, ast.Compare):
        gc = guarded_constants(fn, node)
        if gc is not None:
            return [("LITERAL", gc, node)]
    # --- attribute / method on the text
    if isinstance(p, ast.Attribute) and p.value is node:
        gp = parent(p)
        if isinstance(gp, ast.Call) and gp.func is p:
            m = p.attr
            if m in TRANSFORMS:
                roles = classify(fn, gp, depth + 1, seen)
                preserving = m in ("upper", "lower", "casefold", "encode") or \
                    (m in ("split", "rsplit") and gp.args and fold_in_fn(gp.args[0], fn, default=None) == "\n") or m == "splitlines"
                if not preserving:
                    # the length after strip / replace / ... depends on which characters the text contains
                    roles = [(("CONTENTWIDTH", m, at) if r == "WIDTH" else (r, d, at)) for r, d, at in roles]
                if m in ("upper", "lower", "casefold", "title", "capitalize", "swapcase"):
                    # a comparison made after folding the case matches more spellings than the constant it names
                    roles = [((r, CaseFolded(d), at) if r == "LITERAL" and isinstance(d, (list, tuple, set, frozenset)) else (r, d, at))
                             for r, d, at in roles]
                return roles
            if m in ("startswith", "endswith"):
                c = _consts(fn, gp.args[0]) if gp.args else None
                return [("PREFIX", c, gp)] if c is not None else [("UNCLASSIFIED", f"{m} non-constant", gp)]
            if m in CLASS_PREDICATES:
                return [("CLASS", m, gp)]
            return [("UNCLASSIFIED", f"method {m}", gp)]
        return [("UNCLASSIFIED", f"attribute {p.attr}", p)]
    if isinstance(p, ast.Call):
        fname = text(p.func)
        if any(a is node for a in p.args) or any(k.value is node for k in p.keywords):
            if fname == "len":
                return [("WIDTH", None, p)]
            if isinstance(p.func, ast.Attribute) and p.func.attr in ("format", "join", "format_map") \
                    and not any(p.func.value is x for x in [node]):
                # "...{}...".format(text) / sep.join([... text ...]): the text flows into the resulting string
                return _joined(fn, p, depth, seen)
            if isinstance(p.func, ast.Attribute) and p.func.attr in ("get", "__contains__", "index", "count") and p.args and p.args[0] is node:
                ks = table_keys(fn, p.func.value)
                if ks is not None:
                    return [("LITERAL", ks, p)]            # a look-up in a constant table: a dispatch on its keys
            if fname in ("set", "frozenset"):
                cs = _charset_test(fn, p)
                return cs if cs is not None else classify(fn, p, depth + 1, seen)
            if fname in ("str", "list", "tuple", "sorted", "reversed", "iter"):
                return classify(fn, p, depth + 1, seen)
            if fname == "enumerate":
                return classify(fn, p, depth + 1, seen)
            if fname in ("os.path.splitext", "os.path.basename", "os.path.split"):
                return [("PATH", fname, p)]
            if fname.split(".")[-1] in MESSAGE_FUNCS:
                return [("MESSAGE", fname, p)]
            if isinstance(p.func, ast.Attribute) and p.func.attr in ("append", "add", "extend", "insert"):
                return [("STORE", text(p.func.value), p)]
            own_cls = fn.cls.name if getattr(fn, "cls", None) is not None else None
            if fname in ("Macro", "Macro.from_token") or (own_cls == "Macro" and fname in ("cls", "cls.from_token", "self.from_token")):
                return [("STORE", "preproc.macros", p)]
            if fname == "getattr":
                return [("DISPATCH", None, p)]
            if fname in ("bool",):
                return [("TRUTH", None, p)]
            return [("UNCLASSIFIED", f"argument of {fname}", p)]
    if isinstance(p, ast.Compare):
        others = [x for x in [p.left] + list(p.comparators) if x is not node]
        if len(p.ops) == 1 and len(others) == 1:
            op = p.ops[0]
            o = others[0]
            if isinstance(op, (ast.Is, ast.IsNot)) and isinstance(o, ast.Constant) and o.value is None:
                return [("TRUTH", None, p)]
            c = _consts(fn, o)
            if isinstance(op, (ast.In, ast.NotIn)) and p.left is node and not isinstance(o, ast.Constant):
                # `text in NAME` where NAME is one string, not a collection of strings (`("environ")` without its comma):
                # a substring test against that string
                whole = fold_in_fn(o, fn, default=None)
                if isinstance(whole, str) and len(whole) > 1:
                    return [("UNCLASSIFIED", f"substring test against the string {whole!r} (a one-element tuple without its comma?)", p)]
            if isinstance(op, (ast.In, ast.NotIn)) and c is None and p.left is node:
                c = table_keys(fn, o)
            if isinstance(op, (ast.In, ast.NotIn)) and c is None:
                # membership in a LIST of recorded spellings (an attribute that starts as [] and is only appended to) is a
                # comparison between spellings, not a substring test: invariant under consistent renaming
                container = p.comparators[0]
                if list_store_attr(container) is not None:
                    return [("IDCOMPARE", text(container if p.left is node else p.left), p)]
            if isinstance(op, (ast.Eq, ast.NotEq, ast.In, ast.NotIn)):
                if c is not None:
                    if isinstance(op, (ast.In, ast.NotIn)) and p.left is not node:
                        return [("UNCLASSIFIED", "constant in text (substring test)", p)]
                    return [("LITERAL", c, p)]
                if isinstance(op, (ast.In, ast.NotIn)) and p.left is not node:
                    return [("UNCLASSIFIED", "substring test", p)]
                return [("VARCOMPARE", text(o), p)]
            return [("UNCLASSIFIED", "ordering comparison on text", p)]
        return [("UNCLASSIFIED", "chained comparison", p)]
    if isinstance(p, ast.BinOp):
        if isinstance(p.op, ast.Add):
            return classify(fn, p, depth + 1, seen)
        if isinstance(p.op, ast.Mult):
            return classify(fn, p, depth + 1, seen)
        if isinstance(p.op, ast.Mod):
            return [("MESSAGE", "%-format", p)] if _in_message(p) else classify(fn, p, depth + 1, seen)
        return [("UNCLASSIFIED", "arithmetic on text", p)]
    if isinstance(p, (ast.BoolOp, ast.IfExp)):
        if isinstance(p, ast.IfExp) and p.test is node:
            return [("TRUTH", None, p)]
        # `x.value or x.type`, `a if c else b`: the value flows on; as a bare condition only its truth is used
        gp = parent(p)
        if isinstance(gp, (ast.If, ast.While)) and gp.test is p or isinstance(p, ast.BoolOp) and _is_condition(p):
            return [("TRUTH", None, p)]
        return classify(fn, p, depth + 1, seen)
    if isinstance(p, ast.UnaryOp) and isinstance(p.op, ast.Not):
        return [("TRUTH", None, p)]
    if isinstance(p, (ast.If, ast.While)) and p.test is node:
        return [("TRUTH", None, p)]
    if isinstance(p, ast.FormattedValue):
        js = parent(p)
        return _joined(fn, js, depth, seen)
    if isinstance(p, ast.JoinedStr):
        return _joined(fn, p, depth, seen)
    if isinstance(p, ast.Subscript):
        if p.value is node:
            pre = _slice_prefix_test(fn, p)
            if pre is not None:
                return pre
            return classify(fn, p, depth + 1, seen)      # element / slice of the text (or of the list derived from it)
        ks = table_keys(fn, p.value)
        if ks is not None:
            return [("LITERAL", ks, p)]                    # TABLE[text] over a constant table: a dispatch on its keys
        return [("UNCLASSIFIED", "used as an index/key", p)]
    if isinstance(p, ast.Starred):
        return classify(fn, p, depth + 1, seen)
    if isinstance(p, (ast.Tuple, ast.List)):
        gp = parent(p)
        if isinstance(gp, ast.Assign) and gp.value is p and len(gp.targets) == 1 and isinstance(gp.targets[0], (ast.Tuple, ast.List)):
            idx = [i for i, e in enumerate(p.elts) if e is node][0]
            tgt = gp.targets[0].elts[idx]
            return _follow_target(fn, tgt, gp, depth, seen)
        return classify(fn, p, depth + 1, seen)          # element of a tuple that is stored/appended...
    if isinstance(p, ast.Assign) and any(t is node for t in p.targets):
        return []                         # e.g. lines[0] = pad + lines[0]: stays in the same local container
    if isinstance(p, ast.Assign) and p.value is node:
        out: List[Role] = []
        for t in p.targets:
            out += _follow_target(fn, t, p, depth, seen)
        return out
    if isinstance(p, ast.NamedExpr) and p.value is node:
        return _follow_target(fn, p.target, p, depth, seen) + classify(fn, p, depth + 1, seen)
    if isinstance(p, ast.AugAssign) and p.value is node:
        t = text(p.target)
        if t.endswith("context.header") or t.endswith(".header"):
            return [("HEADER", t, p)]
        if isinstance(p.target, ast.Name):
            return _follow_target(fn, p.target, p, depth, seen)
        return [("STORE", t, p)]
    if isinstance(p, (ast.For, ast.comprehension)) and p.iter is node:
        tgt = p.target
        if isinstance(node, ast.Call) and text(node.func) == "enumerate" and isinstance(tgt, (ast.Tuple, ast.List)) and len(tgt.elts) == 2:
            tgt = tgt.elts[1]              # (index, element): only the element carries the text
        return _follow_target(fn, tgt, p, depth, seen, element=True)
    if isinstance(p, ast.Return):
        roles: List[Role] = [("RETURNED", fn.key, p)]
        # ... and what the callers do with it: every resolved call site of this function is a use of the text
        try:
            from .calls import callgraph
            from .model import program
            cg = callgraph(program())
            for c in cg.sites.get(fn.key, []):
                if isinstance(c.node, ast.Call) and len(c.targets) == 1 and c.caller is not fn:
                    roles += classify(c.caller, c.node, depth + 1, seen)
        except Exception:       # pragma: no cover - the call graph is an optional refinement here
            pass
        return roles
    if isinstance(p, ast.Expr):
        return []
    if isinstance(p, ast.keyword):
        return classify(fn, parent(p), depth + 1, seen) if False else [("UNCLASSIFIED", f"keyword argument {p.arg}", p)]
    if isinstance(p, ast.Raise):
        return [("MESSAGE", "raise", p)]
    return [("UNCLASSIFIED", type(p).__name__, p)]


_LIST_STORES = {}


def list_store_attrs(prog=None):
    """Attribute names that hold a list of recorded values: every assignment `<x>.A = ...` in the program binds `[]` / `list()`
    and every other write is `.append()` / `.extend()` / `.remove()` / `.pop()` / `.clear()`."""
    from .model import program
    prog = prog or program()
    if id(prog) in _LIST_STORES:
        return _LIST_STORES[id(prog)]
    good, bad = set(), set()
    for fn in prog.fns:
        for n in walk_fn(fn.node):
            if isinstance(n, (ast.Assign, ast.AnnAssign)):
                tg = n.targets if isinstance(n, ast.Assign) else [n.target]
                for t in tg:
                    if isinstance(t, ast.Attribute) and n.value is not None:
                        v = n.value
                        empty = (isinstance(v, ast.List) and not v.elts) or (isinstance(v, ast.Call) and text(v.func) == "list" and not v.args)
                        (good if empty else bad).add(t.attr)
            elif isinstance(n, ast.AugAssign) and isinstance(n.target, ast.Attribute) and not isinstance(n.op, ast.Add):
                bad.add(n.target.attr)
    _LIST_STORES[id(prog)] = good - bad
    return _LIST_STORES[id(prog)]


def list_store_attr(e) -> Optional[str]:
    return e.attr if isinstance(e, ast.Attribute) and e.attr in list_store_attrs() else None


def guarded_constants(fn: Fn, use) -> Optional[List[str]]:
    """Constants c1..cn such that every CFG path to the evaluation of *use* (a local name or a path expression holding
    text) leaves a test `use == c` / `use in (c1..cn)` through its TRUE edge (resp. `!=` / `not in` through FALSE), with no
    rebinding of the names of *use* in between; None if there is no such dominating test."""
    if not isinstance(use, (ast.Name, ast.Attribute)) or not isinstance(getattr(use, "ctx", None), ast.Load):
        return None
    from .cfg import cfg_of
    from .dataflow import _rd_of, cfg_node_of, expand_aliases
    from .facts import conjuncts, disjuncts
    g, rd = _rd_of(fn)
    at = cfg_node_of(g, use)
    if at is None:
        return None
    want = text(expand_aliases(fn, use), 400)
    names = [n.id for n in ast.walk(use) if isinstance(n, ast.Name)]
    best: Optional[List[str]] = None
    for t in g.nodes:
        if t.kind != "test" or t.id == at:
            continue
        for lab, parts, ops in (("T", conjuncts(t.ast), (ast.Eq, ast.In)), ("F", disjuncts(t.ast), (ast.NotEq, ast.NotIn))):
            for c in parts:
                if not (isinstance(c, ast.Compare) and len(c.ops) == 1 and isinstance(c.ops[0], ops)):
                    continue
                if text(expand_aliases(fn, c.left), 400) != want:
                    continue
                cs = _consts(fn, c.comparators[0])
                if cs is None:
                    continue
                if any(rd.get(t.id, {}).get(nm, set()) != rd.get(at, {}).get(nm, set()) for nm in names):
                    continue
                # dominated by that outcome: unreachable once the edge is cut
                reach = g.reachable(g.entry, follow_exc=False, edge_filter=lambda a, b, l, _t=t.id, _lab=lab: not (a == _t and l == _lab))
                if at not in reach:
                    best = cs if best is None else [x for x in best if x in cs]
    return best


def _slice_prefix_test(fn: Fn, sub: ast.Subscript) -> Optional[List[Role]]:
    """text[:k] == "xx" / text[-k:] != "xx" / text[0] == "x": a prefix (suffix) test, like startswith / endswith."""
    sl = sub.slice
    ok = False
    if isinstance(sl, ast.Slice) and sl.step is None:
        lo, hi = sl.lower, sl.upper
        if lo is None and hi is not None and isinstance(fold_in_fn(hi, fn, default=None), int):
            ok = True
        if hi is None and isinstance(lo, ast.UnaryOp) and isinstance(lo.op, ast.USub):
            ok = True
    elif isinstance(fold_in_fn(sl, fn, default=None), int) and fold_in_fn(sl, fn, default=None) in (0, -1):
        ok = True
    cmp = parent(sub)
    if ok and isinstance(cmp, ast.Compare) and len(cmp.ops) == 1 and isinstance(cmp.ops[0], (ast.Eq, ast.NotEq, ast.In, ast.NotIn)) \
            and cmp.left is sub:
        c = _consts(fn, cmp.comparators[0])
        if c is not None:
            return [("PREFIX", c, cmp)]
    return None


def _charset_test(fn: Fn, setcall: ast.Call) -> Optional[List[Role]]:
    """set(text) <= ALPHABET / set(text).issubset(ALPHABET) / set(text) - ALPHABET / set(text).difference(ALPHABET):
    which characters occur, tested against a constant alphabet."""
    def alphabet(e):
        if isinstance(e, ast.Call) and isinstance(e.func, ast.Name) and e.func.id in ("set", "frozenset") and len(e.args) == 1:
            e = e.args[0]
        v = fold_in_fn(e, fn, default=None)
        if isinstance(v, str):
            return v
        if isinstance(v, (set, frozenset, list, tuple)) and all(isinstance(x, str) and len(x) == 1 for x in v):
            return "".join(sorted(v))
        return None
    p = parent(setcall)
    if isinstance(p, ast.Compare) and len(p.ops) == 1 and isinstance(p.ops[0], (ast.LtE, ast.Lt)) and p.left is setcall:
        a = alphabet(p.comparators[0])
        return [("CHARCLASS", a, p)] if a is not None else None
    if isinstance(p, ast.Compare) and len(p.ops) == 1 and isinstance(p.ops[0], (ast.GtE, ast.Gt)) and p.comparators[0] is setcall:
        a = alphabet(p.left)
        return [("CHARCLASS", a, p)] if a is not None else None
    if isinstance(p, ast.BinOp) and isinstance(p.op, ast.Sub) and p.left is setcall:
        a = alphabet(p.right)
        return [("CHARCLASS", a, p)] if a is not None else None
    if isinstance(p, ast.Attribute) and p.value is setcall and p.attr in ("issubset", "difference", "isdisjoint"):
        call = parent(p)
        if isinstance(call, ast.Call) and call.func is p and len(call.args) == 1 and p.attr != "isdisjoint":
            a = alphabet(call.args[0])
            return [("CHARCLASS", a, call)] if a is not None else None
    return None


def _is_condition(e) -> bool:
    p = parent(e)
    while isinstance(p, (ast.BoolOp, ast.UnaryOp)):
        e, p = p, parent(p)
    return isinstance(p, (ast.If, ast.While, ast.IfExp)) and getattr(p, "test", None) is e


def _in_message(e) -> bool:
    for a in ancestors(e):
        if isinstance(a, ast.Raise):
            return True
        if isinstance(a, ast.Call) and text(a.func).split(".")[-1] in MESSAGE_FUNCS:
            return True
        if isinstance(a, ast.stmt):
            return False
    return False


def _joined(fn, js, depth, seen) -> List[Role]:
    if _in_message(js):
        return [("MESSAGE", "f-string", js)]
    gp = parent(js)
    if isinstance(gp, ast.Call) and text(gp.func) == "getattr":
        return [("DISPATCH", None, gp)]
    return classify(fn, js, depth + 1, seen)


def _follow_target(fn, tgt, stmt, depth, seen, element=False) -> List[Role]:
    out: List[Role] = []
    if isinstance(tgt, ast.Name):
        if isinstance(stmt, ast.comprehension):
            # the variable of a comprehension lives inside the comprehension expression only
            comp = parent(stmt)
            uses = [n for n in ast.walk(comp) if isinstance(n, ast.Name) and n.id == tgt.id and isinstance(n.ctx, ast.Load)]
        else:
            uses = _uses_of(fn, tgt.id, stmt)
        if not uses:
            return []
        for u in uses:
            if element:
                out += _classify_char_or_element(fn, u, depth, seen)
            else:
                out += classify(fn, u, depth + 1, seen)
        return out
    if isinstance(tgt, (ast.Tuple, ast.List)):
        # for lineno, line in enumerate(lines): the text is the last element; (file, extension) = splitext(...)
        for e in tgt.elts:
            out += _follow_target(fn, e, stmt, depth, seen, element)
        return out
    if isinstance(tgt, ast.Subscript):
        # lines[0] = " " * k + lines[0]  : stays in the same container
        if isinstance(tgt.value, ast.Name):
            return []
        return [("STORE", text(tgt), stmt)]
    if isinstance(tgt, ast.Attribute):
        if tgt.attr == "header":
            return [("HEADER", text(tgt), stmt)]          # context.header = context.header + text  (same as +=)
        return [("STORE", text(tgt), stmt)]
    return [("UNCLASSIFIED", "assignment target", stmt)]


def _classify_char_or_element(fn, use: ast.Name, depth, seen) -> List[Role]:
    """*use* is a loop variable ranging over the text (characters) or over a list derived from it (lines)."""
    p = parent(use)
    if isinstance(p, ast.Compare) and len(p.ops) == 1 and isinstance(p.ops[0], (ast.In, ast.NotIn)) and p.left is use:
        c = fold_in_fn(p.comparators[0], fn, default=None)
        if isinstance(c, str):
            return [("CHARCLASS", c, p)]
        if isinstance(c, (set, frozenset, list, tuple)) and c and all(isinstance(x, str) and len(x) == 1 for x in c):
            return [("CHARCLASS", "".join(sorted(c)), p)]
    return classify(fn, use, depth + 1, seen)


# ---------------------------------------------------------------------------------------- token text reads
TEXT_ATTRS = {"value", "length", "unsafe_length"}


def token_text_reads(prog):
    """(fn, node, kind_of_read) for every read of a token's text in rules/ and context.py."""
    out = []
    for fn in prog.fns:
        rel = fn.mod.rel
        if not (rel.startswith("rules/") or rel == "context.py") or rel == "rules/rule.py":
            continue
        for n in walk_fn(fn.node):
            if isinstance(n, ast.Attribute) and n.attr in TEXT_ATTRS and isinstance(n.ctx, ast.Load):
                if text(n.value) in ("self", "k", "st", "node") or text(n.value).endswith("keywords"):
                    continue
                out.append((fn, n, n.attr))
            elif isinstance(n, ast.Call) and text(n.func) == "str" and len(n.args) == 1 and _is_token_expr(n.args[0]):
                out.append((fn, n, "str()"))
    return out


def _is_token_expr(e) -> bool:
    t = text(e)
    return "peek_token(" in t or t in ("token", "tkn", "tok", "t")


def token_expr_of(read) -> ast.AST:
    if isinstance(read, ast.Attribute):
        return read.value
    return read.args[0]


# ---------------------------------------------------------------------------------------- kind inference
def guard_kinds(prog, fn: Fn, tok_expr, at) -> Optional[Set[str]]:
    """Token kinds the expression may have at *at*, from check_token / .type guards (None = unknown)."""
    from .facts import conjuncts, disjuncts
    idx = None
    if isinstance(tok_expr, ast.Call) and isinstance(tok_expr.func, ast.Attribute) and tok_expr.func.attr == "peek_token" and tok_expr.args:
        idx = text(tok_expr.args[0])
    tname = text(tok_expr)
    alias_kinds: Optional[Set[str]] = None
    if isinstance(tok_expr, ast.Name):
        # token = context.peek_token(E)   (single assignment): guards on E seen from the assignment count too
        asg = [n for n in walk_fn(fn.node) if isinstance(n, ast.Assign) and len(n.targets) == 1
               and isinstance(n.targets[0], ast.Name) and n.targets[0].id == tok_expr.id]
        if len(asg) == 1 and isinstance(asg[0].value, ast.Call) and isinstance(asg[0].value.func, ast.Attribute) \
                and asg[0].value.func.attr == "peek_token":
            alias_kinds = guard_kinds(prog, fn, asg[0].value, asg[0].value)
        elif len(asg) >= 1 and all(_container_elem(a.value) for a in asg):
            alias_kinds = _container_kinds(prog, fn, _container_elem(asg[0].value))
    elif _container_elem(tok_expr):
        alias_kinds = _container_kinds(prog, fn, _container_elem(tok_expr))

    def kinds_of(e) -> Optional[Set[str]]:
        v = fold_in_fn(e, fn, default=None)
        if isinstance(v, str):
            return {v}
        if isinstance(v, (tuple, list, set, frozenset)) and all(isinstance(x, str) for x in v):
            return set(v)
        return None

    def positive(c) -> Optional[Set[str]]:
        """kinds established when condition c is TRUE"""
        inner = c
        if isinstance(c, ast.Compare) and len(c.ops) == 1 and isinstance(c.ops[0], (ast.Is, ast.Eq)) and text(c.comparators[0]) == "True":
            inner = c.left
        if isinstance(inner, ast.Call) and isinstance(inner.func, ast.Attribute) and inner.func.attr == "check_token" \
                and len(inner.args) >= 2 and idx is not None and text(inner.args[0]) == idx and (inner is c or True):
            if inner is c or isinstance(c.ops[0], (ast.Is, ast.Eq)):
                return kinds_of(inner.args[1])
        if isinstance(c, ast.Compare) and len(c.ops) == 1 and text(c.left) == tname + ".type":
            if isinstance(c.ops[0], (ast.Eq, ast.In)):
                return kinds_of(c.comparators[0])
        return None

    def negative(c) -> Optional[Set[str]]:
        """kinds established when condition c is FALSE"""
        if isinstance(c, ast.UnaryOp) and isinstance(c.op, ast.Not):
            return positive(c.operand)
        if isinstance(c, ast.Compare) and len(c.ops) == 1 and (
                (isinstance(c.ops[0], (ast.Is, ast.Eq)) and text(c.comparators[0]) == "False") or
                (isinstance(c.ops[0], (ast.IsNot, ast.NotEq)) and text(c.comparators[0]) == "True")):
            inner = c.left
            if isinstance(inner, ast.Call) and isinstance(inner.func, ast.Attribute) and inner.func.attr == "check_token" \
                    and len(inner.args) >= 2 and idx is not None and text(inner.args[0]) == idx:
                return kinds_of(inner.args[1])
        if isinstance(c, ast.Compare) and len(c.ops) == 1 and text(c.left) == tname + ".type" and isinstance(c.ops[0], (ast.NotEq, ast.NotIn)):
            return kinds_of(c.comparators[0])
        return None

    found: List[Set[str]] = []
    if alias_kinds is not None:
        found.append(alias_kinds)
    # 1. same boolean expression: earlier conjuncts of an `and` / earlier disjuncts of an `or` (negated); IfExp tests
    cur = at
    for a in ancestors(at):
        if isinstance(a, ast.IfExp):
            if _inside(cur, a.body):
                for c in conjuncts(a.test):
                    k = positive(c)
                    if k is not None:
                        found.append(k)
            elif _inside(cur, a.orelse):
                for c in disjuncts(a.test):
                    k = negative(c)
                    if k is not None:
                        found.append(k)
        if isinstance(a, ast.BoolOp):
            vals = a.values
            pos = next((i for i, v in enumerate(vals) if _inside(cur, v)), None)
            if pos is not None:
                for v in vals[:pos]:
                    k = positive(v) if isinstance(a.op, ast.And) else negative(v)
                    if k is not None:
                        found.append(k)
        if isinstance(a, ast.stmt):
            break
        cur = a
    # 2. enclosing if / while whose TRUE branch contains the read; elif chains
    cur = enclosing_stmt(at)
    for a in ancestors(cur):
        if isinstance(a, (ast.If, ast.While)):
            in_body = any(_inside(cur, s) for s in a.body)
            if in_body:
                for c in conjuncts(a.test):
                    k = positive(c)
                    if k is not None and not _index_changed_under(fn, idx, a, at):
                        found.append(k)
            elif isinstance(a, ast.If) and any(_inside(cur, s) for s in a.orelse):
                for c in disjuncts(a.test):
                    k = negative(c)
                    if k is not None:
                        found.append(k)
        if isinstance(a, (ast.FunctionDef, ast.AsyncFunctionDef)):
            break
        cur = a
    # the read may itself be in the test of an if/while: handled by 1.
    # 3. early exits before the statement in enclosing blocks:  if <cond>: return/raise/continue/break
    cur = enclosing_stmt(at)
    for a in ancestors(cur):
        for field in ("body", "orelse", "finalbody"):
            blk = getattr(a, field, None)
            if isinstance(blk, list) and any(s is cur for s in blk):
                for s in blk:
                    if s is cur:
                        break
                    if isinstance(s, ast.If) and not s.orelse and s.body and isinstance(s.body[-1], (ast.Return, ast.Raise, ast.Continue, ast.Break)):
                        for d in disjuncts(s.test):
                            k = negative(d)
                            if k is not None and not _index_reassigned_between(fn, idx, s, cur):
                                found.append(k)
                    # while check_token(i, K) is False: i += 1   -> afterwards the token at i is of kind K (or absent)
                    if isinstance(s, ast.While):
                        for d in disjuncts(s.test):
                            k = negative(d)
                            if k is not None and not any(isinstance(x, ast.Break) for x in ast.walk(s)) \
                                    and not _index_reassigned_between(fn, idx, s, cur, skip=s):
                                found.append(k)
        if isinstance(a, (ast.FunctionDef, ast.AsyncFunctionDef)):
            break
        cur = a
    # 4. any test whose outcome dominates the read in the CFG (guard clauses far above, merged / split conditions, a kind
    #    held in a local: `kind = tok.type`), provided nothing the test mentions is rebound between the test and the read
    try:
        from .dataflow import _rd_of, cfg_node_of
        from .rules.c03 import dominating_atoms
        g, rd = _rd_of(fn)
        r_at = cfg_node_of(g, at)
        for atom, negated, t in dominating_atoms(fn, at):
            names = {n.id for n in ast.walk(atom) if isinstance(n, ast.Name)} - {"context", "self", "True", "False", "None"}
            if r_at is None or any(rd.get(t.id, {}).get(nm, set()) != rd.get(r_at, {}).get(nm, set()) for nm in names):
                continue
            k = negative(atom) if negated else positive(atom)
            if k is not None:
                found.append(k)
    except RecursionError:
        pass
    if not found:
        return None
    out = found[0]
    for k in found[1:]:
        out = out & k
    return out


def _container_elem(e) -> Optional[str]:
    """`ids[k][0]` / `ids[k]` / `name[0]` -> the local list name the token comes from."""
    x = e
    n = 0
    while isinstance(x, ast.Subscript):
        x = x.value
        n += 1
    if n >= 1 and isinstance(x, ast.Name):
        return x.id
    return None


def _container_kinds(prog, fn, lname: str) -> Optional[Set[str]]:
    """Kinds of the tokens appended to the local list *lname*: every append in the function must put a
    context.peek_token(E) (alone or first in a tuple) under a guard on E."""
    kinds: Set[str] = set()
    n_app = 0
    for n in walk_fn(fn.node):
        if isinstance(n, ast.Call) and isinstance(n.func, ast.Attribute) and n.func.attr == "append" and text(n.func.value) == lname and n.args:
            n_app += 1
            a = n.args[0]
            if isinstance(a, ast.Tuple) and a.elts:
                a = a.elts[0]
            k = guard_kinds(prog, fn, a, n) if isinstance(a, ast.Call) else None
            if k is None:
                return None
            kinds |= k
    return kinds if n_app else None


def _index_changed_under(fn, idx, guard_stmt, at) -> bool:
    """Can a name of the index expression be assigned on a CFG path from the TRUE outcome of the guard's test
    to the read (without coming back through the test)?"""
    if idx is None:
        return False
    names = {n.id for n in ast.walk(ast.parse(idx, mode="eval")) if isinstance(n, ast.Name)} - {"context", "self"}
    if not names:
        return False
    from .cfg import cfg_of
    g = cfg_of(fn)
    t = g.nid(guard_stmt.test)
    r = _node_of(g, at)
    if t is None or r is None:
        return True
    assigns = set()
    for n in walk_fn(fn.node):
        if isinstance(n, (ast.Assign, ast.AugAssign)):
            tg = n.targets if isinstance(n, ast.Assign) else [n.target]
            if any(isinstance(x, ast.Name) and x.id in names for t_ in tg for x in ast.walk(t_)):
                nid = g.nid(n)
                if nid is not None:
                    assigns.add(nid)
    firsts = [m for m, lab in g.succ[t] if lab == "T"]
    for a_ in assigns:
        if a_ == r:
            continue
        from_guard = any(m == a_ or g.can_reach(m, a_, avoid={t}, follow_exc=False) for m in firsts)
        if from_guard and g.can_reach(a_, r, avoid={t}, follow_exc=False):
            return True
    return False


def _node_of(g, e):
    n = e
    while n is not None:
        nid = g.nid(n)
        if nid is not None:
            return nid
        if isinstance(n, (ast.If, ast.While)):
            tt = g.nid(n.test)
            if tt is not None:
                return tt
        n = parent(n)
    return None


def _index_reassigned_between(fn, idx, s, cur, skip=None) -> bool:
    if idx is None:
        return False
    names = {n.id for n in ast.walk(ast.parse(idx, mode="eval")) if isinstance(n, ast.Name)} - {"context", "self"}
    if not names:
        return False
    lo = (s.end_lineno, s.end_col_offset)
    hi = (cur.lineno, cur.col_offset)
    for n in walk_fn(fn.node):
        if isinstance(n, (ast.Assign, ast.AugAssign)) and lo <= (n.lineno, n.col_offset) < hi:
            tg = n.targets if isinstance(n, ast.Assign) else [n.target]
            for t in tg:
                for x in ast.walk(t):
                    if isinstance(x, ast.Name) and x.id in names:
                        return True
    return False


# ---------------------------------------------------------------------------------------- token existence
def token_exists(prog, fn: Fn, tok_expr, at) -> Optional[str]:
    """Evidence that the token expression is not None at *at* (a reason string), or None.

    check_token answers True / False / None (None = no token at that position):
      truthy or `is True`            -> the token exists
      `is False` holding             -> the token exists (and is of another kind)
      early exit on `not X`, `X is None`, `not peek`   -> exists afterwards
      early exit on `X is False`     -> NO evidence (None falls through)
    """
    from .facts import conjuncts, disjuncts
    idx = None
    if isinstance(tok_expr, ast.Call) and isinstance(tok_expr.func, ast.Attribute) and tok_expr.func.attr == "peek_token" and tok_expr.args:
        idx = text(tok_expr.args[0])
        if isinstance(tok_expr.args[0], ast.Constant) and tok_expr.args[0].value == 0 and fn.cls is not None \
                and prog.is_sub(fn.cls.name, "Rule"):
            return "position 0 of a non-empty token list (rules run only while context.tokens != [])"
    tname = text(tok_expr)
    if isinstance(tok_expr, ast.Name):
        asg = [n for n in walk_fn(fn.node) if isinstance(n, ast.Assign) and any(isinstance(t, ast.Name) and t.id == tok_expr.id for t in n.targets)]
        fors = [n for n in walk_fn(fn.node) if isinstance(n, (ast.For, ast.comprehension)) and any(
            isinstance(x, ast.Name) and x.id == tok_expr.id for x in ast.walk(n.target))]
        if fors and not asg:
            return "element of an iterated token list"
        if len(asg) == 1 and isinstance(asg[0].value, ast.Call) and isinstance(asg[0].value.func, ast.Attribute) \
                and asg[0].value.func.attr == "peek_token":
            ev = token_exists(prog, fn, asg[0].value, asg[0].value)
            if ev:
                return ev + " (at the assignment)"

    def is_lookup(e):
        return isinstance(e, ast.Call) and isinstance(e.func, ast.Attribute) and e.func.attr in ("check_token", "peek_token") \
            and e.args and idx is not None and text(e.args[0]) == idx

    def holds_true(c) -> bool:
        """c TRUE => token exists"""
        if is_lookup(c):
            return True
        if isinstance(c, ast.Name) and c.id == tname:
            return True
        if isinstance(c, ast.Compare) and len(c.ops) == 1:
            L, op, R = c.left, c.ops[0], c.comparators[0]
            if is_lookup(L) and isinstance(op, ast.Is) and isinstance(R, ast.Constant) and R.value in (True, False) and R.value is not None:
                return True
            if (is_lookup(L) or text(L) == tname) and isinstance(op, ast.IsNot) and isinstance(R, ast.Constant) and R.value is None:
                return True
            if text(L) in (tname + ".type", tname + ".value"):
                return True           # the comparison itself would have raised otherwise (evaluated before)
        if isinstance(c, ast.BoolOp) and isinstance(c.op, ast.And):
            return any(holds_true(v) for v in c.values)
        return False

    def holds_false(c) -> bool:
        """c FALSE => token exists"""
        if isinstance(c, ast.UnaryOp) and isinstance(c.op, ast.Not):
            return holds_true(c.operand)
        if isinstance(c, ast.Compare) and len(c.ops) == 1:
            L, op, R = c.left, c.ops[0], c.comparators[0]
            if (is_lookup(L) or text(L) == tname) and isinstance(op, ast.Is) and isinstance(R, ast.Constant) and R.value is None:
                return True
        if isinstance(c, ast.BoolOp) and isinstance(c.op, ast.Or):
            return any(holds_false(v) for v in c.values)
        return False

    # 1. earlier operands of the same boolean expression / IfExp
    cur = at
    for a in ancestors(at):
        if isinstance(a, ast.BoolOp):
            pos = next((i for i, v in enumerate(a.values) if _inside(cur, v)), None)
            if pos is not None:
                for v in a.values[:pos]:
                    if (holds_true(v) if isinstance(a.op, ast.And) else holds_false(v)):
                        return f"earlier operand `{text(v, 50)}`"
        if isinstance(a, ast.IfExp) and _inside(cur, a.body) and any(holds_true(c) for c in conjuncts(a.test)):
            return f"conditional expression on `{text(a.test, 50)}`"
        if isinstance(a, ast.stmt):
            break
        cur = a
    # 2. enclosing if / while (true branch), else-branch of a test whose falsity implies existence
    cur = enclosing_stmt(at)
    for a in ancestors(cur):
        if isinstance(a, (ast.If, ast.While)):
            if any(_inside(cur, s) for s in a.body):
                for c in conjuncts(a.test):
                    if holds_true(c) and not _index_changed_under(fn, idx, a, at):
                        return f"guard `{text(c, 50)}`"
                # bound on the index:  i < context.tkn_scope / len(context.tokens)
                for c in conjuncts(a.test):
                    if isinstance(c, ast.Compare) and len(c.ops) == 1 and isinstance(c.ops[0], ast.Lt) and idx is not None \
                            and text(c.left) == idx and text(c.comparators[0]) in (
                                "context.tkn_scope", "len(context.tokens)", "len(context.tokens[:context.tkn_scope])",
                                "context.arg_pos[1]", "context.fname_pos") and not _index_changed_under(fn, idx, a, at):
                        return f"index bound `{text(c, 50)}`"
            elif isinstance(a, ast.If) and any(_inside(cur, s) for s in a.orelse):
                for d in disjuncts(a.test):
                    if holds_false(d):
                        return f"else branch of `{text(d, 50)}`"
        if isinstance(a, ast.For) and idx is not None and isinstance(a.target, ast.Name) and a.target.id == idx \
                and "range(" in text(a.iter) and ("tkn_scope" in text(a.iter) or "len(" in text(a.iter)):
            return f"loop over `{text(a.iter, 40)}`"
        if isinstance(a, (ast.FunctionDef, ast.AsyncFunctionDef)):
            break
        cur = a
    # 3. early exits / terminating loops before the statement
    cur = enclosing_stmt(at)
    for a in ancestors(cur):
        for field in ("body", "orelse", "finalbody"):
            blk = getattr(a, field, None)
            if isinstance(blk, list) and any(s is cur for s in blk):
                for s in blk:
                    if s is cur:
                        break
                    if isinstance(s, ast.If) and not s.orelse and s.body and isinstance(s.body[-1], (ast.Return, ast.Raise, ast.Continue, ast.Break)):
                        for d in disjuncts(s.test):
                            if holds_false(d) and not _index_reassigned_between(fn, idx, s, cur):
                                return f"early exit on `{text(d, 50)}`"
        if isinstance(a, (ast.FunctionDef, ast.AsyncFunctionDef)):
            break
        cur = a
    return None
