"""Thorough tier: mutant / benign-twin battery.

For every patch under /verif/battery/<Cnn>/ a scratch copy of the analysed
tree's ``norminette`` package is made under /dev/shm (or $TMPDIR), the patch
applied and the *analyser* re-run on the copy (norminette itself is never run):

  m_*.diff  mutant  -- breaks one rule instance, still compiles: the check must exit 1
  t_*.diff  twin    -- behaviour-preserving rewrite of the same construct: the check must exit 0

/verif/battery/ALL/t_*.diff are behaviour-preserving refactorings written by independent authors (extract / inline
function, control-flow rewrites, moved helpers, changed loop forms ...); every check runs on each of them.

A patch that does not apply to the current tree (the tree was edited) is
skipped and listed.  A wrong outcome is an ANALYSIS-ERROR (the checker is
broken), never a VIOLATION of the repository.
"""
from __future__ import annotations

import concurrent.futures
import glob
import os
import shutil
import subprocess
import sys
import tempfile

from .model import AnalysisError, repo_root
from .report import VERIF


def _one(args):
    prop, patch, root = args
    base = "/dev/shm" if os.path.isdir("/dev/shm") and os.access("/dev/shm", os.W_OK) else tempfile.gettempdir()
    tmp = tempfile.mkdtemp(prefix="sa_bat.", dir=base)
    try:
        shutil.copytree(os.path.join(root, "norminette"), os.path.join(tmp, "norminette"),
                        ignore=shutil.ignore_patterns("__pycache__"))
        r = subprocess.run(["patch", "-s", "-p1", "-f", "-i", patch], cwd=tmp, capture_output=True, text=True)
        if r.returncode != 0:
            return (os.path.basename(patch), "skipped", "patch does not apply to this tree")
        env = dict(os.environ, SA_REPO=tmp, SA_EVIDENCE_DIR=os.path.join(tmp, "evidence"))
        env.pop("VERIF_TIER", None)
        r = subprocess.run([sys.executable, "-m", "sa", "check", prop, "--tier", "quick"], cwd=VERIF, env=env,
                           capture_output=True, text=True, errors="backslashreplace")
        lines = [l for l in r.stdout.splitlines() if l.startswith("  ") or l.startswith("ANALYSIS-ERROR")]
        detail = (lines[0].strip()[:200] if lines else "").replace(tmp, "<copy>")
        return (os.path.basename(patch), {0: "silent", 1: "fired", 2: "analysis-error"}.get(r.returncode, f"rc={r.returncode}"), detail)
    finally:
        shutil.rmtree(tmp, ignore_errors=True)


def run_for(run, prop: str):
    patches = sorted(glob.glob(os.path.join(VERIF, "battery", prop, "*.diff")))
    # behaviour-preserving refactorings of the whole code base (independent authors): every check must stay silent
    patches += sorted(glob.glob(os.path.join(VERIF, "battery", "ALL", "t_*.diff")))
    if not patches:
        run.note("thorough: no battery patches for this property")
        return
    root = repo_root()
    jobs = [(prop, p, root) for p in patches]
    with concurrent.futures.ThreadPoolExecutor(max_workers=min(16, len(jobs))) as ex:
        results = list(ex.map(_one, jobs))
    wrong = []
    summary = {"mutants": 0, "mutants_fired": 0, "twins": 0, "twins_silent": 0, "skipped": 0, "results": []}
    for name, outcome, detail in results:
        kind = "mutant" if name.startswith("m_") else "twin"
        summary["results"].append({"patch": name, "kind": kind, "outcome": outcome, "detail": detail})
        if outcome == "skipped":
            summary["skipped"] += 1
            continue
        if kind == "mutant":
            summary["mutants"] += 1
            if outcome == "fired":
                summary["mutants_fired"] += 1
            else:
                wrong.append(f"{name}: expected a VIOLATION, got {outcome} {detail}")
        else:
            summary["twins"] += 1
            if outcome == "silent":
                summary["twins_silent"] += 1
            else:
                wrong.append(f"{name}: expected silence, got {outcome} {detail}")
    run.extra["battery"] = summary
    run.extra["explanation_thorough"] = (
        f"mutant/twin battery: {summary['mutants_fired']}/{summary['mutants']} mutants reported, "
        f"{summary['twins_silent']}/{summary['twins']} benign twins silent, {summary['skipped']} patches skipped")
    print(f"{prop}: battery {summary['mutants_fired']}/{summary['mutants']} mutants fired, "
          f"{summary['twins_silent']}/{summary['twins']} twins silent, {summary['skipped']} skipped")
    if wrong:
        raise AnalysisError("battery: the checker does not behave as specified on its own mutants/twins: " + " | ".join(wrong[:5]))
