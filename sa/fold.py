"""Constant folder over the repository's module-level tables.

``fold(expr, mod)`` returns a Python value or raises ``Unknown``.  It understands
literals, displays with starred unpacking, ``+``/``*``, names of other folded
module constants (followed through ``from norminette.x import y``),
``string.*`` constants, ``.lower()/.upper()/.keys()/.values()/.format()``,
``map(str.upper|str.lower, X)``, ``list/tuple/set/sorted/len`` and calls of
*pure one-expression helpers* (functions whose body is only simple local
assignments followed by one ``return``), e.g. ``c('u', 'll')`` in lexer.py.
"""
from __future__ import annotations

import ast
import string as _string
from typing import Any, Dict, Optional

from .model import Mod, Program, program


class Unknown(Exception):
    pass


_STRING_CONSTS = {k: getattr(_string, k) for k in (
    "ascii_letters", "ascii_lowercase", "ascii_uppercase", "digits",
    "hexdigits", "octdigits", "punctuation", "whitespace", "printable")}

_RE_FLAGS = {"VERBOSE": 64, "X": 64, "DOTALL": 16, "S": 16, "IGNORECASE": 2, "I": 2,
             "MULTILINE": 8, "M": 8, "ASCII": 256, "A": 256}

_MAX_DEPTH = 40


def fold(expr: ast.AST, mod: Mod, env: Optional[Dict[str, Any]] = None,
         prog: Optional[Program] = None, _depth=0) -> Any:
    prog = prog or program()
    if _depth > _MAX_DEPTH:
        raise Unknown("too deep")
    f = lambda e, env_=env: fold(e, mod, env_, prog, _depth + 1)  # noqa: E731

    if isinstance(expr, ast.Constant):
        return expr.value
    if isinstance(expr, (ast.Tuple, ast.List, ast.Set)):
        out = []
        for e in expr.elts:
            if isinstance(e, ast.Starred):
                out.extend(list(f(e.value)))
            else:
                out.append(f(e))
        if isinstance(expr, ast.Tuple):
            return tuple(out)
        if isinstance(expr, ast.Set):
            return frozenset(out)
        return out
    if isinstance(expr, ast.Dict):
        d = {}
        for k, v in zip(expr.keys, expr.values):
            if k is None:
                d.update(f(v))
            else:
                d[f(k)] = f(v)
        return d
    if isinstance(expr, ast.Name):
        if env is not None and expr.id in env:
            return env[expr.id]
        return fold_name(expr.id, mod, prog, _depth + 1)
    if isinstance(expr, ast.Attribute):
        if isinstance(expr.value, ast.Name):
            base = expr.value.id
            if base == "string" and expr.attr in _STRING_CONSTS:
                return _STRING_CONSTS[expr.attr]
            if base == "re" and expr.attr in _RE_FLAGS:
                return _RE_FLAGS[expr.attr]
        raise Unknown(ast.unparse(expr))
    if isinstance(expr, ast.BinOp):
        l, r = f(expr.left), f(expr.right)
        try:
            if isinstance(expr.op, ast.Add):
                if isinstance(l, list) and isinstance(r, tuple):
                    raise Unknown("list + tuple")
                return l + r
            if isinstance(expr.op, ast.Mult):
                return l * r
            if isinstance(expr.op, ast.Sub):
                return l - r
            if isinstance(expr.op, ast.BitOr):
                return l | r
            if isinstance(expr.op, ast.Mod) and isinstance(l, str):
                return l % r
        except TypeError as e:
            raise Unknown(str(e))
        raise Unknown(ast.unparse(expr))
    if isinstance(expr, ast.UnaryOp) and isinstance(expr.op, ast.USub):
        return -f(expr.operand)
    if isinstance(expr, ast.JoinedStr):
        parts = []
        for v in expr.values:
            if isinstance(v, ast.Constant):
                parts.append(str(v.value))
            elif isinstance(v, ast.FormattedValue) and v.conversion == -1 and v.format_spec is None:
                parts.append(str(f(v.value)))
            else:
                raise Unknown("f-string")
        return "".join(parts)
    if isinstance(expr, ast.Subscript):
        base = f(expr.value)
        if isinstance(expr.slice, ast.Slice):
            lo = f(expr.slice.lower) if expr.slice.lower else None
            hi = f(expr.slice.upper) if expr.slice.upper else None
            st = f(expr.slice.step) if expr.slice.step else None
            return base[lo:hi:st]
        idx = f(expr.slice)
        try:
            return base[idx]
        except Exception as e:
            raise Unknown(str(e))
    if isinstance(expr, ast.Call):
        return _fold_call(expr, mod, env, prog, _depth)
    if isinstance(expr, ast.IfExp):
        return f(expr.body) if f(expr.test) else f(expr.orelse)
    if isinstance(expr, (ast.ListComp, ast.GeneratorExp, ast.SetComp)):
        if not any(g.is_async for g in expr.generators):
            out = []

            def gen(i, env_i):
                if i == len(expr.generators):
                    out.append(fold(expr.elt, mod, env_i, prog, _depth + 1))
                    return
                g = expr.generators[i]
                for item in fold(g.iter, mod, env_i, prog, _depth + 1):
                    env2 = dict(env_i or {})
                    if not _bind_fold_target(g.target, item, env2):
                        raise Unknown("comprehension target")
                    if all(fold(c, mod, env2, prog, _depth + 1) for c in g.ifs):
                        gen(i + 1, env2)
            gen(0, dict(env or {}))
            return frozenset(out) if isinstance(expr, ast.SetComp) else out
        raise Unknown("comprehension")
    raise Unknown(type(expr).__name__)


def _bind_fold_target(t, value, env) -> bool:
    """Bind the assignment / loop target *t* (a name, or a tuple / list of targets) to a folded value."""
    if isinstance(t, ast.Name):
        env[t.id] = value
        return True
    if isinstance(t, (ast.Tuple, ast.List)) and not any(isinstance(e, ast.Starred) for e in t.elts):
        try:
            vals = list(value)
        except TypeError:
            return False
        return len(vals) == len(t.elts) and all(_bind_fold_target(e, v, env) for e, v in zip(t.elts, vals))
    return False


def _fold_call(expr: ast.Call, mod: Mod, env, prog, depth):
    f = lambda e: fold(e, mod, env, prog, depth + 1)  # noqa: E731
    fn = expr.func
    if isinstance(fn, ast.Attribute):
        meth = fn.attr
        if meth in ("lower", "upper", "strip", "keys", "values", "items", "copy") and not expr.args:
            recv = f(fn.value)
            r = getattr(recv, meth)()
            if meth in ("keys", "values", "items"):
                return list(r)
            return r
        if meth == "format" and isinstance(f(fn.value), str):
            if any(isinstance(a, ast.Starred) for a in expr.args):
                args = []
                for a in expr.args:
                    if isinstance(a, ast.Starred):
                        args.extend(f(a.value))
                    else:
                        args.append(f(a))
            else:
                args = [f(a) for a in expr.args]
            kw = {k.arg: f(k.value) for k in expr.keywords}
            return f(fn.value).format(*args, **kw)
        if meth == "join" and len(expr.args) == 1:
            return f(fn.value).join(f(expr.args[0]))
        if meth == "escape" and isinstance(fn.value, ast.Name) and fn.value.id == "re" and len(expr.args) == 1:
            import re as _re
            v = f(expr.args[0])
            if isinstance(v, str):
                return _re.escape(v)
            raise Unknown("re.escape of a non-string")
        if meth in ("startswith", "endswith", "replace", "split", "rstrip", "lstrip", "title", "capitalize") \
                and isinstance(fn.value, (ast.Constant, ast.Name)):
            recv = f(fn.value)
            if isinstance(recv, str):
                try:
                    return getattr(recv, meth)(*[f(a) for a in expr.args])
                except Exception as e:
                    raise Unknown(str(e))
        if meth == "compile" and isinstance(fn.value, ast.Name) and fn.value.id == "re":
            flags = 0
            if len(expr.args) > 1:
                flags = f(expr.args[1])
            for k in expr.keywords:
                if k.arg == "flags":
                    flags = f(k.value)
            return RegexConst(f(expr.args[0]), flags)
        raise Unknown(ast.unparse(fn))
    if isinstance(fn, ast.Name):
        name = fn.id
        if name in ("list", "tuple", "set", "frozenset", "sorted", "len", "str", "int", "dict") and not expr.keywords:
            args = [f(a) for a in expr.args]
            try:
                return {"list": list, "tuple": tuple, "set": frozenset, "frozenset": frozenset,
                        "sorted": sorted, "len": len, "str": str, "int": int, "dict": dict}[name](*args)
            except Exception as e:
                raise Unknown(str(e))
        if name == "map" and len(expr.args) == 2:
            fun = expr.args[0]
            seq = f(expr.args[1])
            if isinstance(fun, ast.Attribute) and isinstance(fun.value, ast.Name) and fun.value.id == "str" \
                    and fun.attr in ("upper", "lower"):
                return [getattr(x, fun.attr)() for x in seq]
            raise Unknown("map")
        # pure helper of this module (or imported)
        target = resolve_function(name, mod, prog)
        if target is not None:
            return _call_pure(target, expr, mod, env, prog, depth)
    raise Unknown(ast.unparse(expr)[:60])


class RegexConst:
    def __init__(self, pattern: str, flags: int):
        self.pattern = pattern
        self.flags = flags

    def __repr__(self):
        return f"RegexConst({self.pattern!r}, {self.flags})"


def resolve_function(name: str, mod: Mod, prog: Program):
    if name in mod.functions:
        return mod.functions[name]
    if name in mod.imports:
        src, orig = mod.imports[name]
        m2 = prog.mod_by_dotted(src)
        if m2 is not None and orig in m2.functions:
            return m2.functions[orig]
    return None


def _call_pure(fn, call: ast.Call, mod: Mod, env, prog, depth):
    node = fn.node
    params = node.args
    names = [a.arg for a in params.posonlyargs + params.args]
    kwonly = [a.arg for a in params.kwonlyargs]
    local: Dict[str, Any] = {}
    for n, a in zip(names, call.args):
        local[n] = fold(a, mod, env, prog, depth + 1)
    for k in call.keywords:
        if k.arg is None:
            raise Unknown("**kwargs")
        local[k.arg] = fold(k.value, mod, env, prog, depth + 1)
    if set(local) != set(names + kwonly):
        # defaults
        defaults = params.defaults
        for n, d in zip(names[len(names) - len(defaults):], defaults):
            local.setdefault(n, fold(d, fn.mod, None, prog, depth + 1))
        for n, d in zip(kwonly, params.kw_defaults):
            if d is not None:
                local.setdefault(n, fold(d, fn.mod, None, prog, depth + 1))
    if set(local) != set(names + kwonly):
        raise Unknown("argument binding")
    body = [s for s in node.body
            if not (isinstance(s, ast.Expr) and isinstance(s.value, ast.Constant))]
    for st in body[:-1]:
        if isinstance(st, ast.Assign) and len(st.targets) == 1 and \
                _bind_fold_target(st.targets[0], fold(st.value, fn.mod, local, prog, depth + 1), local):
            continue
        if isinstance(st, ast.AnnAssign) and st.value is not None and isinstance(st.target, ast.Name):
            local[st.target.id] = fold(st.value, fn.mod, local, prog, depth + 1)
            continue
        raise Unknown("helper is not pure one-expression")
    if not body or not isinstance(body[-1], ast.Return) or body[-1].value is None:
        raise Unknown("helper has no final return")
    return fold(body[-1].value, fn.mod, local, prog, depth + 1)


def _touches(st, name: str) -> bool:
    return any(isinstance(n, ast.Name) and n.id == name for n in ast.walk(st))


_MUT_METHODS = {"append", "extend", "insert", "remove", "pop", "clear", "sort", "reverse", "update", "add", "discard", "setdefault",
                "popitem"}


def _mutates(st, name: str) -> bool:
    """Does statement *st* (or a statement nested in it) rebind the module-level *name* or change the object it names in place?"""
    for n in ast.walk(st):
        if isinstance(n, ast.Call) and isinstance(n.func, ast.Attribute) and n.func.attr in _MUT_METHODS:
            base = n.func.value
            while isinstance(base, (ast.Subscript, ast.Call, ast.Attribute)):
                base = base.value if not isinstance(base, ast.Call) else base.func
            if isinstance(base, ast.Name) and base.id == name:
                return True
        if isinstance(n, (ast.Assign, ast.AugAssign, ast.AnnAssign, ast.Delete)):
            tg = n.targets if isinstance(n, (ast.Assign, ast.Delete)) else [n.target]
            for t in tg:
                for x in ast.walk(t):
                    if isinstance(x, ast.Name) and x.id == name:
                        return True
    return False


def _filled_later(name: str, mod: Mod) -> bool:
    """Is the module-level *name* changed by a top-level loop / call / augmented assignment after its (single) assignment?"""
    seen = False
    for st in mod.tree.body:
        if isinstance(st, (ast.Assign, ast.AnnAssign)) and any(
                isinstance(t, ast.Name) and t.id == name for t in (st.targets if isinstance(st, ast.Assign) else [st.target])):
            seen = True
            continue
        if seen and isinstance(st, (ast.For, ast.While, ast.AugAssign, ast.If, ast.With, ast.Expr)) and _mutates(st, name):
            return True
    return False


_MODEXEC: Dict[tuple, Any] = {}


def _module_exec(name: str, mod: Mod, prog, n_assign: int):
    """Value of a module-level name that is built by several top-level statements (`T = {}` + a loop that fills it + `T =
    tuple(sorted(T.items()))`): the top-level statements that mention it are executed in order by the analyser's evaluator,
    other names being folded on demand.  Unknown when a statement is outside the evaluator's subset."""
    key = (mod.rel, name)
    if key in _MODEXEC:
        if isinstance(_MODEXEC[key], Unknown):
            raise _MODEXEC[key]
        return _MODEXEC[key]
    from .minieval import Evaluator, Raised, Unsupported
    env: Dict[str, Any] = {}

    def lookup(n):
        if n == name or n in env:
            return None
        try:
            v = fold_name(n, mod, prog)
        except (Unknown, RecursionError):
            return None
        try:
            return ast.parse(repr(v), mode="eval").body
        except (SyntaxError, ValueError):
            return None
    ev = Evaluator({}, max_steps=200000, lookup=lookup)
    ev.globals.update({"len": len, "sorted": sorted, "tuple": tuple, "list": list, "dict": dict, "set": set, "frozenset": frozenset,
                       "reversed": lambda x: list(reversed(x)), "enumerate": lambda x, start=0: list(enumerate(x, start)),
                       "zip": lambda *x: list(zip(*x)), "max": max, "min": min, "str": str, "range": range})
    try:
        for st in mod.tree.body:
            if isinstance(st, (ast.Import, ast.ImportFrom, ast.FunctionDef, ast.AsyncFunctionDef, ast.ClassDef)):
                continue
            if not _touches(st, name):
                continue
            ev.stmt(st, env)
    except (Unsupported, Raised, LookupError, TypeError, ValueError, AttributeError) as e:
        err = Unknown(f"{name} assigned {n_assign} times in {mod.rel} and the statements that build it cannot be evaluated ({e})")
        _MODEXEC[key] = err
        raise err
    if name not in env:
        err = Unknown(f"{name} is not bound by the top-level statements of {mod.rel}")
        _MODEXEC[key] = err
        raise err
    _MODEXEC[key] = env[name]
    return env[name]


def fold_name(name: str, mod: Mod, prog: Optional[Program] = None, depth=0):
    prog = prog or program()
    if name in mod.assigns:
        vals = mod.assigns[name]
        if len(vals) != 1 or not isinstance(vals[0], ast.expr) or _filled_later(name, mod):
            return _module_exec(name, mod, prog, len(vals))
        try:
            return fold(vals[0], mod, None, prog, depth + 1)
        except Unknown as first:
            # outside the folder's expression subset (a comprehension, a conditional ...): the evaluator's turn
            try:
                return _module_exec(name, mod, prog, 1)
            except Unknown:
                raise first
    if name in mod.imports:
        src, orig = mod.imports[name]
        m2 = prog.mod_by_dotted(src)
        if m2 is None and orig is not None:
            # "from norminette.lexer import Token" style re-export through a package
            m2 = prog.mod_by_dotted(src + "." + orig)
        if m2 is not None and orig is not None:
            if orig in m2.assigns or orig in m2.imports:
                return fold_name(orig, m2, prog, depth + 1)
        # constants of the standard library taken by name: `from string import ascii_letters, digits`, `from re import VERBOSE`
        if src == "string" and orig in _STRING_CONSTS:
            return _STRING_CONSTS[orig]
        if src == "re" and orig in _RE_FLAGS:
            return _RE_FLAGS[orig]
    raise Unknown(f"name {name} in {mod.rel}")


def try_fold(expr, mod, env=None, default=None):
    try:
        return fold(expr, mod, env)
    except Unknown:
        return default
    except RecursionError:
        return default


def local_env(fn, upto=None) -> Dict[str, ast.expr]:
    """Single-assignment locals of a function whose value is foldable:
    name -> expr (only names assigned exactly once in the function, by a plain
    ``name = expr`` statement)."""
    counts: Dict[str, int] = {}
    exprs: Dict[str, ast.expr] = {}
    from .model import walk_fn
    for n in walk_fn(fn.node):
        if isinstance(n, ast.Assign):
            for t in n.targets:
                for nm in _target_names(t):
                    counts[nm] = counts.get(nm, 0) + 1
                if isinstance(t, ast.Name):
                    exprs[t.id] = n.value
        elif isinstance(n, (ast.AugAssign, ast.AnnAssign)):
            for nm in _target_names(n.target):
                counts[nm] = counts.get(nm, 0) + 2
        elif isinstance(n, (ast.For, ast.comprehension)):
            for nm in _target_names(n.target):
                counts[nm] = counts.get(nm, 0) + 2
        elif isinstance(n, ast.NamedExpr):
            counts[n.target.id] = counts.get(n.target.id, 0) + 2
        elif isinstance(n, ast.With):
            for it in n.items:
                if it.optional_vars is not None:
                    for nm in _target_names(it.optional_vars):
                        counts[nm] = counts.get(nm, 0) + 2
    for p in fn.params:
        counts[p] = counts.get(p, 0) + 2
    return {k: v for k, v in exprs.items() if counts.get(k) == 1}


def _target_names(t):
    if isinstance(t, ast.Name):
        yield t.id
    elif isinstance(t, (ast.Tuple, ast.List)):
        for e in t.elts:
            yield from _target_names(e)
    elif isinstance(t, ast.Starred):
        yield from _target_names(t.value)


def fold_in_fn(expr, fn, default=None):
    """Fold an expression that appears inside function *fn*: module constants
    plus single-assignment foldable locals."""
    env_exprs = local_env(fn)
    env: Dict[str, Any] = {}
    # resolve lazily, two passes are enough for the chains present in the tree
    for _ in range(3):
        for k, e in env_exprs.items():
            if k not in env:
                v = try_fold(e, fn.mod, env, default=_MISSING)
                if v is not _MISSING:
                    env[k] = v
    try:
        return fold(expr, fn.mod, env)
    except (Unknown, RecursionError):
        pass
    # class-level constants read through self / cls / the class name:  `self.MAX_LINES`, `CheckBrace.BLANKS`
    try:
        sub = _with_class_constants(expr, fn)
        if sub is not expr:
            return fold(sub, fn.mod, env)
    except (Unknown, RecursionError):
        pass
    return default


def class_constants(cls) -> Dict[str, Any]:
    """Foldable class-level assignments of *cls*, in order (a later one may use an earlier one: `B = A + 1`)."""
    env: Dict[str, Any] = {}
    for name, e in cls.attrs.items():
        v = try_fold(e, cls.mod, env, default=_MISSING)
        if v is not _MISSING:
            env[name] = v
    return env


def _with_class_constants(expr, fn):
    """*expr* with `self.X` / `cls.X` / `<Class>.X` replaced by the value expression of the class-level assignment X (own
    class or a base of the analysed tree); *expr* itself when there is nothing to replace."""
    prog = program()
    own = fn
    while own is not None and own.cls is None:
        own = own.outer
    mapping = {}
    for n in ast.walk(expr):
        if isinstance(n, ast.Attribute) and isinstance(n.ctx, ast.Load) and isinstance(n.value, ast.Name):
            base = n.value.id
            cname = own.cls.name if (base in ("self", "cls") and own is not None) else base if base in prog.classes else None
            seen = set()
            while cname is not None and cname in prog.classes and cname not in seen:
                seen.add(cname)
                c = prog.classes[cname]
                if n.attr in c.attrs:
                    consts = class_constants(c)
                    if n.attr in consts:
                        try:
                            mapping[id(n)] = ast.parse(repr(consts[n.attr]), mode="eval").body
                        except SyntaxError:
                            pass
                    break
                cname = c.bases[0] if c.bases else None
    if not mapping:
        return expr
    from .dataflow import _clone
    return _clone(expr, mapping)


_MISSING = object()
