"""Facts shared by several properties: registry model, emission sites,
liveness, catalogue."""
from __future__ import annotations

import ast
from typing import Any, Dict, List, Optional, Set, Tuple

from .calls import callgraph
from .cfg import cfg_of
from .fold import Unknown, fold, fold_in_fn, fold_name, try_fold
from .model import AnalysisError, Cls, Fn, Program, ancestors, enclosing_fn, enclosing_stmt, parent, walk_fn


# ---------------------------------------------------------------- registry
class RegistryModel:
    """Symbolic evaluation of Check.__init_subclass__ / Check.register /
    Primary.__init_subclass__ / Rules.__init__ / Registry.__init__."""

    def __init__(self, prog: Program):
        self.prog = prog
        self.primaries: List[Cls] = []
        self.checks: List[Cls] = []
        self.priority: Dict[str, Any] = {}
        self.depends_on: Dict[str, List[str]] = {}
        self.flags: Dict[str, Dict[str, bool]] = {}
        self.slots: Dict[str, List[str]] = {}
        self.scope: Dict[str, Optional[List[str]]] = {}
        for c in prog.subclasses("Rule"):
            is_p = prog.is_sub(c.name, "Primary")
            is_c = prog.is_sub(c.name, "Check")
            if is_p:
                self.primaries.append(c)
                pr = c.kw.get("priority")
                self.priority[c.name] = try_fold(pr, c.mod, default=None) if pr is not None else 0
                sc = self._inherited_attr(c, "scope")
                if sc is None:
                    self.scope[c.name] = []
                elif isinstance(sc, (ast.Tuple, ast.List)):
                    self.scope[c.name] = [ast.unparse(e) for e in sc.elts]
                else:
                    self.scope[c.name] = None       # not a display: unknown
            if is_c:
                self.checks.append(c)
                dep = self._inherited_attr(c, "depends_on")
                deps: List[str] = []
                if dep is not None:
                    v = try_fold(dep, c.mod, default=None)
                    if v is None or not all(isinstance(x, str) for x in v):
                        raise AnalysisError(f"{c.key}: depends_on is not a foldable sequence of strings")
                    deps = list(v)
                self.depends_on[c.name] = deps
                fl = {}
                for name, default in (("runs_on_start", False), ("runs_on_rule", not deps), ("runs_on_end", False)):
                    if name in c.kw:
                        val = try_fold(c.kw[name], c.mod, default=None)
                    else:
                        a = self._inherited_attr(c, name)
                        val = try_fold(a, c.mod, default=None) if a is not None else default
                    if not isinstance(val, bool):
                        raise AnalysisError(f"{c.key}: {name} is not a foldable bool")
                    fl[name] = val
                self.flags[c.name] = fl
                for d in deps:
                    self.slots.setdefault(d, []).append(c.name)
                if fl["runs_on_start"]:
                    self.slots.setdefault("_start", []).append(c.name)
                if fl["runs_on_rule"]:
                    self.slots.setdefault("_rule", []).append(c.name)
                if fl["runs_on_end"]:
                    self.slots.setdefault("_end", []).append(c.name)
        self.primary_names = {c.name for c in self.primaries}
        self.scope_classes = {c.name for c in prog.subclasses("Scope")}

    def _inherited_attr(self, c: Cls, name: str):
        seen = set()
        todo = [c.name]
        while todo:
            n = todo.pop(0)
            if n in seen or n not in self.prog.classes:
                continue
            seen.add(n)
            k = self.prog.classes[n]
            if name in k.attrs:
                return k.attrs[name]
            todo.extend(k.bases)
        return None

    def primary_can_run(self, name: str) -> bool:
        sc = self.scope.get(name)
        if sc is None:
            return False
        if sc == []:
            return True
        return any(s in self.scope_classes for s in sc)

    def live_slots(self, check: str) -> List[str]:
        out = []
        for d in self.depends_on.get(check, []):
            if d in self.primary_names and self.primary_can_run(d):
                out.append(d)
        fl = self.flags.get(check, {})
        if fl.get("runs_on_start"):
            out.append("_start")
        if fl.get("runs_on_rule"):
            out.append("_rule")
        if fl.get("runs_on_end"):
            out.append("_end")
        return out

    def live_rules(self) -> List[Cls]:
        out = [c for c in self.primaries if self.primary_can_run(c.name)]
        out += [c for c in self.checks if self.live_slots(c.name)]
        return out


_RM: Dict[int, RegistryModel] = {}


def registry_model(prog: Program) -> RegistryModel:
    if id(prog) not in _RM:
        _RM[id(prog)] = RegistryModel(prog)
    return _RM[id(prog)]


# --------------------------------------------------------------- catalogue
def catalogue(prog: Program) -> Dict[str, str]:
    m = prog.mod("norm_error.py")
    try:
        d = fold_name("errors", m)
    except Unknown as e:
        raise AnalysisError(f"catalogue norm_error.errors does not fold: {e}")
    if not isinstance(d, dict) or len(d) < 100:
        raise AnalysisError("catalogue norm_error.errors is not a dict of >= 100 entries")
    return d


def catalogue_literal(prog: Program) -> ast.Dict:
    m = prog.mod("norm_error.py")
    v = m.assigns.get("errors")
    if not v or not isinstance(v[0], ast.Dict):
        raise AnalysisError("anchor vanished: norm_error.errors dict display")
    return v[0]


# ---------------------------------------------------------- emission sites
class Emission:
    __slots__ = ("fn", "node", "kind", "code_expr", "tok_expr", "level_expr", "codes", "stmt")

    def __init__(self, fn, node, kind, code_expr, tok_expr=None, level_expr=None):
        self.fn = fn
        self.node = node
        self.kind = kind
        self.code_expr = code_expr
        self.tok_expr = tok_expr
        self.level_expr = level_expr
        self.codes: Optional[Set[str]] = None
        self.stmt = enclosing_stmt(node)


def _kw(call: ast.Call, name: str):
    for k in call.keywords:
        if k.arg == name:
            return k.value
    return None


def emission_sites(prog: Program) -> List[Emission]:
    """Every call that creates a diagnostic: context.new_error / new_warning,
    Error.from_name(...), Error(...) direct, <errors>.add/append("CODE"...)."""
    out: List[Emission] = []
    for fn in prog.fns:
        for n in walk_fn(fn.node):
            if not isinstance(n, ast.Call):
                continue
            f = n.func
            if isinstance(f, ast.Attribute) and f.attr in ("new_error", "new_warning"):
                if fn.cls is not None and fn.cls.name == "Context":
                    pass
                code = n.args[0] if n.args else _kw(n, "errno")
                tok = n.args[1] if len(n.args) > 1 else _kw(n, "tkn")
                out.append(Emission(fn, n, f.attr, code, tok))
            elif isinstance(f, ast.Attribute) and f.attr == "from_name" and isinstance(f.value, ast.Name) \
                    and f.value.id in ("Error", "cls"):
                code = n.args[0] if n.args else _kw(n, "name")
                out.append(Emission(fn, n, "from_name", code, None, _kw(n, "level")))
            elif isinstance(f, ast.Name) and f.id == "Error" and fn.mod.rel != "errors.py":
                code = n.args[0] if n.args else _kw(n, "name")
                out.append(Emission(fn, n, "Error", code, None, _kw(n, "level")))
            elif isinstance(f, ast.Attribute) and f.attr in ("add", "append") and n.args \
                    and ast.unparse(f.value).endswith("errors"):
                a0 = n.args[0]
                if isinstance(a0, (ast.Constant, ast.JoinedStr)) and (not isinstance(a0, ast.Constant) or isinstance(a0.value, str)):
                    out.append(Emission(fn, n, "errors.add", a0, None, _kw(n, "level")))
    return out


def _starred_element_values(fn: Fn, expr, k: int) -> Optional[Set[str]]:
    """Strings that element *k* of the sequence *expr* may be: *expr* folds to a sequence, or is a lookup (by an unknown
    key) in a foldable table of sequences, or a conditional between such."""
    if isinstance(expr, ast.IfExp):
        a, b = _starred_element_values(fn, expr.body, k), _starred_element_values(fn, expr.orelse, k)
        return None if a is None or b is None else a | b
    v = fold_in_fn(expr, fn, default=None)
    if isinstance(v, (tuple, list)):
        rows = [v]
    elif isinstance(expr, ast.Subscript):
        t = fold_in_fn(expr.value, fn, default=None)
        rows = list(t.values()) if isinstance(t, dict) else list(t) if isinstance(t, (tuple, list)) else None
        if not rows:
            return None
    elif isinstance(expr, ast.Call) and isinstance(expr.func, ast.Attribute) and expr.func.attr == "get" and expr.args:
        t = fold_in_fn(expr.func.value, fn, default=None)
        if not isinstance(t, dict) or not t or len(expr.args) != 1:
            return None
        rows = list(t.values())
    else:
        return None
    out: Set[str] = set()
    for r in rows:
        if not isinstance(r, (tuple, list)) or k >= len(r) or not isinstance(r[k], str):
            return None
        out.add(r[k])
    return out


def param_value_sets(prog: Program, fn: Fn, pname: str, depth=0) -> Optional[Set[str]]:
    """Union over resolved call sites of the string values passed for parameter *pname*."""
    cg = callgraph(prog)
    params = fn.params
    if pname not in params:
        return None
    idx = params.index(pname)
    if fn.cls is not None and params and params[0] in ("self", "cls") and not any("staticmethod" in d for d in fn.decorators):
        idx -= 1
    vals: Set[str] = set()
    sites = cg.sites.get(fn.key, [])
    if not sites:
        return None
    for c in sites:
        call = c.node
        if not isinstance(call, ast.Call):
            return None
        arg = None
        star = next((i for i, a in enumerate(call.args) if isinstance(a, ast.Starred)), None)
        if star is not None and star <= idx:
            # f(*TABLE[key]) / f(*row): the parameter takes one element of every sequence the starred value may be
            if any(isinstance(a, ast.Starred) for a in call.args[star + 1:]):
                return None
            v = _starred_element_values(c.caller, call.args[star].value, idx - star)
            if v is None:
                return None
            vals |= v
            continue
        if idx < len(call.args):
            arg = call.args[idx]
        else:
            arg = _kw(call, pname)
        if arg is None:
            return None
        v = value_set(prog, c.caller, arg, depth + 1)
        if v is None:
            return None
        vals |= v
    return vals


def value_set(prog: Program, fn: Fn, expr, depth=0) -> Optional[Set[str]]:
    """Finite set of strings the expression may evaluate to, or None (unknown)."""
    if depth > 4:
        return None
    v = fold_in_fn(expr, fn, default=None)
    if isinstance(v, str):
        return {v}
    if isinstance(expr, ast.Name):
        # parameter of the function (or of an enclosing one): union over call sites
        f: Optional[Fn] = fn
        while f is not None:
            if expr.id in f.params:
                return param_value_sets(prog, f, expr.id, depth + 1)
            f = f.outer
        got = loop_bound_values(fn, expr.id)
        return got if got is not None else assigned_values(prog, fn, expr.id, depth + 1)
    if isinstance(expr, ast.JoinedStr):
        parts: List[Set[str]] = []
        for p in expr.values:
            if isinstance(p, ast.Constant):
                parts.append({str(p.value)})
            elif isinstance(p, ast.FormattedValue) and p.conversion == -1 and p.format_spec is None:
                vs = value_set(prog, fn, p.value, depth + 1)
                if vs is None:
                    vs = guard_value_set(prog, fn, p.value, expr)
                if vs is None:
                    return None
                parts.append(vs)
            else:
                return None
        res = {""}
        for ps in parts:
            res = {a + b for a in res for b in ps}
            if len(res) > 500:
                return None
        return res
    # "INVALID_{}_INT".format(name) / "INVALID_%s_INT" % name / "A" + name: templates over value sets
    if isinstance(expr, ast.Call) and isinstance(expr.func, ast.Attribute) and expr.func.attr == "format" \
            and isinstance(expr.func.value, ast.Constant) and isinstance(expr.func.value.value, str) \
            and not any(isinstance(a, ast.Starred) for a in expr.args) and all(k.arg for k in expr.keywords):
        import itertools
        pos_sets = [value_set(prog, fn, a, depth + 1) or guard_value_set(prog, fn, a, expr) for a in expr.args]
        kw_sets = {k.arg: (value_set(prog, fn, k.value, depth + 1) or guard_value_set(prog, fn, k.value, expr)) for k in expr.keywords}
        if any(x is None for x in pos_sets) or any(x is None for x in kw_sets.values()):
            return None
        out_: Set[str] = set()
        names = sorted(kw_sets)
        for combo in itertools.product(*pos_sets, *[kw_sets[n] for n in names]):
            try:
                out_.add(expr.func.value.value.format(*combo[:len(pos_sets)], **dict(zip(names, combo[len(pos_sets):]))))
            except (IndexError, KeyError, ValueError):
                return None
            if len(out_) > 500:
                return None
        return out_ or None
    if isinstance(expr, ast.BinOp) and isinstance(expr.op, (ast.Mod, ast.Add)):
        l = value_set(prog, fn, expr.left, depth + 1)
        if l is not None:
            if isinstance(expr.op, ast.Add):
                r = value_set(prog, fn, expr.right, depth + 1)
                if r is not None and len(l) * len(r) <= 500:
                    return {a + b for a in l for b in r}
                return None
            rights = expr.right.elts if isinstance(expr.right, ast.Tuple) else [expr.right]
            rsets = [value_set(prog, fn, a, depth + 1) or guard_value_set(prog, fn, a, expr) for a in rights]
            if all(x is not None for x in rsets):
                import itertools
                out2: Set[str] = set()
                for tmpl in l:
                    for combo in itertools.product(*rsets):
                        try:
                            out2.add(tmpl % (combo if isinstance(expr.right, ast.Tuple) else combo[0]))
                        except (TypeError, ValueError):
                            return None
                return out2 or None
        return None
    if isinstance(expr, ast.IfExp):
        is_none = lambda e: isinstance(e, ast.Constant) and e.value is None        # noqa: E731  (`"CODE" if c else None`)
        a = set() if is_none(expr.body) else value_set(prog, fn, expr.body, depth + 1)
        b = set() if is_none(expr.orelse) else value_set(prog, fn, expr.orelse, depth + 1)
        if a is None or b is None or not (a | b):
            return None
        return a | b
    if isinstance(expr, ast.BoolOp):
        # `CODES.get(kind) or "DEFAULT"`: any operand may be the value
        out: Set[str] = set()
        for v_ in expr.values:
            x = value_set(prog, fn, v_, depth + 1)
            if x is None:
                return None
            out |= x
        return out
    # TABLE[key] / TABLE.get(key[, default]) over a folded table of strings: any of its values
    table = default_ = None
    if isinstance(expr, ast.Subscript) and not isinstance(expr.slice, ast.Slice):
        table = fold_in_fn(expr.value, fn, default=None)
    elif isinstance(expr, ast.Call) and isinstance(expr.func, ast.Attribute) and expr.func.attr == "get" and 1 <= len(expr.args) <= 2:
        table = fold_in_fn(expr.func.value, fn, default=None)
        table = table if isinstance(table, dict) else None
        if table is not None and len(expr.args) == 2:
            default_ = value_set(prog, fn, expr.args[1], depth + 1)
            if default_ is None and not (isinstance(expr.args[1], ast.Constant) and expr.args[1].value is None):
                return None
    if isinstance(table, dict):
        vals = list(table.values())
    elif isinstance(table, (tuple, list)):
        vals = list(table)
    else:
        vals = None
    if vals and all(isinstance(x, str) for x in vals):
        return set(vals) | (default_ or set())
    return None


def assigned_values(prog: Program, fn: Fn, name: str, depth=0) -> Optional[Set[str]]:
    """Strings a local can hold when every binding of it in the function is a plain ``name = <expr>`` whose value set is
    known (``code = "A" if c else "B"``; ``code = "A"`` ... ``code = "B"`` on another branch).  None when the name is bound
    in any other way (loop target, augmented assignment, unpacking ...)."""
    vals: Set[str] = set()
    found = False
    for n in walk_fn(fn.node):
        if isinstance(n, ast.Assign):
            for t in n.targets:
                if isinstance(t, ast.Name) and t.id == name:
                    if isinstance(n.value, ast.Constant) and n.value.value is None:
                        continue                         # `code = None` placeholder: not a code
                    v = value_set(prog, fn, n.value, depth + 1)
                    if v is None:
                        return None
                    vals |= v
                    found = True
                elif any(isinstance(x, ast.Name) and x.id == name for x in ast.walk(t)):
                    col = unpacked_table_values(fn, n, name)     # prefix, code = TABLE[kind]
                    if col is None:
                        return None
                    vals |= col
                    found = True
        elif isinstance(n, (ast.AugAssign, ast.AnnAssign, ast.NamedExpr)) and any(
                isinstance(x, ast.Name) and x.id == name for x in ast.walk(n.target)):
            return None
        elif isinstance(n, (ast.For, ast.comprehension)) and any(isinstance(x, ast.Name) and x.id == name for x in ast.walk(n.target)):
            return None
    return vals if found else None


def unpacked_table_values(fn: Fn, assign: ast.Assign, name: str) -> Optional[Set[str]]:
    """``a, name, c = TABLE[key]`` / ``TABLE.get(key)`` with TABLE a folded dict / sequence of equally long tuples: the strings
    of the column *name* is unpacked from."""
    if len(assign.targets) != 1 or not isinstance(assign.targets[0], (ast.Tuple, ast.List)):
        return None
    v = assign.value
    table = None
    if isinstance(v, ast.Subscript) and not isinstance(v.slice, ast.Slice):
        table = fold_in_fn(v.value, fn, default=None)
    elif isinstance(v, ast.Call) and isinstance(v.func, ast.Attribute) and v.func.attr == "get" and len(v.args) == 1:
        table = fold_in_fn(v.func.value, fn, default=None)
    rows = list(table.values()) if isinstance(table, dict) else list(table) if isinstance(table, (tuple, list)) else None
    if not rows:
        return None
    out: Set[str] = set()
    for row in rows:
        got = _component(assign.targets[0], row, name)
        if not isinstance(got, str):
            return None
        out.add(got)
    return out


def loop_bound_values(fn: Fn, name: str) -> Optional[Set[str]]:
    """Strings a local can hold when its only bindings are targets of for-loops over folded tables:
    ``for prefixes, name, bucket in TABLE`` -> the second component of every row of TABLE."""
    vals: Set[str] = set()
    found = False
    for n in walk_fn(fn.node):
        tgts = []
        if isinstance(n, ast.Assign):
            tgts = n.targets
        elif isinstance(n, (ast.AugAssign, ast.AnnAssign, ast.NamedExpr)):
            tgts = [n.target]
        if any(isinstance(x, ast.Name) and x.id == name for t in tgts for x in ast.walk(t)):
            return None                         # also bound otherwise: not decided here
        if isinstance(n, (ast.For, ast.comprehension)) and any(
                isinstance(x, ast.Name) and x.id == name for x in ast.walk(n.target)):
            it = fold_in_fn(n.iter, fn, default=None)
            if isinstance(it, dict):
                it = list(it)
            if not isinstance(it, (tuple, list, set, frozenset)):
                return None
            for row in it:
                got = _component(n.target, row, name)
                if not isinstance(got, str):
                    return None
                vals.add(got)
            found = True
    return vals if found else None


def _component(target, value, name: str):
    if isinstance(target, ast.Name):
        return value if target.id == name else None
    if isinstance(target, (ast.Tuple, ast.List)) and isinstance(value, (tuple, list)) and len(value) == len(target.elts):
        for t, v in zip(target.elts, value):
            got = _component(t, v, name)
            if got is not None:
                return got
    return None


def guard_value_set(prog: Program, fn: Fn, expr, at_node) -> Optional[Set[str]]:
    """Value set of *expr* (e.g. ``token.type``) from a dominating guard
    ``expr in (<literals>)`` / ``expr == <literal>`` that is a conjunct of an
    enclosing ``if`` test (true branch)."""
    want = ast.unparse(expr)
    node = at_node
    for anc in ancestors(at_node):
        if isinstance(anc, ast.If) and _in_body(anc, node):
            for conj in conjuncts(anc.test):
                vs = _membership(conj, want, fn)
                if vs is not None:
                    return vs
        if isinstance(anc, (ast.FunctionDef, ast.AsyncFunctionDef)):
            break
    return None


def _in_body(ifnode: ast.If, node) -> bool:
    n = node
    while n is not None and parent(n) is not ifnode:
        n = parent(n)
    return n is not None and any(n is s for s in ifnode.body)


def conjuncts(test):
    if isinstance(test, ast.BoolOp) and isinstance(test.op, ast.And):
        for v in test.values:
            yield from conjuncts(v)
    else:
        yield test


def disjuncts(test):
    if isinstance(test, ast.BoolOp) and isinstance(test.op, ast.Or):
        for v in test.values:
            yield from disjuncts(v)
    else:
        yield test


def _membership(cond, want: str, fn: Fn) -> Optional[Set[str]]:
    if isinstance(cond, ast.Compare) and len(cond.ops) == 1 and ast.unparse(cond.left) == want:
        op, rhs = cond.ops[0], cond.comparators[0]
        v = fold_in_fn(rhs, fn, default=None)
        if isinstance(op, ast.In) and isinstance(v, (tuple, list, frozenset, set)) and all(isinstance(x, str) for x in v):
            return set(v)
        if isinstance(op, ast.Eq) and isinstance(v, str):
            return {v}
    return None


# ------------------------------------------------------------------ liveness
def trivially_dead(node) -> bool:
    """The statement containing *node* cannot execute: unreachable in its
    function's CFG (code after an unconditional return/raise/continue/break),
    or under an ``if`` whose test folds to a constant false."""
    fn = enclosing_fn(node)
    st = enclosing_stmt(node)
    if fn is None or st is None:
        return False
    g = cfg_of(fn)
    # the statement, or the compound statement test that owns it
    n = st
    nid = g.nid(n)
    while nid is None and n is not None:
        if isinstance(n, (ast.If, ast.While)):
            nid = g.nid(n.test)
        elif isinstance(n, (ast.For, ast.With, ast.Try)):
            nid = g.nid(n)
        if nid is None:
            n = parent(n)
            if isinstance(n, (ast.FunctionDef, ast.AsyncFunctionDef)):
                break
            nid = g.nid(n) if n is not None else None
    if nid is not None and nid not in g.reachable():
        return True
    # constant-false guards
    cur = st
    for anc in ancestors(st):
        if isinstance(anc, ast.If):
            v = try_fold(anc.test, fn.mod, default=None)
            if v is not None and not isinstance(v, (ast.AST,)):
                in_body = any(cur is s for s in anc.body)
                if in_body and not v:
                    return True
                if not in_body and v and any(cur is s for s in anc.orelse):
                    return True
        if isinstance(anc, (ast.FunctionDef, ast.AsyncFunctionDef)):
            break
        cur = anc
    return False


def entry_roots(prog: Program) -> List[str]:
    """Functions from which analysis-time code is reached."""
    rm = registry_model(prog)
    roots = []
    for c in rm.live_rules():
        m = prog.method(c.name, "run")
        if m is not None:
            roots.append(m.key)
    for k in ("lexer/lexer.py::Lexer.__iter__", "registry.py::Registry.run", "__main__.py::main"):
        if k in prog.fn_by_key:
            roots.append(k)
    return roots


def live_function_keys(prog: Program) -> Set[str]:
    """Call-graph reachability from the live rules' run methods, the lexer
    iterator and main, *cut* at trivially dead call sites."""
    cg = callgraph(prog)
    seen: Set[str] = set()
    todo = list(entry_roots(prog))
    # Registry.run_rules reaches rule.run of every Rule subclass dynamically;
    # liveness of rules is decided by the registry model instead, so cut that edge.
    live_run = set(entry_roots(prog))
    while todo:
        k = todo.pop()
        if k in seen:
            continue
        seen.add(k)
        for c in cg.calls_of.get(k, []):
            if c.how == "dynamic:rule.run":
                continue
            if trivially_dead(c.node):
                continue
            for t in c.targets:
                if t.key not in seen:
                    todo.append(t.key)
    return seen | live_run
