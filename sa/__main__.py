from __future__ import annotations

import argparse
import importlib
import json
import os
import sys
import traceback

from .model import AnalysisError


def _check_with_undecided(mod, prop: str, tier: str, prog):
    """Run mod.check; a rule function that raises Undecided (the code under analysis uses a construct outside the
    evaluable subset of the analyser's interpreters) is replaced by a stub that records the fact, and the check is run
    again so that every other rule is still decided.  An Undecided raised by check() itself is not recoverable."""
    import sys
    from .model import Undecided
    from .report import Run
    skipped = {}
    while True:
        run = Run(prop, tier)
        patched = []
        for (modname, fname), why in skipped.items():
            m = sys.modules[modname]
            orig = getattr(m, fname)

            def stub(run_, *a, _f=fname, _w=why, **k):
                run_.undecided.append({"rule_function": _f, "reason": _w})
                return None
            setattr(m, fname, stub)
            patched.append((m, fname, orig))
        try:
            mod.check(run, prog)
            return run
        except Undecided as e:
            tb = e.__traceback__
            frames = []
            while tb is not None:
                frames.append(tb.tb_frame)
                tb = tb.tb_next
            target = None
            for i, fr in enumerate(frames):
                if fr.f_code.co_name == "check" and fr.f_globals.get("__name__") == mod.__name__ and i + 1 < len(frames):
                    nxt = frames[i + 1]
                    nm, mn = nxt.f_code.co_name, nxt.f_globals.get("__name__", "")
                    if mn.startswith("sa.rules.") and getattr(sys.modules.get(mn), nm, None) is not None \
                            and nxt.f_code.co_argcount >= 2 and nxt.f_code.co_varnames[0] == "run":
                        target = (mn, nm)
                    break
            if target is None or target in skipped or len(skipped) >= 8:
                raise
            skipped[target] = str(e)
        finally:
            for m, fname, orig in patched:
                setattr(m, fname, orig)


def _check(prop: str, tier: str) -> int:
    from .report import Run
    from .model import program
    prop = prop.upper()
    try:
        mod = importlib.import_module(f"sa.rules.{prop.lower()}")
    except ModuleNotFoundError:
        print(f"ANALYSIS-ERROR property={prop} no rule module (property not claimed)")
        return 2
    run = Run(prop, tier)
    # watchdog for the rules themselves (not for the battery, which runs in sub-processes): the analyser's interpreter runs
    # regular expressions of the tree natively; if it ever does not come back, that is an analysis error, not a hang
    import signal

    class _Timeout(BaseException):
        pass

    def _alarm(signum, frame):
        raise _Timeout()
    limit = int(os.environ.get("SA_RULE_TIMEOUT", "600"))
    old_handler = None
    try:
        old_handler = signal.signal(signal.SIGALRM, _alarm)
        signal.alarm(limit)
    except (ValueError, AttributeError):
        old_handler = None
    try:
        prog = program()
        try:
            run = _check_with_undecided(mod, prop, tier, prog)
        finally:
            if old_handler is not None:
                signal.alarm(0)
                signal.signal(signal.SIGALRM, old_handler)
        if tier == "thorough":
            from . import battery
            battery.run_for(run, prop)
        return run.finish()
    except AnalysisError as e:
        print(f"ANALYSIS-ERROR property={prop} {e}")
        return 2
    except _Timeout:
        print(f"ANALYSIS-ERROR property={prop} the rules did not finish within {limit} s (SA_RULE_TIMEOUT)")
        return 2
    except Exception:
        traceback.print_exc()
        print(f"ANALYSIS-ERROR property={prop} internal error in the analyser (traceback above)")
        return 2


def main(argv=None) -> int:
    # the reports quote pieces of the inputs the rules feed the analysed code (paths with bytes that are not UTF-8, control
    # characters): whatever they hold, the report must come out as text
    for stream in (sys.stdout, sys.stderr):
        try:
            stream.reconfigure(errors="backslashreplace")
        except (AttributeError, ValueError):
            pass
    ap = argparse.ArgumentParser(prog="sa")
    sub = ap.add_subparsers(dest="cmd", required=True)
    c = sub.add_parser("check")
    c.add_argument("prop")
    c.add_argument("--tier", default=os.environ.get("VERIF_TIER", "quick"), choices=["quick", "thorough"])
    sub.add_parser("selfcheck")
    a = sub.add_parser("all")
    a.add_argument("--tier", default="quick", choices=["quick", "thorough"])
    e = sub.add_parser("explain")
    e.add_argument("path")
    args = ap.parse_args(argv)
    if args.cmd == "check":
        return _check(args.prop, args.tier)
    if args.cmd == "selfcheck":
        from .selfcheck import selfcheck
        try:
            return selfcheck()
        except AnalysisError as ex:
            print(f"ANALYSIS-ERROR selfcheck {ex}")
            return 2
    if args.cmd == "all":
        rc = 0
        for i in range(2, 20):
            r = _check(f"C{i:02d}", args.tier)
            rc = max(rc, r)
        return rc
    if args.cmd == "explain":
        with open(args.path) as fh:
            d = json.load(fh)
        for v in d.get("violations", []):
            print(f"[{d.get('property')}] {v['rule']}  {v['key']}")
            print(f"    {v['what']}")
            if v.get("loc"):
                print(f"    at {v['loc']}: {v.get('text', '')}")
            for k, val in (v.get("facts") or {}).items():
                print(f"    {k}: {val}")
        return 0
    return 2


if __name__ == "__main__":
    sys.exit(main())
