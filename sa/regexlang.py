"""Regular-language engine: ``re._parser`` tree -> epsilon-NFA over an explicit
finite universe of characters; inclusion (with on-the-fly determinisation of
the right-hand side) and intersection-emptiness with shortest witness.

Supported pattern constructs: literals, negated literals, ``.``, character
classes (ranges, negation, \\d \\w \\s and complements), alternation, groups
(capturing or not), greedy / lazy repetition (language-equivalent).  Anchors,
look-around, back-references and conditionals raise ``UnsupportedRegex`` (the
calling rule reports ANALYSIS-ERROR).
"""
from __future__ import annotations

import re
import re._constants as sre_c       # type: ignore
import re._parser as sre_parse      # type: ignore
from collections import deque
from typing import Callable, Dict, FrozenSet, List, Optional, Set, Tuple


class UnsupportedRegex(Exception):
    pass


# Universe: tab, newline, printable ASCII and one representative of "anything else".
OTHER = "é"
UNIVERSE: Tuple[str, ...] = tuple(["\t", "\n"] + [chr(c) for c in range(32, 127)] + [OTHER])


class NFA:
    def __init__(self):
        self.n = 0
        self.eps: List[List[int]] = []
        self.trans: List[List[Tuple[FrozenSet[str], int]]] = []
        self.start = self.new()
        self.accept: Set[int] = set()

    def new(self) -> int:
        self.eps.append([])
        self.trans.append([])
        self.n += 1
        return self.n - 1

    def add_eps(self, a: int, b: int):
        self.eps[a].append(b)

    def add(self, a: int, chars: FrozenSet[str], b: int):
        if chars:
            self.trans[a].append((chars, b))

    def closure(self, states) -> FrozenSet[int]:
        seen = set(states)
        todo = list(states)
        while todo:
            s = todo.pop()
            for t in self.eps[s]:
                if t not in seen:
                    seen.add(t)
                    todo.append(t)
        return frozenset(seen)


_CATS = {
    sre_c.CATEGORY_DIGIT: r"\d", sre_c.CATEGORY_NOT_DIGIT: r"\D",
    sre_c.CATEGORY_SPACE: r"\s", sre_c.CATEGORY_NOT_SPACE: r"\S",
    sre_c.CATEGORY_WORD: r"\w", sre_c.CATEGORY_NOT_WORD: r"\W",
}


def _cat_set(cat) -> FrozenSet[str]:
    pat = _CATS.get(cat)
    if pat is None:
        raise UnsupportedRegex(f"category {cat}")
    rx = re.compile(pat)
    return frozenset(c for c in UNIVERSE if rx.match(c))


def _in_set(items, flags) -> FrozenSet[str]:
    neg = False
    acc: Set[str] = set()
    for op, av in items:
        if op is sre_c.NEGATE:
            neg = True
        elif op is sre_c.LITERAL:
            acc.update(c for c in UNIVERSE if ord(c) == av)
        elif op is sre_c.RANGE:
            acc.update(c for c in UNIVERSE if av[0] <= ord(c) <= av[1])
            if av[1] >= 128:
                acc.add(OTHER)
        elif op is sre_c.CATEGORY:
            acc |= _cat_set(av)
        else:
            raise UnsupportedRegex(f"class item {op}")
    return frozenset(set(UNIVERSE) - acc) if neg else frozenset(acc)


def _build(nfa: NFA, seq, start: int, flags: int) -> int:
    """Append the sub-pattern *seq* after state *start*; return the end state."""
    cur = start
    for op, av in seq:
        if op is sre_c.LITERAL:
            nxt = nfa.new()
            nfa.add(cur, frozenset(c for c in UNIVERSE if ord(c) == av), nxt)
            cur = nxt
        elif op is sre_c.NOT_LITERAL:
            nxt = nfa.new()
            nfa.add(cur, frozenset(c for c in UNIVERSE if ord(c) != av), nxt)
            cur = nxt
        elif op is sre_c.ANY:
            nxt = nfa.new()
            chars = frozenset(UNIVERSE) if flags & re.DOTALL else frozenset(c for c in UNIVERSE if c != "\n")
            nfa.add(cur, chars, nxt)
            cur = nxt
        elif op is sre_c.IN:
            nxt = nfa.new()
            nfa.add(cur, _in_set(av, flags), nxt)
            cur = nxt
        elif op is sre_c.BRANCH:
            end = nfa.new()
            for alt in av[1]:
                s = nfa.new()
                nfa.add_eps(cur, s)
                e = _build(nfa, alt, s, flags)
                nfa.add_eps(e, end)
            cur = end
        elif op is sre_c.SUBPATTERN:
            cur = _build(nfa, av[3], cur, flags)
        elif op in (sre_c.MAX_REPEAT, sre_c.MIN_REPEAT) or op is getattr(sre_c, "POSSESSIVE_REPEAT", object()):
            lo, hi, sub = av
            for _ in range(lo):
                cur = _build(nfa, sub, cur, flags)
            if hi is sre_c.MAXREPEAT or hi == sre_c.MAXREPEAT:
                loop = nfa.new()
                nfa.add_eps(cur, loop)
                e = _build(nfa, sub, loop, flags)
                nfa.add_eps(e, loop)
                cur = loop
            else:
                end = nfa.new()
                nfa.add_eps(cur, end)
                for _ in range(hi - lo):
                    cur = _build(nfa, sub, cur, flags)
                    nfa.add_eps(cur, end)
                cur = end
        elif op is getattr(sre_c, "ATOMIC_GROUP", object()):
            cur = _build(nfa, av, cur, flags)
        else:
            raise UnsupportedRegex(f"construct {op}")
    return cur


def from_pattern(pattern: str, flags: int = 0, mode: str = "search") -> NFA:
    """NFA of the set of strings s such that re.<mode>(pattern, s) succeeds.
    mode: 'search' (Sigma* R Sigma*), 'match' (R Sigma*), 'fullmatch' (R)."""
    tree = sre_parse.parse(pattern, flags)
    eff_flags = flags | tree.state.flags
    nfa = NFA()
    s = nfa.start
    allc = frozenset(UNIVERSE)
    if mode == "search":
        nfa.add(s, allc, s)
    end = _build(nfa, tree, s, eff_flags)
    if mode in ("search", "match"):
        nfa.add(end, allc, end)
    nfa.accept = {end}
    return nfa


# ---------------------------------------------------------------- template DSL
class Lit:
    def __init__(self, s: str):
        self.s = s


class Rep:
    def __init__(self, chars, lo: int, hi: Optional[int]):
        self.chars = frozenset(chars)
        self.lo, self.hi = lo, hi


def from_template(items) -> NFA:
    nfa = NFA()
    cur = nfa.start
    for it in items:
        if isinstance(it, str):
            it = Lit(it)
        if isinstance(it, Lit):
            for ch in it.s:
                if ch not in UNIVERSE:
                    raise UnsupportedRegex(f"template character {ch!r} outside the universe")
                nxt = nfa.new()
                nfa.add(cur, frozenset([ch]), nxt)
                cur = nxt
        elif isinstance(it, Rep):
            for _ in range(it.lo):
                nxt = nfa.new()
                nfa.add(cur, it.chars, nxt)
                cur = nxt
            if it.hi is None:
                nfa.add(cur, it.chars, cur)
            else:
                end = nfa.new()
                nfa.add_eps(cur, end)
                for _ in range(it.hi - it.lo):
                    nxt = nfa.new()
                    nfa.add(cur, it.chars, nxt)
                    nfa.add_eps(nxt, end)
                    cur = nxt
                cur = end
        else:
            raise TypeError(it)
    nfa.accept = {cur}
    return nfa


# -------------------------------------------------------------------- algorithms
def _symbol_classes(*nfas: NFA) -> List[FrozenSet[str]]:
    sig: Dict[str, List[int]] = {c: [] for c in UNIVERSE}
    k = 0
    seen_sets: Dict[FrozenSet[str], int] = {}
    for nfa in nfas:
        for tl in nfa.trans:
            for chars, _ in tl:
                if chars not in seen_sets:
                    seen_sets[chars] = k
                    k += 1
    groups: Dict[Tuple[int, ...], List[str]] = {}
    sets = list(seen_sets)
    for c in UNIVERSE:
        key = tuple(i for i, s in enumerate(sets) if c in s)
        groups.setdefault(key, []).append(c)
    return [frozenset(v) for v in groups.values()]


def _step(nfa: NFA, states: FrozenSet[int], rep: str) -> FrozenSet[int]:
    out = set()
    for s in states:
        for chars, t in nfa.trans[s]:
            if rep in chars:
                out.add(t)
    return nfa.closure(out)


def included(a: NFA, b: NFA) -> Tuple[bool, Optional[str], Dict[str, int]]:
    """L(a) subset-of L(b)?  Returns (ok, shortest counterexample or None, stats)."""
    classes = _symbol_classes(a, b)
    reps = [sorted(c)[0] for c in classes]
    a0 = a.closure([a.start])
    b0 = b.closure([b.start])
    start = (a0, b0)
    seen = {start: None}
    q = deque([start])
    trans = 0
    while q:
        cur = q.popleft()
        sa, sb = cur
        if (sa & a.accept) and not (sb & b.accept):
            # rebuild the witness
            w = []
            n = cur
            while seen[n] is not None:
                n, ch = seen[n]
                w.append(ch)
            return False, "".join(reversed(w)), {"states": len(seen), "transitions": trans}
        for rep in reps:
            na = _step(a, sa, rep)
            if not na:
                continue
            nb = _step(b, sb, rep)
            trans += 1
            nxt = (na, nb)
            if nxt not in seen:
                seen[nxt] = (cur, rep)
                q.append(nxt)
    return True, None, {"states": len(seen), "transitions": trans}


def intersection_witness(a: NFA, b: NFA) -> Tuple[Optional[str], Dict[str, int]]:
    """Shortest string in L(a) & L(b), or None if the intersection is empty."""
    classes = _symbol_classes(a, b)
    reps = [sorted(c)[0] for c in classes]
    a0 = a.closure([a.start])
    b0 = b.closure([b.start])
    start = (a0, b0)
    seen = {start: None}
    q = deque([start])
    trans = 0
    while q:
        cur = q.popleft()
        sa, sb = cur
        if (sa & a.accept) and (sb & b.accept):
            w = []
            n = cur
            while seen[n] is not None:
                n, ch = seen[n]
                w.append(ch)
            return "".join(reversed(w)), {"states": len(seen), "transitions": trans}
        for rep in reps:
            na = _step(a, sa, rep)
            if not na:
                continue
            nb = _step(b, sb, rep)
            if not nb:
                continue
            trans += 1
            nxt = (na, nb)
            if nxt not in seen:
                seen[nxt] = (cur, rep)
                q.append(nxt)
    return None, {"states": len(seen), "transitions": trans}


def group_nfa(pattern: str, flags: int, group: str) -> NFA:
    """NFA of the language of the named group's own sub-pattern (what the group can capture, context-free)."""
    tree = sre_parse.parse(pattern, flags)
    gid = tree.state.groupdict.get(group)
    if gid is None:
        raise UnsupportedRegex(f"no group named {group}")
    eff = flags | tree.state.flags
    found = []

    def walk(seq):
        for op, av in seq:
            if op is sre_c.SUBPATTERN:
                if av[0] == gid:
                    found.append(av[3])
                walk(av[3])
            elif op is sre_c.BRANCH:
                for b in av[1]:
                    walk(b)
            elif op in (sre_c.MAX_REPEAT, sre_c.MIN_REPEAT):
                walk(av[2])
    walk(tree)
    if len(found) != 1:
        raise UnsupportedRegex(f"group {group} found {len(found)} times")
    nfa = NFA()
    end = _build(nfa, found[0], nfa.start, eff)
    nfa.accept = {end}
    return nfa
