"""Path facts for "dead emission site" arguments (used by the C08 entries of exceptions.py).

A triaged dead site is an emission that cannot execute because the condition guarding it contradicts a condition that
is known to hold when the function runs (established by the primary rule of every slot the check lives in, or by the
only caller).  The validators used to compare source *text*; this module decides the same thing on the CFG:

* ``facts_at(fn, node)``: the token-kind / membership facts that hold on **every** path from the entry of ``fn`` to
  ``node`` -- for each branch outcome (test node, label) that all those paths must take, the test is decomposed
  (and / or / not, ``is False`` / ``is True`` / ``is None`` / truthiness) into facts about
  ``context.check_token(<index>, <kinds>)`` and ``<expr> [not] in <collection>``.  The index is a *symbolic value*
  obtained through reaching definitions (``i = 0; i = context.skip_ws(i, nl=False)`` and ``context.skip_ws(0)`` denote
  the same position, defaults of ``Context.skip_ws`` filled in; kinds may be literals or hoisted constants, lists or
  tuples), and a fact is only kept if none of the variables it speaks about can be reassigned between the test and
  the node.
* ``true_return_facts(fn)``: facts common to every ``return`` of a primary's ``run`` that may report a match.
"""
from __future__ import annotations

import ast
from typing import Dict, FrozenSet, List, Optional, Set

from .cfg import cfg_of
from .dataflow import reaching_definitions
from .fold import fold_in_fn
from .model import Fn, text, walk_fn

TRI = frozenset({True, False, None})


class Fact:
    """kind 'check': check_token(index, kinds) evaluates to a value in `outcomes`;
    kind 'member': (expr text) in `items` has the truth value `outcomes` == {True} / {False}."""

    def __init__(self, kind, subject, items: FrozenSet[str], outcomes: FrozenSet):
        self.kind, self.subject, self.items, self.outcomes = kind, subject, items, outcomes

    def __repr__(self):
        return f"<{self.kind} {self.subject} {sorted(self.items)} in {sorted(map(str, self.outcomes))}>"


def _skip_ws_defaults(prog) -> Dict[str, object]:
    m = prog.method("Context", "skip_ws")
    out = {}
    if m is not None:
        a = m.node.args
        names = [x.arg for x in a.args]
        for n, d in zip(names[len(names) - len(a.defaults):], a.defaults):
            if isinstance(d, ast.Constant):
                out[n] = d.value
        out["__params__"] = names[1:]
    return out


class Sym:
    def __init__(self, prog, fn: Fn):
        self.prog, self.fn = prog, fn
        self.g = cfg_of(fn)
        self.rd = reaching_definitions(self.g, fn.params)
        self.defaults = _skip_ws_defaults(prog)

    def node_of(self, expr) -> Optional[int]:
        """CFG node evaluating *expr* (its statement / test / loop head)."""
        from .model import parent
        n = expr
        while n is not None:
            nid = self.g.nid(n)
            if nid is not None:
                return nid
            n = parent(n)
        return None

    def value(self, expr, nid, depth=0):
        """(symbolic value, variables whose current value it depends on)"""
        if depth > 12:
            return ("text", text(expr)), set()
        if isinstance(expr, ast.Constant):
            return ("const", expr.value), set()
        if isinstance(expr, ast.UnaryOp) and isinstance(expr.op, ast.USub) and isinstance(expr.operand, ast.Constant):
            return ("const", -expr.operand.value), set()
        if isinstance(expr, ast.Name):
            defs = self.rd.get(nid, {}).get(expr.id, set())
            if defs == {-1}:
                return ("param", expr.id), {expr.id}
            if len(defs) == 1:
                d = next(iter(defs))
                a = self.g.nodes[d].ast
                if self.g.nodes[d].kind == "stmt" and isinstance(a, ast.Assign) and len(a.targets) == 1 and isinstance(a.targets[0], ast.Name):
                    v, deps = self.value(a.value, d, depth + 1)
                    # the value was fixed at the definition; it only depends on what was unresolved there
                    return v, (set() if not deps else deps | {expr.id})
                if self.g.nodes[d].kind == "stmt" and isinstance(a, ast.AugAssign) and isinstance(a.target, ast.Name) and \
                        isinstance(a.op, (ast.Add, ast.Sub)):
                    l, ld = self.value(ast.Name(id=expr.id, ctx=ast.Load()), d, depth + 1)
                    r, rd_ = self.value(a.value, d, depth + 1)
                    return ("binop", type(a.op).__name__, l, r), (set() if not (ld | rd_) else ld | rd_ | {expr.id})
            if not defs:
                v = fold_in_fn(expr, self.fn, default=_NO)
                if v is not _NO and isinstance(v, (int, str)):
                    return ("const", v), set()
            return ("var", expr.id, frozenset(defs)), {expr.id}
        if isinstance(expr, ast.BinOp) and isinstance(expr.op, (ast.Add, ast.Sub)):
            l, lv = self.value(expr.left, nid, depth + 1)
            r, rv = self.value(expr.right, nid, depth + 1)
            return ("binop", type(expr.op).__name__, l, r), lv | rv
        if isinstance(expr, ast.Call) and isinstance(expr.func, ast.Attribute) and expr.func.attr == "skip_ws" \
                and text(expr.func.value) in ("context", "self.context", "ctx", "self"):
            params = list(self.defaults.get("__params__", ["pos", "nl", "comment"]))
            bound = {k: ("const", v) for k, v in self.defaults.items() if k != "__params__"}
            deps: Set[str] = set()
            for p, a in zip(params, expr.args):
                bound[p], d = self.value(a, nid, depth + 1)
                deps |= d
            for k in expr.keywords:
                if k.arg is None:
                    return ("text", text(expr)), _names(expr)
                bound[k.arg], d = self.value(k.value, nid, depth + 1)
                deps |= d
            return ("skip_ws",) + tuple(sorted(bound.items())), deps
        return ("text", text(expr)), _names(expr)

    def kinds(self, expr) -> Optional[FrozenSet[str]]:
        v = fold_in_fn(expr, self.fn, default=None)
        if isinstance(v, str):
            return frozenset({v})
        if isinstance(v, (list, tuple, set, frozenset)) and all(isinstance(x, str) for x in v):
            return frozenset(v)
        return None


_NO = object()


def _names(expr) -> Set[str]:
    return {n.id for n in ast.walk(expr) if isinstance(n, ast.Name)}


def _is_check_token(e) -> bool:
    return isinstance(e, ast.Call) and isinstance(e.func, ast.Attribute) and e.func.attr == "check_token" and len(e.args) == 2 \
        and not e.keywords


def _atoms(test, truth: bool):
    """Yield (expr, outcomes) pairs implied by `test` having the truth value `truth`."""
    if isinstance(test, ast.BoolOp):
        if isinstance(test.op, ast.And) and truth:
            for v in test.values:
                yield from _atoms(v, True)
        elif isinstance(test.op, ast.Or) and not truth:
            for v in test.values:
                yield from _atoms(v, False)
        elif len(test.values) == 1:
            yield from _atoms(test.values[0], truth)
        return
    if isinstance(test, ast.UnaryOp) and isinstance(test.op, ast.Not):
        yield from _atoms(test.operand, not truth)
        return
    if isinstance(test, ast.Compare) and len(test.ops) == 1:
        l, op, r = test.left, test.ops[0], test.comparators[0]
        if isinstance(l, ast.Constant) and not isinstance(r, ast.Constant):
            l, r = r, l
        if isinstance(r, ast.Constant) and (r.value is True or r.value is False or r.value is None) \
                and isinstance(op, (ast.Is, ast.IsNot, ast.Eq, ast.NotEq)):
            pos = isinstance(op, (ast.Is, ast.Eq))
            hit = frozenset({r.value})
            yield l, (hit if pos == truth else TRI - hit)
            return
        if isinstance(op, (ast.In, ast.NotIn)):
            yield test, frozenset({truth})
            return
    yield test, (frozenset({True}) if truth else frozenset({False, None}))


def facts_at(prog, fn: Fn, target) -> List[Fact]:
    """Facts holding on every path from the entry of *fn* to the CFG node of *target* (an AST node of fn)."""
    sym = Sym(prog, fn)
    g = sym.g
    n = sym.node_of(target)
    if n is None or n not in g.reachable():
        return []
    out: List[Fact] = []
    assigns: Dict[str, Set[int]] = {}
    for node in g.nodes:
        from .dataflow import binds
        for lab in (None, "T"):
            for nm in binds(node, lab):
                assigns.setdefault(nm, set()).add(node.id)
    for T in g.nodes:
        if T.kind != "test" or T.id == n:
            continue
        for lab in ("T", "F"):
            if n in g.reachable(g.entry, edge_filter=lambda a, b, l, T=T, lab=lab: not (a == T.id and l == lab)):
                continue                                     # some path avoids this outcome
            succ = [m for m, l in g.succ[T.id] if l == lab]
            for e, outcomes in _atoms(T.ast, lab == "T"):
                fact, deps = _fact_of(sym, e, outcomes, T.id)
                if fact is None:
                    continue
                # no variable the fact speaks about may change between the test and the target
                stable = True
                for v in deps:
                    for d in assigns.get(v, ()):
                        if d == T.id:
                            continue
                        if any((s == d or g.can_reach(s, d, avoid={T.id})) and (d == n or g.can_reach(d, n, avoid={T.id})) for s in succ):
                            stable = False
                if stable:
                    out.append(fact)
    return out


def _fact_of(sym: Sym, e, outcomes, nid):
    if isinstance(e, ast.Name):
        # `found = context.check_token(i, K)` ... `if found is False:`  -- the test speaks about the call at the definition
        defs = sym.rd.get(nid, {}).get(e.id, set())
        if len(defs) == 1 and next(iter(defs)) >= 0:
            d = next(iter(defs))
            a = sym.g.nodes[d].ast
            if sym.g.nodes[d].kind == "stmt" and isinstance(a, ast.Assign) and len(a.targets) == 1 and isinstance(a.targets[0], ast.Name) \
                    and (_is_check_token(a.value) or isinstance(a.value, ast.Compare)):
                fact, deps = _fact_of(sym, a.value, outcomes, d)
                return fact, (deps | {e.id} if fact is not None else set())
        return None, set()
    if _is_check_token(e):
        idx, deps = sym.value(e.args[0], nid)
        ks = sym.kinds(e.args[1])
        if ks is None:
            return None, set()
        return Fact("check", idx, ks, frozenset(outcomes)), deps
    if isinstance(e, ast.Compare) and len(e.ops) == 1 and isinstance(e.ops[0], (ast.In, ast.NotIn)):
        ks = sym.kinds(e.comparators[0])
        if ks is None:
            return None, set()
        truth = True in outcomes
        if isinstance(e.ops[0], ast.NotIn):
            truth = not truth
        subj, deps = sym.value(e.left, nid)
        if subj[0] in ("var", "param"):
            subj = ("text", text(e.left))
        return Fact("member", subj, ks, frozenset({truth})), deps
    return None, set()


def true_return_facts(prog, fn: Fn) -> List[Fact]:
    """Facts common to every return of *fn* that may report a match (anything but `return False, ...` / bare return)."""
    rets = []
    for n in walk_fn(fn.node):
        if isinstance(n, ast.Return):
            v = n.value
            if v is None:
                continue
            if isinstance(v, ast.Tuple) and v.elts and isinstance(v.elts[0], ast.Constant) and v.elts[0].value is False:
                continue
            if isinstance(v, ast.Constant) and not v.value:
                continue
            rets.append(n)
    if not rets:
        return []
    per = [facts_at(prog, fn, r) for r in rets]
    common: List[Fact] = []
    for f in per[0]:
        if f.kind != "check":
            continue
        outs = set(f.outcomes)
        ok = True
        for other in per[1:]:
            m = [o for o in other if o.kind == "check" and o.subject == f.subject and o.items == f.items]
            if not m:
                ok = False
                break
            outs |= set(min(m, key=lambda o: len(o.outcomes)).outcomes)
        if ok:
            common.append(Fact("check", f.subject, f.items, frozenset(outs)))
    return common


def emission_nodes(fn: Fn, code: str):
    """Calls of new_error / new_warning / from_name / errors.add in fn whose first argument is the literal *code*."""
    out = []
    for n in walk_fn(fn.node):
        if isinstance(n, ast.Call) and isinstance(n.func, ast.Attribute) and n.func.attr in ("new_error", "new_warning", "from_name", "add", "append") \
                and n.args:
            v = fold_in_fn(n.args[0], fn, default=None)
            if v == code:
                out.append(n)
    return out


def contradicts_guarantee(site_facts: List[Fact], guarantee: List[Fact]) -> bool:
    """The site needs check_token(S, K') to be False while the guarantee says check_token(S, K) is True or None for a K
    included in K' (same token, a kind of K is a kind of K')  -- or needs it True while the guarantee gives a disjoint K."""
    for f in site_facts:
        if f.kind != "check":
            continue
        for g in guarantee:
            if g.kind != "check" or g.subject != f.subject:
                continue
            if f.outcomes == frozenset({False}) and False not in g.outcomes and g.items <= f.items:
                return True
            if f.outcomes == frozenset({True}) and g.outcomes == frozenset({True}) and not (f.items & g.items):
                return True
    return False
