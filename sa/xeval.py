"""Extended evaluator: the analyser's own interpreter for *whole* repository functions over stub worlds.

``minieval.Evaluator`` interprets pure, (almost) loop-free method bodies.  The rules about ``main()`` and the
formatters (C04 / C08 / C15 / C16) need more: loops with break / continue, try / except / finally, raise,
closures and lambdas, comprehensions of every kind, string formatting in its three spellings, module-aware name
resolution (imports followed into the repository's other modules), class attributes, ``__init_subclass__``,
``super().__init__`` and a table of native stand-ins for the standard library.  ``XEvaluator`` adds exactly that on
top of ``Evaluator``.  It still only interprets ASTs read from the analysed tree; nothing of norminette is imported or
run, and every standard-library stand-in is supplied by the calling rule (a "world").

Values: Python scalars / str / list / dict / set / tuple are used natively; instances of repository classes are
``minieval.Obj``; classes are ``minieval.ClassRef``; functions are ``Closure``; anything the world does not model is an
``Opaque`` (it may be passed around and printed, but a decision taken on it is ``Unsupported``).

Exceptions of the interpreted program are ``Raised(value)`` where value is an ``Obj`` of a repository exception class
or a native exception instance (``SystemExit`` for sys.exit, ``KeyError`` ...).
"""
from __future__ import annotations

import ast
import builtins
from typing import Any, Dict, List, Optional

from .minieval import ClassRef, Evaluator, Obj, Unsupported, _Return


class Raised(Exception):
    def __init__(self, value):
        super().__init__(repr(value))
        self.value = value


class _Break(Exception):
    pass


class _Continue(Exception):
    pass


class Opaque:
    """A value the world does not model."""

    def __init__(self, label: str):
        self.label = label

    def __repr__(self):
        return f"<opaque {self.label}>"


class Env(dict):
    """Local scope with an enclosing scope (closures, comprehensions)."""

    def __init__(self, parent=None, /, **kw):
        super().__init__(**kw)
        self.parent = parent

    def __contains__(self, k):
        return dict.__contains__(self, k) or (self.parent is not None and k in self.parent)

    def __missing__(self, k):
        if self.parent is not None and k in self.parent:
            return self.parent[k]
        raise KeyError(k)

    def get(self, k, default=None):
        return self[k] if k in self else default


class Closure:
    def __init__(self, fnode, env, mod, bound_self=None, name=None):
        self.fnode = fnode
        self.env = env
        self.mod = mod
        self.bound_self = bound_self
        self.name = name or getattr(fnode, "name", "<lambda>")

    def __repr__(self):
        return f"<function {self.name}>"


class Module:
    """Stand-in for an imported (standard library) module: attribute -> value / python callable."""

    def __init__(self, name: str, attrs: Dict[str, Any], lenient=True):
        self.name = name
        self.attrs = attrs
        self.lenient = lenient

    def __repr__(self):
        return f"<module {self.name}>"


class _Proxy:
    """Lets native str.format / % see an Obj the way Python would (str(), attribute access, no format spec)."""

    def __init__(self, ev, obj):
        self._ev, self._obj = ev, obj

    def __str__(self):
        return self._ev.py_str(self._obj)

    def __repr__(self):
        return self._ev.py_repr(self._obj)

    def __format__(self, spec):
        if spec:
            raise TypeError("unsupported format string passed to object.__format__")
        return self._ev.py_str(self._obj)

    def __getattr__(self, name):
        return self._ev.wrap_fmt(self._ev.getattr(self._obj, name))


class _FmtList(list):
    def __init__(self, ev, items):
        super().__init__(items)
        self._ev = ev

    def __str__(self):
        return self._ev.py_repr(list(self))

    __repr__ = __str__

    def __format__(self, spec):
        return format(str(self), spec)


class _MethodTable(dict):
    """(class, method) -> FunctionDef, filled lazily through the program's name-based MRO."""

    def __init__(self, prog):
        super().__init__()
        self.prog = prog
        self._miss = set()

    def get(self, key, default=None):
        if dict.__contains__(self, key):
            return dict.__getitem__(self, key)
        if key in self._miss or self.prog is None:
            return default
        fn = self.prog.method(key[0], key[1]) if isinstance(key, tuple) and len(key) == 2 else None
        if fn is None:
            self._miss.add(key)
            return default
        self[key] = fn.node
        return fn.node

    def __contains__(self, key):
        return self.get(key) is not None

    def __getitem__(self, key):
        v = self.get(key)
        if v is None:
            raise KeyError(key)
        return v


_BUILTIN_EXC = {n: getattr(builtins, n) for n in dir(builtins)
                if isinstance(getattr(builtins, n), type) and issubclass(getattr(builtins, n), BaseException)}

_NATIVE_TYPES = (str, bytes, int, float, bool, list, tuple, dict, set, frozenset, type(None), range)


class XEvaluator(Evaluator):
    def __init__(self, prog, interpreted_classes=(), modules: Optional[Dict[str, Module]] = None,
                 origins: Optional[Dict[tuple, Any]] = None, max_steps=400000, main_mod=None):
        super().__init__(max_steps=max_steps)
        self.methods = _MethodTable(prog)
        self.prog = prog
        self.classes = {n: c.node for n, c in prog.classes.items()}
        self.interpreted = set(interpreted_classes)     # classes whose constructor is really interpreted
        self.interpreted_modules = {"__main__.py", "errors.py", "file.py", "exceptions.py"}   # ... and every class of these modules
        self.world_modules = modules or {}              # dotted stdlib module name -> Module
        self.origins = origins or {}                    # (module dotted, original name) -> value (stubs of repo / stdlib names)
        self.mod_stack = [main_mod]
        self.fn_stack: List[Any] = []
        self.stdout: List[str] = []
        self.stderr: List[str] = []
        self.trace: List[tuple] = []
        self.class_attrs: Dict[tuple, Any] = {}
        self._yields: List[list] = []
        self.opaque_classes: Optional[set] = set()      # classes never to interpret (None: interpret nothing outside the whitelist)
        self.ctor_hooks: Dict[str, Any] = {}            # class name -> callable(ev, args, kwargs) replacing / wrapping construction
        self._class_init_done = set()
        self._global_cache: Dict[tuple, Any] = {}
        self.stdout_file = Obj("TextIO", _stream="stdout")
        self.stderr_file = Obj("TextIO", _stream="stderr")

    # ------------------------------------------------------------------ helpers
    def unsupported(self, what):
        raise Unsupported(what)

    @property
    def cur_mod(self):
        return self.mod_stack[-1]

    def is_exception_class(self, cname: str) -> bool:
        seen, todo = set(), [cname]
        while todo:
            c = todo.pop()
            if c in _BUILTIN_EXC:
                return True
            if c in seen or c not in self.prog.classes:
                continue
            seen.add(c)
            todo.extend(self.prog.classes[c].bases)
        return False

    def class_chain(self, cname: str) -> List[str]:
        """name-based linearisation (breadth first, as Program.method does), builtin bases included"""
        out, todo = [], [cname]
        while todo:
            c = todo.pop(0)
            if c in out:
                continue
            out.append(c)
            if c in self.prog.classes:
                todo.extend(self.prog.classes[c].bases)
        return out

    def is_dataclass(self, cname: str) -> bool:
        c = self.prog.classes.get(cname)
        return c is not None and any("dataclass" in ast.unparse(d) for d in c.node.decorator_list)

    # ------------------------------------------------------------------ global names
    def resolve_global(self, name: str, mod=None):
        mod = mod if mod is not None else self.cur_mod
        if mod is None:
            raise Unsupported(f"free name {name}")
        key = (mod.rel, name)
        if key in self._global_cache:
            return self._global_cache[key]
        v = self._resolve_global(name, mod)
        self._global_cache[key] = v
        return v

    def _module_level_fill(self, name: str, mod, value):
        """A module-level container that is filled by top-level statements after its assignment (`T = {}` followed by
        `for k, vs in OTHER.items(): ... T.setdefault(...)`): those statements are executed once, in module scope."""
        if not isinstance(value, (dict, list, set)):
            return value
        body = mod.tree.body
        start = None
        for i, st in enumerate(body):
            if isinstance(st, (ast.Assign, ast.AnnAssign)) and any(
                    isinstance(t, ast.Name) and t.id == name for t in (st.targets if isinstance(st, ast.Assign) else [st.target])):
                start = i
        if start is None:
            return value

        def touches(st):
            for n in ast.walk(st):
                if isinstance(n, ast.Name) and n.id == name:
                    p_ = getattr(n, "_sa_parent", None)
                    if isinstance(p_, ast.Attribute) or isinstance(p_, ast.Subscript) or isinstance(p_, ast.AugAssign):
                        return True
            return False
        later = [st for st in body[start + 1:] if isinstance(st, (ast.For, ast.While, ast.If, ast.Expr, ast.AugAssign, ast.With))
                 and touches(st)]
        if not later:
            return value
        self._global_cache[(mod.rel, name)] = value
        env = Env()
        env[name] = value
        for st in later:
            self.stmt(st, env)
        return env.get(name, value)

    def _resolve_global(self, name: str, mod):
        if (mod.dotted, name) in self.origins:
            return self.origins[(mod.dotted, name)]
        if name in mod.functions:
            return Closure(mod.functions[name].node, None, mod, name=name)
        if name in mod.classes:
            return self._class_value(name)
        if name in mod.assigns:
            vals = mod.assigns[name]
            if len(vals) == 1 and isinstance(vals[0], ast.expr):
                self.mod_stack.append(mod)
                self.fn_stack.append(None)
                try:
                    v0 = self.expr(vals[0], Env())
                    return self._module_level_fill(name, mod, v0)
                except Unsupported:
                    return Opaque(f"{mod.rel}:{name}")
                finally:
                    self.fn_stack.pop()
                    self.mod_stack.pop()
            return Opaque(f"{mod.rel}:{name}")
        if name in mod.imports:
            src, orig = mod.imports[name]
            if orig is None:                                   # import x / import x.y
                if src in self.world_modules:
                    return self.world_modules[src]
                top = src.split(".")[0]
                if top in self.world_modules:
                    return self.world_modules[top]
                return Opaque(f"module {src}")
            if (src, orig) in self.origins:
                return self.origins[(src, orig)]
            if ("*", orig) in self.origins and (src.startswith("norminette") or not src.split(".")[0] in self.world_modules):
                return self.origins[("*", orig)]
            m2 = self.prog.mod_by_dotted(src)
            if m2 is None and src.startswith("norminette"):
                m2 = self.prog.mod_by_dotted(src + "." + orig)
                if m2 is not None:
                    return Opaque(f"module {src}.{orig}")
            if m2 is None and not src.startswith("norminette"):
                # relative import recorded without its dots (from .x import y)
                base = mod.dotted.rsplit(".", 1)[0]
                for cand in (f"{base}.{src}", f"{mod.dotted}.{src}"):
                    m2 = self.prog.mod_by_dotted(cand)
                    if m2 is not None:
                        break
            if m2 is not None:
                if orig in m2.functions or orig in m2.classes or orig in m2.assigns or orig in m2.imports:
                    return self.resolve_global(orig, m2)
                return Opaque(f"{src}.{orig}")
            if src in self.world_modules:
                wm = self.world_modules[src]
                if orig in wm.attrs:
                    return wm.attrs[orig]
                return Opaque(f"{src}.{orig}")
            if orig in self.prog.classes and src.startswith("norminette"):
                return self._class_value(orig)
            return Opaque(f"{src}.{orig}")
        if name == "__name__":
            return "__main__" if mod.rel == "__main__.py" else mod.dotted
        if ("builtins", name) in self.origins:
            return self.origins[("builtins", name)]
        if name in _BUILTIN_EXC:
            return _BUILTIN_EXC[name]
        if name in _BUILTIN_FUNCS:
            return _Builtin(name)
        if name in ("str", "int", "float", "bool", "list", "tuple", "dict", "set", "frozenset", "bytes", "object", "type"):
            return getattr(builtins, name)
        raise Unsupported(f"free name {name}")

    def _class_value(self, cname):
        if ("*", cname) in self.origins:
            return self.origins[("*", cname)]
        return ClassRef(cname)

    # ------------------------------------------------------------------ class attributes
    def class_attr(self, cname: str, attr: str, default=Unsupported):
        for c in self.class_chain(cname):
            if (c, attr) in self.class_attrs:
                return self.class_attrs[(c, attr)]
        self._run_init_subclass(cname)
        for c in self.class_chain(cname):
            if (c, attr) in self.class_attrs:
                return self.class_attrs[(c, attr)]
            k = self.prog.classes.get(c)
            if k is not None and attr in k.attrs:
                self.mod_stack.append(k.mod)
                self.fn_stack.append(None)
                try:
                    # the class body is a scope: its methods and earlier attributes are visible by plain name
                    scope = Env()
                    for mn, mf in k.methods.items():
                        cl = Closure(mf.node, None, k.mod, name=f"{c}.{mn}")
                        cl.is_method = not any(d in ("staticmethod",) for d in mf.decorators)
                        dict.__setitem__(scope, mn, cl)
                    for an in k.attrs:
                        if an != attr and (c, an) in self.class_attrs:
                            dict.__setitem__(scope, an, self.class_attrs[(c, an)])
                    v = self.expr(k.attrs[attr], scope)
                finally:
                    self.fn_stack.pop()
                    self.mod_stack.pop()
                self.class_attrs[(c, attr)] = v
                return v
            if k is not None and attr in k.methods:
                m = k.methods[attr]
                return Closure(m.node, None, k.mod, name=f"{c}.{attr}")
        if default is Unsupported:
            raise Unsupported(f"class attribute {cname}.{attr}")
        return default

    def _run_init_subclass(self, cname: str):
        if cname in self._class_init_done:
            return
        self._class_init_done.add(cname)
        chain = self.class_chain(cname)
        for base in chain[1:]:
            k = self.prog.classes.get(base)
            if k is not None and "__init_subclass__" in k.methods:
                m = k.methods["__init_subclass__"]
                cref = _WritableClassRef(cname, self)
                try:
                    self.call_closure(Closure(m.node, None, k.mod), [cref], {})
                except Unsupported:
                    pass
                break

    # ------------------------------------------------------------------ str / repr / truth / eq
    def py_str(self, v) -> str:
        if isinstance(v, Obj):
            m = self.methods.get((v._cls, "__str__"))
            if m is not None:
                r = self.invoke(m, [v], {})
                if isinstance(r, str):
                    return r
                raise Raised(TypeError("__str__ returned non-string"))
            if self.is_exception_class(v._cls):
                a = v.__dict__.get("args", ())
                return "" if not a else (self.py_str(a[0]) if len(a) == 1 else self.py_repr(tuple(a)))
            return self.py_repr(v)
        if isinstance(v, ClassRef):
            return f"<class '{v.name}'>"
        if isinstance(v, (list, tuple, dict, set, frozenset)):
            return self.py_repr(v)
        if isinstance(v, BaseException):
            return str(v)
        return str(v)

    def py_repr(self, v) -> str:
        if isinstance(v, Obj):
            m = self.methods.get((v._cls, "__repr__"))
            if m is not None:
                r = self.invoke(m, [v], {})
                return r if isinstance(r, str) else f"<{v._cls} object>"
            if self.is_dataclass(v._cls):
                fields = [n for n, _ in self._dataclass_fields(v._cls)]
                return f"{v._cls}(" + ", ".join(f"{n}={self.py_repr(v.__dict__.get(n))}" for n in fields) + ")"
            return f"<{v._cls} object>"
        if isinstance(v, list):
            return "[" + ", ".join(self.py_repr(x) for x in v) + "]"
        if isinstance(v, tuple):
            return "(" + ", ".join(self.py_repr(x) for x in v) + ("," if len(v) == 1 else "") + ")"
        if isinstance(v, dict):
            return "{" + ", ".join(f"{self.py_repr(k)}: {self.py_repr(x)}" for k, x in v.items()) + "}"
        if isinstance(v, (set, frozenset)) and v:
            return "{" + ", ".join(self.py_repr(x) for x in v) + "}"
        return repr(v)

    def truth(self, v) -> bool:
        if isinstance(v, Obj):
            if "_seq" in v.__dict__:
                return len(v._seq) > 0
            m = self.methods.get((v._cls, "__bool__"))
            if m is not None:
                return bool(self.invoke(m, [v], {}))
            m = self.methods.get((v._cls, "__len__"))
            if m is not None:
                return self.invoke(m, [v], {}) > 0
            return True
        if isinstance(v, Opaque):
            raise Unsupported(f"decision taken on {v!r}")
        return bool(v)

    def py_eq(self, a, b) -> bool:
        if isinstance(a, Obj) and isinstance(b, Obj):
            if a is b:
                return True
            if a._cls == b._cls and self.is_dataclass(a._cls):
                return all(self.py_eq(a.__dict__.get(n), b.__dict__.get(n)) for n, _ in self._dataclass_fields(a._cls))
            m = self.methods.get((a._cls, "__eq__"))
            if m is not None:
                return self.truth(self.invoke(m, [a, b], {}))
            return False
        if isinstance(a, Obj) or isinstance(b, Obj):
            o, x = (a, b) if isinstance(a, Obj) else (b, a)
            m = self.methods.get((o._cls, "__eq__"))
            if m is not None:
                return self.truth(self.invoke(m, [o, x], {}))
            return False
        if isinstance(a, (list, tuple)) and type(a) is type(b):
            return len(a) == len(b) and all(self.py_eq(x, y) for x, y in zip(a, b))
        if isinstance(a, ClassRef) and isinstance(b, ClassRef):
            return a.name == b.name
        return a == b

    def contains(self, container, item) -> bool:
        if isinstance(container, Obj):
            m = self.methods.get((container._cls, "__contains__"))
            if m is not None:
                return self.truth(self.invoke(m, [container, item], {}))
            return any(self.py_eq(x, item) for x in self.iterate(container))
        if isinstance(container, (list, tuple)) and (isinstance(item, (Obj, ClassRef)) or any(isinstance(x, (Obj, ClassRef)) for x in container)):
            return any(self.py_eq(x, item) for x in container)
        if isinstance(container, Opaque):
            raise Unsupported(f"membership in {container!r}")
        return item in container

    def compare(self, op, a, b) -> bool:
        if isinstance(op, ast.Eq):
            return self.py_eq(a, b)
        if isinstance(op, ast.NotEq):
            return not self.py_eq(a, b)
        if isinstance(op, ast.In):
            return self.contains(b, a)
        if isinstance(op, ast.NotIn):
            return not self.contains(b, a)
        if isinstance(op, (ast.Is, ast.IsNot)):
            same = a is b or (isinstance(a, ClassRef) and isinstance(b, ClassRef) and a.name == b.name) or \
                (isinstance(a, (bool, type(None))) and a is b)
            if isinstance(a, (int, str)) and isinstance(b, (int, str)) and not isinstance(a, bool) and not isinstance(b, bool):
                same = a is b or (type(a) is type(b) and a == b and (isinstance(a, int) and -5 <= a <= 256 or isinstance(a, str)))
            return same if isinstance(op, ast.Is) else not same
        try:
            return super().compare(op, a, b)
        except TypeError as e:
            raise Raised(e)

    def iterate(self, v):
        if isinstance(v, Obj):
            if "_seq" in v.__dict__:
                return list(v._seq)
            if "_native_iter" in v.__dict__:
                return v._native_iter()
            m = self.methods.get((v._cls, "__iter__"))
            if m is not None:
                return self.iterate(self.invoke(m, [v], {}))
            raise Raised(TypeError(f"'{v._cls}' object is not iterable"))
        if isinstance(v, Opaque):
            raise Unsupported(f"iteration over {v!r}")
        if v is None or isinstance(v, (int, float, bool)):
            raise Raised(TypeError(f"'{type(v).__name__}' object is not iterable"))
        return v

    def length(self, v):
        if isinstance(v, Obj):
            if "_seq" in v.__dict__:
                return len(v._seq)
            m = self.methods.get((v._cls, "__len__"))
            if m is not None:
                return self.invoke(m, [v], {})
            raise Raised(TypeError(f"object of type '{v._cls}' has no len()"))
        if isinstance(v, Opaque):
            raise Unsupported(f"len of {v!r}")
        try:
            return len(v)
        except TypeError as e:
            raise Raised(e)

    # ------------------------------------------------------------------ attribute access
    def getattr(self, base, attr: str):
        if isinstance(base, Module):
            if attr in base.attrs:
                return base.attrs[attr]
            if base.lenient:
                return Opaque(f"{base.name}.{attr}")
            raise Unsupported(f"module attribute {base.name}.{attr}")
        if isinstance(base, Obj):
            if attr in base.__dict__:
                return base.__dict__[attr]
            nat = base.__dict__.get("_native", {})
            if attr in nat:
                return nat[attr]
            m = self.methods.get((base._cls, attr))
            if m is not None:
                decos = [ast.unparse(d) for d in m.decorator_list]
                if "property" in decos or any(d.endswith("cached_property") for d in decos):
                    return self.call_closure(Closure(m, None, getattr(m, "_sa_mod", self.cur_mod)), [base], {})
                if "staticmethod" in decos:
                    return Closure(m, None, getattr(m, "_sa_mod", self.cur_mod))
                if "classmethod" in decos:
                    return Closure(m, None, getattr(m, "_sa_mod", self.cur_mod), bound_self=ClassRef(base._cls))
                return Closure(m, None, getattr(m, "_sa_mod", self.cur_mod), bound_self=base)
            if attr == "__class__":
                return ClassRef(base._cls)
            if attr == "__dict__":
                return {k: v for k, v in base.__dict__.items() if not k.startswith("_cls")}
            if base.__dict__.get("_opaque"):
                return Opaque(f"{base._cls}.{attr}")
            if base._cls in self.prog.classes:
                try:
                    v = self.class_attr(base._cls, attr)
                    if isinstance(v, Closure) and getattr(v, "is_method", False) and v.bound_self is None:
                        return Closure(v.fnode, v.env, v.mod, bound_self=base, name=v.name)
                    return v
                except Unsupported:
                    pass
            if attr == "args" and self.is_exception_class(base._cls):
                return ()
            raise Raised(AttributeError(f"'{base._cls}' object has no attribute '{attr}'"))
        if isinstance(base, ClassRef):
            if attr == "__name__":
                return base.name
            if attr == "__qualname__":
                return base.name
            m = self.methods.get((base.name, attr))
            if m is not None:
                decos = [ast.unparse(d) for d in m.decorator_list]
                if "classmethod" in decos:
                    return Closure(m, None, getattr(m, "_sa_mod", self.cur_mod), bound_self=base)
                return Closure(m, None, getattr(m, "_sa_mod", self.cur_mod))
            return self.class_attr(base.name, attr)
        if isinstance(base, Opaque):
            return Opaque(f"{base.label}.{attr}")
        if isinstance(base, Closure):
            if attr == "__name__":
                return base.name
            raise Unsupported(f"attribute {attr} of a function")
        if isinstance(base, BaseException):
            if attr == "code" and isinstance(base, SystemExit):
                return base.code
            if attr == "args":
                return base.args
        if attr.startswith("__") and attr not in ("__name__", "__len__", "__class__"):
            raise Unsupported(f"dunder attribute {attr}")
        try:
            return getattr(base, attr)
        except AttributeError as e:
            raise Raised(e)

    # ------------------------------------------------------------------ statements
    def block(self, stmts, env):
        for st in stmts:
            self.stmt(st, env)

    def call_function(self, fnode, args):
        return self._run_body(fnode, args if isinstance(args, Env) else Env(None, **args))

    def _run_body(self, fnode, env):
        mod = getattr(fnode, "_sa_mod", None) or self.cur_mod
        self.mod_stack.append(mod)
        self.fn_stack.append(fnode)
        try:
            if isinstance(fnode, ast.Lambda):
                return self.expr(fnode.body, env)
            try:
                self.block(fnode.body, env)
            except _Return as r:
                return r.v
            return None
        finally:
            self.fn_stack.pop()
            self.mod_stack.pop()

    def stmt(self, st, env):
        self.steps += 1
        if self.steps > self.max_steps:
            raise Unsupported("step budget exceeded")
        if isinstance(st, ast.Assert):
            return
        if isinstance(st, ast.If):
            self.block(st.body if self.truth(self.expr(st.test, env)) else st.orelse, env)
            return
        if isinstance(st, (ast.For, ast.AsyncFor)):
            it = self.iterate(self.expr(st.iter, env))
            broke = False
            for item in it:
                self.steps += 1
                if self.steps > self.max_steps:
                    raise Unsupported("step budget exceeded")
                self.assign(st.target, item, env)
                try:
                    self.block(st.body, env)
                except _Break:
                    broke = True
                    break
                except _Continue:
                    continue
            if not broke:
                self.block(st.orelse, env)
            return
        if isinstance(st, ast.While):
            broke = False
            while self.truth(self.expr(st.test, env)):
                self.steps += 1
                if self.steps > self.max_steps:
                    raise Unsupported("step budget exceeded (loop)")
                try:
                    self.block(st.body, env)
                except _Break:
                    broke = True
                    break
                except _Continue:
                    continue
            if not broke:
                self.block(st.orelse, env)
            return
        if isinstance(st, ast.Break):
            raise _Break()
        if isinstance(st, ast.Continue):
            raise _Continue()
        if isinstance(st, ast.Pass):
            return
        if isinstance(st, (ast.Global, ast.Nonlocal)):
            return
        if isinstance(st, (ast.Import, ast.ImportFrom)):
            for a in st.names:
                nm = (a.asname or a.name).split(".")[0]
                if isinstance(st, ast.Import):
                    env[nm] = self.world_modules.get(a.name, self.world_modules.get(a.name.split(".")[0], Opaque(f"module {a.name}")))
                else:
                    src = st.module or ""
                    if (src, a.name) in self.origins:
                        env[nm] = self.origins[(src, a.name)]
                    elif ("*", a.name) in self.origins:
                        env[nm] = self.origins[("*", a.name)]
                    elif src in self.world_modules and a.name in self.world_modules[src].attrs:
                        env[nm] = self.world_modules[src].attrs[a.name]
                    else:
                        m2 = self.prog.mod_by_dotted(src)
                        env[nm] = self.resolve_global(a.name, m2) if m2 is not None else Opaque(f"{src}.{a.name}")
            return
        if isinstance(st, (ast.FunctionDef, ast.AsyncFunctionDef)):
            if st.decorator_list:
                raise Unsupported("decorated nested function")
            env[st.name] = Closure(st, env, self.cur_mod)
            return
        if isinstance(st, ast.Delete):
            for t in st.targets:
                if isinstance(t, ast.Name):
                    if dict.__contains__(env, t.id):
                        dict.pop(env, t.id)
                    else:
                        raise Raised(NameError(f"name '{t.id}' is not defined"))
                elif isinstance(t, ast.Subscript):
                    base = self.expr(t.value, env)
                    try:
                        del base[self._slice(t.slice, env)]
                    except (KeyError, IndexError, TypeError) as e:
                        raise Raised(e)
                elif isinstance(t, ast.Attribute):
                    base = self.expr(t.value, env)
                    if isinstance(base, Obj) and t.attr in base.__dict__:
                        del base.__dict__[t.attr]
                    else:
                        raise Unsupported("del attribute")
                else:
                    raise Unsupported("del target")
            return
        if isinstance(st, ast.Raise):
            if st.exc is None:
                cur = getattr(self, "_handling", None)
                if cur is None:
                    raise Raised(RuntimeError("No active exception to reraise"))
                raise Raised(cur)
            v = self.expr(st.exc, env)
            raise Raised(self._exception_instance(v))
        if isinstance(st, ast.Try):
            self._try(st, env)
            return
        if isinstance(st, (ast.With, ast.AsyncWith)):
            self._with(st, env)
            return
        if isinstance(st, ast.AugAssign):
            self._augassign(st, env)
            return
        if isinstance(st, ast.Return):
            raise _Return(self.expr(st.value, env) if st.value is not None else None)
        if isinstance(st, ast.Expr):
            if isinstance(st.value, ast.Constant):
                return
            self.expr(st.value, env)
            return
        if isinstance(st, ast.Assign):
            v = self.expr(st.value, env)
            for t in st.targets:
                self.assign(t, v, env)
            return
        if isinstance(st, ast.AnnAssign):
            if st.value is not None:
                self.assign(st.target, self.expr(st.value, env), env)
            return
        if isinstance(st, ast.ClassDef):
            raise Unsupported("nested class definition")
        raise Unsupported(f"statement {type(st).__name__}")

    def _exception_instance(self, v):
        if isinstance(v, ClassRef):
            return self.instantiate(v.name, [], {})
        if isinstance(v, type) and issubclass(v, BaseException):
            return v()
        if isinstance(v, (Obj, BaseException)):
            return v
        raise Unsupported(f"raise of {v!r}")

    def exc_matches(self, value, texpr, env) -> bool:
        if texpr is None:
            return True
        t = self.expr(texpr, env)
        ts = list(t) if isinstance(t, tuple) else [t]
        for c in ts:
            if isinstance(c, type) and issubclass(c, BaseException):
                if isinstance(value, BaseException):
                    if isinstance(value, c):
                        return True
                elif isinstance(value, Obj):
                    if any(b in _BUILTIN_EXC and issubclass(_BUILTIN_EXC[b], c) for b in self.class_chain(value._cls)):
                        return True
            elif isinstance(c, ClassRef):
                if isinstance(value, Obj) and c.name in self.class_chain(value._cls):
                    return True
            elif isinstance(c, Opaque):
                raise Unsupported(f"except clause on {c!r}")
            else:
                raise Unsupported("except clause type")
        return False

    _NATIVE_CATCH = (LookupError, TypeError, ValueError, ArithmeticError, AttributeError, StopIteration, OSError, AssertionError,
                     NameError, RuntimeError, UnicodeError)

    def _try(self, st: ast.Try, env):
        try:
            try:
                self.block(st.body, env)
            except self._NATIVE_CATCH as e:
                if isinstance(e, RecursionError):
                    raise
                raise Raised(e)
        except Raised as r:
            handled = False
            for h in st.handlers:
                if self.exc_matches(r.value, h.type, env):
                    handled = True
                    if h.name:
                        env[h.name] = r.value
                    prev = getattr(self, "_handling", None)
                    self._handling = r.value
                    try:
                        try:
                            self.block(h.body, env)
                        finally:
                            self._handling = prev
                            if h.name and dict.__contains__(env, h.name):
                                dict.pop(env, h.name)
                    except BaseException:
                        self._finally(st, env)
                        raise
                    break
            if not handled:
                self._finally(st, env)
                raise
            self._finally(st, env)
            return
        except (_Return, _Break, _Continue):
            self._finally(st, env)
            raise
        try:
            self.block(st.orelse, env)
        except BaseException:
            self._finally(st, env)
            raise
        self._finally(st, env)

    def _finally(self, st, env):
        if st.finalbody:
            self.block(st.finalbody, env)

    def _with(self, st, env):
        exits = []
        for item in st.items:
            cm = self.expr(item.context_expr, env)
            if isinstance(cm, Obj) and ("__enter__" in cm.__dict__.get("_native", {})):
                v = cm.__dict__["_native"]["__enter__"]()
                exits.append(cm.__dict__["_native"].get("__exit__"))
            elif isinstance(cm, Obj) and self.methods.get((cm._cls, "__enter__")) is not None:
                v = self.invoke(self.methods[(cm._cls, "__enter__")], [cm], {})
                ex = self.methods.get((cm._cls, "__exit__"))
                exits.append((lambda cm=cm, ex=ex: self.invoke(ex, [cm, None, None, None], {})) if ex is not None else None)
            elif isinstance(cm, (list, tuple)):
                v = cm                                   # os.scandir(...) and friends: the listing itself
                exits.append(None)
            else:
                raise Unsupported("with statement on an unmodelled context manager")
            if item.optional_vars is not None:
                self.assign(item.optional_vars, v, env)
        try:
            self.block(st.body, env)
        finally:
            for ex in reversed(exits):
                if ex is not None:
                    ex()

    def _augassign(self, st, env):
        t = st.target
        val = self.expr(st.value, env)
        if isinstance(t, ast.Name):
            if t.id not in env:
                raise Raised(UnboundLocalError(f"local variable '{t.id}' referenced before assignment"))
            cur = env[t.id]
            new = self._inplace(st.op, cur, val)
            if dict.__contains__(env, t.id) or not isinstance(env, Env):
                env[t.id] = new
            else:
                env[t.id] = new
            return
        if isinstance(t, ast.Attribute):
            base = self.expr(t.value, env)
            cur = self.getattr(base, t.attr)
            self._setattr(base, t.attr, self._inplace(st.op, cur, val))
            return
        if isinstance(t, ast.Subscript):
            base = self.expr(t.value, env)
            idx = self._slice(t.slice, env)
            try:
                base[idx] = self._inplace(st.op, base[idx], val)
            except (KeyError, IndexError, TypeError) as e:
                raise Raised(e)
            return
        raise Unsupported("augmented assignment target")

    def _inplace(self, op, cur, val):
        if isinstance(op, ast.Add) and isinstance(cur, list):
            cur.extend(self.iterate(val))
            return cur
        if isinstance(op, ast.BitOr) and isinstance(cur, (set, dict)):
            cur.update(val)
            return cur
        if hasattr(cur, "extend") and isinstance(op, ast.Add) and not isinstance(cur, (str, tuple, int, float)):
            cur.extend(self.iterate(val))
            return cur
        return self.binop(op, cur, val)

    def _setattr(self, base, attr, v):
        if isinstance(base, Obj):
            base.__dict__[attr] = v
        elif isinstance(base, _WritableClassRef):
            self.class_attrs[(base.name, attr)] = v
        elif isinstance(base, ClassRef):
            self.class_attrs[(base.name, attr)] = v
        else:
            raise Unsupported(f"attribute store on {type(base).__name__}")

    def assign(self, t, v, env):
        if isinstance(t, ast.Name):
            env[t.id] = v
        elif isinstance(t, ast.Attribute):
            self._setattr(self.expr(t.value, env), t.attr, v)
        elif isinstance(t, ast.Subscript):
            base = self.expr(t.value, env)
            try:
                base[self._slice(t.slice, env)] = v
            except (KeyError, IndexError, TypeError) as e:
                raise Raised(e)
        elif isinstance(t, (ast.Tuple, ast.List)):
            vs = list(self.iterate(v))
            star = [i for i, e in enumerate(t.elts) if isinstance(e, ast.Starred)]
            if star:
                i = star[0]
                after = len(t.elts) - i - 1
                if len(vs) < len(t.elts) - 1:
                    raise Raised(ValueError("not enough values to unpack"))
                for a, b in zip(t.elts[:i], vs[:i]):
                    self.assign(a, b, env)
                self.assign(t.elts[i].value, vs[i:len(vs) - after], env)
                for a, b in zip(t.elts[i + 1:], vs[len(vs) - after:]):
                    self.assign(a, b, env)
                return
            if len(vs) != len(t.elts):
                raise Raised(ValueError(f"unpack: expected {len(t.elts)} values, got {len(vs)}"))
            for a, b in zip(t.elts, vs):
                self.assign(a, b, env)
        else:
            raise Unsupported("assignment target")

    def _slice(self, s, env):
        if isinstance(s, ast.Slice):
            return slice(self.expr(s.lower, env) if s.lower else None, self.expr(s.upper, env) if s.upper else None,
                         self.expr(s.step, env) if s.step else None)
        return self.expr(s, env)

    # ------------------------------------------------------------------ expressions
    def expr(self, e, env):
        self.steps += 1
        if self.steps > self.max_steps:
            raise Unsupported("step budget exceeded")
        if isinstance(e, ast.Constant):
            return e.value
        if isinstance(e, ast.Name):
            if e.id in env:
                return env[e.id]
            fn = self.fn_stack[-1] if self.fn_stack else None
            if fn is not None and self._is_local(fn, e.id):
                raise Raised(UnboundLocalError(f"local variable '{e.id}' referenced before assignment"))
            return self.resolve_global(e.id)
        if isinstance(e, ast.Attribute):
            return self.getattr(self.expr(e.value, env), e.attr)
        if isinstance(e, (ast.Tuple, ast.List, ast.Set)):
            out = []
            for x in e.elts:
                if isinstance(x, ast.Starred):
                    out.extend(self.iterate(self.expr(x.value, env)))
                else:
                    out.append(self.expr(x, env))
            return tuple(out) if isinstance(e, ast.Tuple) else set(out) if isinstance(e, ast.Set) else out
        if isinstance(e, ast.Dict):
            d = {}
            for k, v in zip(e.keys, e.values):
                if k is None:
                    d.update(self.expr(v, env))
                else:
                    d[self.expr(k, env)] = self.expr(v, env)
            return d
        if isinstance(e, ast.Subscript):
            base = self.expr(e.value, env)
            idx = self._slice(e.slice, env)
            if isinstance(base, Obj):
                m = self.methods.get((base._cls, "__getitem__"))
                if m is not None:
                    return self.invoke(m, [base, idx], {})
                raise Raised(TypeError(f"'{base._cls}' object is not subscriptable"))
            if isinstance(base, Opaque):
                return Opaque(f"{base.label}[...]")
            if isinstance(idx, Opaque):
                raise Unsupported(f"subscript with {idx!r}")
            try:
                return base[idx]
            except (KeyError, IndexError, TypeError) as ex:
                raise Raised(ex)
        if isinstance(e, (ast.GeneratorExp, ast.ListComp, ast.SetComp, ast.DictComp)):
            return self._comprehension(e, env)
        if isinstance(e, ast.Lambda):
            return Closure(e, env, self.cur_mod)
        if isinstance(e, ast.JoinedStr):
            return "".join(self._fvalue(v, env) for v in e.values)
        if isinstance(e, ast.FormattedValue):
            return self._fvalue(e, env)
        if isinstance(e, ast.Call):
            return self.call(e, env)
        if isinstance(e, ast.Starred):
            raise Unsupported("starred expression")
        if isinstance(e, ast.Yield):
            if not self._yields:
                raise Unsupported("yield outside a generator call")
            self._yields[-1].append(self.expr(e.value, env) if e.value is not None else None)
            return None
        if isinstance(e, ast.YieldFrom):
            if not self._yields:
                raise Unsupported("yield outside a generator call")
            self._yields[-1].extend(self.iterate(self.expr(e.value, env)))
            return None
        if isinstance(e, ast.UnaryOp) and isinstance(e.op, (ast.UAdd, ast.Invert)):
            v = self.expr(e.operand, env)
            return +v if isinstance(e.op, ast.UAdd) else ~v
        if isinstance(e, ast.NamedExpr):
            v = self.expr(e.value, env)
            env[e.target.id] = v
            return v
        if isinstance(e, ast.Compare):
            left = self.expr(e.left, env)
            for op, rhs in zip(e.ops, e.comparators):
                right = self.expr(rhs, env)
                if isinstance(left, Opaque) or isinstance(right, Opaque):
                    if not isinstance(op, (ast.Is, ast.IsNot)):
                        raise Unsupported(f"comparison with {left!r} / {right!r}")
                if not self.compare(op, left, right):
                    return False
                left = right
            return True
        return super().expr(e, env)

    def _is_local(self, fnode, name) -> bool:
        cache = getattr(fnode, "_sa_locals", None)
        if cache is None:
            cache = set()
            if not isinstance(fnode, ast.Lambda):
                a = fnode.args
                cache |= {x.arg for x in a.posonlyargs + a.args + a.kwonlyargs}
                if a.vararg:
                    cache.add(a.vararg.arg)
                if a.kwarg:
                    cache.add(a.kwarg.arg)
                todo = list(fnode.body)
                glob = set()
                while todo:
                    n = todo.pop()
                    if isinstance(n, (ast.FunctionDef, ast.AsyncFunctionDef, ast.ClassDef)):
                        cache.add(n.name)
                        continue
                    if isinstance(n, (ast.Lambda, ast.ListComp, ast.SetComp, ast.DictComp, ast.GeneratorExp)):
                        continue
                    if isinstance(n, (ast.Global, ast.Nonlocal)):
                        glob |= set(n.names)
                    if isinstance(n, ast.Name) and isinstance(n.ctx, (ast.Store, ast.Del)):
                        cache.add(n.id)
                    if isinstance(n, ast.ExceptHandler) and n.name:
                        cache.add(n.name)
                    if isinstance(n, (ast.Import, ast.ImportFrom)):
                        for al in n.names:
                            cache.add((al.asname or al.name).split(".")[0])
                    todo.extend(ast.iter_child_nodes(n))
                cache -= glob
            try:
                fnode._sa_locals = cache
            except Exception:
                pass
        return name in cache

    def binop(self, op, l, r):
        if isinstance(l, Opaque) or isinstance(r, Opaque):
            return Opaque("binop")
        try:
            if isinstance(op, ast.Mod) and isinstance(l, str):
                return l % self.wrap_fmt(r)
            if isinstance(op, ast.Div):
                return l / r
            if isinstance(op, ast.Pow):
                return l ** r
            if isinstance(op, ast.BitOr):
                return l | r
            if isinstance(op, ast.BitAnd):
                return l & r
            if isinstance(op, ast.BitXor):
                return l ^ r
            if isinstance(op, ast.LShift):
                return l << r
            if isinstance(op, ast.RShift):
                return l >> r
            return super().binop(op, l, r)
        except (TypeError, ZeroDivisionError, ValueError) as e:
            raise Raised(e)

    def _fvalue(self, v, env) -> str:
        if isinstance(v, ast.Constant):
            return str(v.value)
        val = self.expr(v.value, env)
        spec = ""
        if v.format_spec is not None:
            spec = self.expr(v.format_spec, env)
        if v.conversion == ord("r"):
            val = self.py_repr(val)
        elif v.conversion == ord("s"):
            val = self.py_str(val)
        elif v.conversion == ord("a"):
            val = ascii(self.py_repr(val)) if not isinstance(val, str) else ascii(val)
        if isinstance(val, (Obj, ClassRef, list, tuple, dict, set, frozenset, Closure)):
            if spec:
                raise Raised(TypeError("unsupported format string passed to object.__format__"))
            return self.py_str(val)
        if isinstance(val, Opaque):
            return f"<{val.label}>"
        try:
            return format(val, spec)
        except (TypeError, ValueError) as e:
            raise Raised(e)

    def _comprehension(self, e, env):
        out: List[Any] = []
        is_dict = isinstance(e, ast.DictComp)

        def rec(i, scope):
            if i == len(e.generators):
                if is_dict:
                    out.append((self.expr(e.key, scope), self.expr(e.value, scope)))
                else:
                    out.append(self.expr(e.elt, scope))
                return
            g = e.generators[i]
            for item in self.iterate(self.expr(g.iter, scope if i else env)):
                self.steps += 1
                if self.steps > self.max_steps:
                    raise Unsupported("step budget exceeded")
                self.assign(g.target, item, scope)
                if all(self.truth(self.expr(c, scope)) for c in g.ifs):
                    rec(i + 1, scope)

        rec(0, Env(env))
        if is_dict:
            return dict(out)
        if isinstance(e, ast.SetComp):
            return set(out)
        if isinstance(e, ast.GeneratorExp):
            return _Gen(out)
        return out

    # ------------------------------------------------------------------ calls
    def wrap_native(self, v):
        """Value handed to a native (real Python) function: interpreted functions become python callables."""
        if isinstance(v, Closure):
            return lambda *a, **k: self.call_value(v, list(a), k)
        if isinstance(v, _Builtin):
            return lambda *a, **k: self.call_builtin(v.name, list(a), k)
        if isinstance(v, _Gen):
            return list(v)
        return v

    def wrap_fmt(self, v):
        """Value handed to native string formatting: instances answer str() / attribute access as Python would."""
        if isinstance(v, (Obj, ClassRef)):
            return _Proxy(self, v)
        if isinstance(v, Opaque):
            return f"<{v.label}>"
        if isinstance(v, tuple):
            return tuple(self.wrap_fmt(x) for x in v)
        if isinstance(v, dict):
            return {k: self.wrap_fmt(x) for k, x in v.items()}
        if isinstance(v, list) and any(isinstance(x, (Obj, ClassRef)) for x in v):
            return _FmtList(self, v)
        return v

    def unwrap(self, v):
        if isinstance(v, _Proxy):
            return v._obj
        return v

    def call_closure(self, c: Closure, args, kwargs):
        fnode = c.fnode
        if c.bound_self is not None:
            args = [c.bound_self] + list(args)
        a = fnode.args
        params = [x.arg for x in a.posonlyargs + a.args]
        env = Env(c.env)
        rest = list(args)
        for name in params:
            if rest:
                dict.__setitem__(env, name, rest.pop(0))
        if rest and a.vararg is None:
            raise Raised(TypeError(f"{c.name}() takes {len(params)} positional arguments but {len(args)} were given"))
        if a.vararg is not None:
            dict.__setitem__(env, a.vararg.arg, tuple(rest))
        kw = dict(kwargs)
        for name in params[len(a.posonlyargs):] + [x.arg for x in a.kwonlyargs]:
            if name in kw:
                if dict.__contains__(env, name):
                    raise Raised(TypeError(f"{c.name}() got multiple values for argument '{name}'"))
                dict.__setitem__(env, name, kw.pop(name))
        if a.kwarg is not None:
            dict.__setitem__(env, a.kwarg.arg, kw)
        elif kw:
            raise Raised(TypeError(f"{c.name}() got an unexpected keyword argument '{sorted(kw)[0]}'"))
        self.mod_stack.append(c.mod if c.mod is not None else self.cur_mod)
        try:
            denv = c.env if c.env is not None else Env()
            # a default is evaluated once, when the function is defined: a mutable default is one object for every call
            cache = self.__dict__.setdefault("_default_cache", {})

            def default_of(d):
                if id(d) not in cache:
                    cache[id(d)] = self.expr(d, denv)
                return cache[id(d)]
            for name, d in zip(params[len(params) - len(a.defaults):], a.defaults):
                if not dict.__contains__(env, name):
                    dict.__setitem__(env, name, default_of(d))
            for x, d in zip(a.kwonlyargs, a.kw_defaults):
                if not dict.__contains__(env, x.arg) and d is not None:
                    dict.__setitem__(env, x.arg, default_of(d))
        finally:
            self.mod_stack.pop()
        missing = [n for n in params + [x.arg for x in a.kwonlyargs] if not dict.__contains__(env, n)]
        if missing:
            raise Raised(TypeError(f"{c.name}() missing required argument(s) {missing}"))
        self._call_depth += 1
        if self._call_depth > 40:
            self._call_depth -= 1
            raise Unsupported("call depth")
        try:
            if _is_generator(fnode):
                # generators are run eagerly: the values are collected and handed out as a finished sequence
                self._yields.append([])
                try:
                    self._run_body(fnode, env)
                    return _Gen(self._yields[-1])
                finally:
                    self._yields.pop()
            return self._run_body(fnode, env)
        finally:
            self._call_depth -= 1

    def invoke(self, fnode, args, kwargs):
        return self.call_closure(Closure(fnode, None, getattr(fnode, "_sa_mod", None) or self.cur_mod), list(args), dict(kwargs))

    def instantiate(self, cname: str, args, kwargs):
        if cname in self.ctor_hooks:
            return self.ctor_hooks[cname](self, list(args), dict(kwargs))
        return self.construct(cname, args, kwargs)

    def construct(self, cname: str, args=(), kwargs=None):
        kwargs = kwargs or {}
        if cname not in self.prog.classes:
            raise Unsupported(f"construction of unknown class {cname}")
        from .minieval import namedtuple_of
        nt = namedtuple_of(self.prog.classes[cname].node, lambda d: self.expr(d, {}))
        if nt is not None:
            return nt(*args, **kwargs)               # a NamedTuple of the repository: the equivalent Python namedtuple
        if self.is_exception_class(cname):
            me = Obj(cname, args=tuple(args))
            init = self.methods.get((cname, "__init__"))
            if init is not None:
                self.invoke(init, [me] + list(args), kwargs)
            return me
        if cname not in self.interpreted and self.prog.classes[cname].mod.rel not in self.interpreted_modules:
            # any other plain class of the repository: its constructor is interpreted as well (arguments and defaults are
            # bound as Python would); only when it leaves the evaluable subset is the instance an opaque stand-in
            if self.opaque_classes is not None and cname in self.opaque_classes:
                return Obj(cname, _opaque=True, _args=list(args), _kwargs=dict(kwargs))
            try:
                init = self.methods.get((cname, "__init__"))
                me = Obj(cname, _opaque=True)
                if init is not None:
                    self.invoke(init, [me] + list(args), kwargs)
                elif self.is_dataclass(cname):
                    me = self._dataclass_new(cname, args, kwargs)
                    me.__dict__["_opaque"] = True
                return me
            except Unsupported:
                return Obj(cname, _opaque=True, _args=list(args), _kwargs=dict(kwargs))
        self._run_init_subclass(cname)
        init = self.methods.get((cname, "__init__"))
        if init is not None:
            me = Obj(cname)
            self.invoke(init, [me] + list(args), kwargs)
            return me
        if self.is_dataclass(cname):
            return self._dataclass_new(cname, args, kwargs)
        if args or kwargs:
            raise Raised(TypeError(f"{cname}() takes no arguments"))
        return Obj(cname)

    def _dataclass_fields(self, cname):
        out = []
        for c in reversed(self.class_chain(cname)):
            k = self.prog.classes.get(c)
            if k is None:
                continue
            for st in k.node.body:
                if isinstance(st, ast.AnnAssign) and isinstance(st.target, ast.Name) and "ClassVar" not in ast.unparse(st.annotation):
                    out = [(n, v) for n, v in out if n != st.target.id] + [(st.target.id, (st.value, k.mod))]
        return out

    def _dataclass_new(self, cname, args, kwargs):
        fields = self._dataclass_fields(cname)
        vals = {}
        rest = list(args)
        for name, _ in fields:
            if rest:
                vals[name] = rest.pop(0)
        if rest:
            raise Raised(TypeError(f"{cname}() takes {len(fields)} positional arguments"))
        for k, v in kwargs.items():
            if k not in [n for n, _ in fields] or k in vals:
                raise Raised(TypeError(f"{cname}() got an unexpected / repeated keyword argument '{k}'"))
            vals[k] = v
        for name, (dv, mod) in fields:
            if name in vals:
                continue
            if dv is None:
                raise Raised(TypeError(f"{cname}() missing required argument '{name}'"))
            self.mod_stack.append(mod)
            try:
                if isinstance(dv, ast.Call) and ast.unparse(dv.func) in ("field", "dataclasses.field"):
                    got = False
                    for k in dv.keywords:
                        if k.arg == "default":
                            vals[name] = self.expr(k.value, Env())
                            got = True
                        elif k.arg == "default_factory":
                            vals[name] = self.call_value(self.expr(k.value, Env()), [], {})
                            got = True
                    if not got:
                        raise Raised(TypeError(f"{cname}() missing required argument '{name}'"))
                else:
                    vals[name] = self.expr(dv, Env())
            finally:
                self.mod_stack.pop()
        me = Obj(cname, **vals)
        post = self.methods.get((cname, "__post_init__"))
        if post is not None:
            self.invoke(post, [me], {})
        return me

    def call_value(self, f, args, kwargs):
        if isinstance(f, Closure):
            return self.call_closure(f, args, kwargs)
        if isinstance(f, ClassRef):
            return self.instantiate(f.name, args, kwargs)
        if isinstance(f, _Builtin):
            return self.call_builtin(f.name, args, kwargs)
        if isinstance(f, Opaque):
            self.trace.append(("opaque-call", f.label, args, kwargs))
            return Opaque(f"{f.label}(...)")
        if isinstance(f, type) and issubclass(f, BaseException):
            return f(*[self.py_str(a) if isinstance(a, Obj) else a for a in args])
        if f in (str, repr):
            if not args:
                return ""
            return self.py_str(args[0]) if f is str else self.py_repr(args[0])
        if f is bool:
            return self.truth(args[0]) if args else False
        if f in (set, frozenset):
            return f(self._distinct(list(self.iterate(args[0])))) if args else f()
        if f in (list, tuple):
            return f(self.iterate(args[0])) if args else f()
        if f is dict:
            if args and not isinstance(args[0], dict):
                return dict(self.iterate(args[0]), **kwargs)
            return dict(*args, **kwargs)
        if f is int or f is float:
            try:
                return f(*args, **kwargs)
            except (TypeError, ValueError) as e:
                raise Raised(e)
        if f is type:
            v = args[0]
            return ClassRef(v._cls) if isinstance(v, Obj) else type(v)
        if callable(f):
            try:
                r = f(*[self.wrap_native(a) for a in args], **{k: self.wrap_native(v) for k, v in kwargs.items()})
            except self._NATIVE_CATCH as e:
                if isinstance(e, RecursionError):
                    raise
                raise Raised(e)
            return self.unwrap(r)
        raise Raised(TypeError(f"'{type(f).__name__}' object is not callable"))

    def call(self, e: ast.Call, env):
        f = e.func
        # super().__init__(...) / super().method(...)
        if isinstance(f, ast.Attribute) and isinstance(f.value, ast.Call) and isinstance(f.value.func, ast.Name) \
                and f.value.func.id == "super":
            return self._super_call(e, env)
        if isinstance(f, ast.Name) and f.id == "isinstance" and len(e.args) == 2 and f.id not in env:
            return self._isinstance(self.expr(e.args[0], env), e.args[1])
        args = []
        for a in e.args:
            if isinstance(a, ast.Starred):
                args.extend(list(self.iterate(self.expr(a.value, env))))
            else:
                args.append(self.expr(a, env))
        kwargs = {}
        for k in e.keywords:
            if k.arg is None:
                kwargs.update(self.expr(k.value, env))
            else:
                kwargs[k.arg] = self.expr(k.value, env)
        if isinstance(f, ast.Attribute):
            base = self.expr(f.value, env)
            return self.call_method(base, f.attr, args, kwargs)
        fv = self.expr(f, env)
        return self.call_value(fv, args, kwargs)

    def _isinstance(self, v, texpr) -> bool:
        ts = texpr.elts if isinstance(texpr, ast.Tuple) else [texpr]
        for t in ts:
            nm = ast.unparse(t).split(".")[-1]
            if isinstance(v, Obj) and nm in self.class_chain(v._cls):
                return True
            if nm in ("Path", "PurePath", "PosixPath") and hasattr(v, "is_dir") and not isinstance(v, Obj):
                return True
            if nm == "bytes":
                if isinstance(v, bytes):
                    return True
                continue
        return super()._isinstance(v, texpr)

    def _super_call(self, e, env):
        fnode = self.fn_stack[-1] if self.fn_stack else None
        fn = getattr(fnode, "_sa_fn", None)
        if fn is None or fn.cls is None:
            raise Unsupported("super() outside a method")
        me = env[fnode.args.args[0].arg] if fnode.args.args else None
        args = [self.expr(a, env) for a in e.args]
        kwargs = {k.arg: self.expr(k.value, env) for k in e.keywords}
        own = me._cls if isinstance(me, Obj) else me.name if isinstance(me, ClassRef) else fn.cls.name
        chain = self.class_chain(own)
        start = chain.index(fn.cls.name) + 1 if fn.cls.name in chain else 1
        attr = e.func.attr
        for c in chain[start:]:
            k = self.prog.classes.get(c)
            if k is not None and attr in k.methods:
                return self.call_closure(Closure(k.methods[attr].node, None, k.mod), [me] + args, kwargs)
            if k is None:
                break
        # builtin base
        if attr == "__init__":
            if isinstance(me, Obj) and self.is_exception_class(me._cls):
                me.__dict__["args"] = tuple(args)
            return None
        if attr in ("__init_subclass__",):
            return None
        raise Unsupported(f"super().{attr}")

    def _distinct(self, items):
        """Items in order without those equal (by the interpreted __eq__ of their class) to an earlier one: what a dict / set
        keeps when the class of its keys defines equality."""
        out = []
        for x in items:
            if isinstance(x, Obj) and self.methods.get((x._cls, "__eq__")) is not None:
                if any(isinstance(y, Obj) and self.py_eq(x, y) for y in out):
                    continue
            out.append(x)
        return out

    def call_method(self, base, attr, args, kwargs):
        if base is dict and attr == "fromkeys" and args:
            return dict.fromkeys(self._distinct(list(self.iterate(args[0]))), *args[1:])
        if isinstance(base, Obj):
            nat = base.__dict__.get("_native", {})
            if attr in nat:
                return self.call_value(nat[attr], args, kwargs)
            if (base._cls, attr) in self.natives:
                return self.natives[(base._cls, attr)](*args, **kwargs)
            if base.__dict__.get("_stream"):
                if attr == "write":
                    (self.stdout if base._stream == "stdout" else self.stderr).append(self.py_str(args[0]))
                    return len(args[0]) if isinstance(args[0], str) else 0
                if attr in ("flush", "close"):
                    return None
                if attr == "isatty":
                    return False
            v = self.getattr(base, attr)
            return self.call_value(v, args, kwargs)
        if isinstance(base, (ClassRef, Module, Opaque, Closure)):
            return self.call_value(self.getattr(base, attr), args, kwargs)
        if isinstance(base, _Gen):
            base = list(base)
        # native values -----------------------------------------------------------
        if isinstance(base, str):
            if attr == "format":
                try:
                    return base.format(*[self.wrap_fmt(a) for a in args], **{k: self.wrap_fmt(v) for k, v in kwargs.items()})
                except (TypeError, ValueError, IndexError, KeyError, AttributeError) as ex:
                    raise Raised(ex)
            if attr == "join":
                items = list(self.iterate(args[0]))
                if any(not isinstance(x, str) for x in items):
                    raise Raised(TypeError("sequence item: expected str instance"))
                return base.join(items)
        if isinstance(base, list):
            if attr == "sort":
                key = kwargs.get("key")
                rev = bool(kwargs.get("reverse", False))
                base[:] = self.sort_values(base, key, rev)
                return None
            if attr in ("remove", "index", "count") and args and (isinstance(args[0], (Obj, ClassRef)) or any(isinstance(x, Obj) for x in base)):
                hits = [i for i, x in enumerate(base) if self.py_eq(x, args[0])]
                if attr == "count":
                    return len(hits)
                if not hits:
                    raise Raised(ValueError("list.remove(x): x not in list"))
                if attr == "index":
                    return hits[0]
                del base[hits[0]]
                return None
            if attr == "extend":
                base.extend(self.iterate(args[0]))
                return None
        if isinstance(base, dict) and attr in ("update",) and args and isinstance(args[0], _Gen):
            base.update(list(args[0]))
            return None
        if isinstance(base, set) and attr in ("update", "union", "difference", "intersection") and args:
            args = [list(self.iterate(a)) for a in args]
        v = self.getattr(base, attr)
        return self.call_value(v, args, kwargs)

    def sort_values(self, seq, key=None, reverse=False):
        seq = list(seq)
        if key is not None:
            keyed = [(self.call_value(key, [x], {}), x) for x in seq]
            if any(isinstance(k, (Obj, Opaque)) for k, _ in keyed):
                raise Unsupported("sort key is not a native value")
            try:
                idx = sorted(range(len(keyed)), key=lambda i: keyed[i][0], reverse=reverse)
            except TypeError as e:
                raise Raised(e)
            return [keyed[i][1] for i in idx]
        if any(isinstance(x, Obj) for x in seq):
            out = self.call_sorted(seq)
            return list(reversed(out)) if reverse else out
        try:
            return sorted(seq, reverse=reverse)
        except TypeError as e:
            raise Raised(e)

    # ------------------------------------------------------------------ builtins
    def call_builtin(self, n, args, kw):
        if n == "print":
            sep = kw.get("sep", " ")
            end = kw.get("end", "\n")
            sep = " " if sep is None else sep
            end = "\n" if end is None else end
            txt = sep.join(self.py_str(a) if not isinstance(a, Opaque) else f"<{a.label}>" for a in args) + end
            f = kw.get("file")
            if isinstance(f, Obj) and f.__dict__.get("_stream") == "stderr":
                self.stderr.append(txt)
            elif f is None or (isinstance(f, Obj) and f.__dict__.get("_stream") == "stdout"):
                self.stdout.append(txt)
            elif hasattr(f, "write") and not isinstance(f, (Obj, Opaque)):
                f.write(txt)
            else:
                raise Unsupported("print to an unmodelled file")
            return None
        if n == "len":
            return self.length(args[0])
        if n == "bool":
            return self.truth(args[0]) if args else False
        if n in ("all", "any"):
            vals = (self.truth(x) for x in self.iterate(args[0]))
            return all(vals) if n == "all" else any(vals)
        if n == "sum":
            try:
                return sum(self.iterate(args[0]), *args[1:])
            except TypeError as e:
                raise Raised(e)
        if n == "sorted":
            return self.sort_values(self.iterate(args[0]), kw.get("key"), bool(kw.get("reverse", False)))
        if n in ("min", "max"):
            seq = list(self.iterate(args[0])) if len(args) == 1 else list(args)
            if not seq:
                if "default" in kw:
                    return kw["default"]
                raise Raised(ValueError(f"{n}() arg is an empty sequence"))
            s = self.sort_values(seq, kw.get("key"))
            if n == "min":
                return s[0]
            # max returns the first maximal element
            best = s[-1]
            keyf = kw.get("key")
            for x in seq:
                kx = self.call_value(keyf, [x], {}) if keyf is not None else x
                kb = self.call_value(keyf, [best], {}) if keyf is not None else best
                if (not isinstance(kx, Obj) and kx == kb) or (isinstance(kx, Obj) and not self.obj_lt(kx, kb) and not self.obj_lt(kb, kx)):
                    return x
            return best
        if n == "enumerate":
            return list(enumerate(self.iterate(args[0]), *args[1:], **kw))
        if n == "zip":
            return list(zip(*[self.iterate(a) for a in args]))
        if n == "range":
            return range(*args)
        if n == "reversed":
            return list(reversed(list(self.iterate(args[0]))))
        if n == "map":
            return _Gen([self.call_value(args[0], list(xs), {}) for xs in zip(*[self.iterate(a) for a in args[1:]])])
        if n == "filter":
            f = args[0]
            return _Gen([x for x in self.iterate(args[1]) if self.truth(x if f is None else self.call_value(f, [x], {}))])
        if n == "iter":
            return _Iter(list(self.iterate(args[0])) if not isinstance(args[0], _Iter) else args[0])
        if n == "next":
            it = args[0]
            if isinstance(it, _Gen):
                it = it.as_iter()
            if not isinstance(it, _Iter):
                if hasattr(it, "__next__"):
                    try:
                        return next(it, *args[1:])
                    except StopIteration as e:
                        raise Raised(e)
                raise Raised(TypeError(f"'{type(it).__name__}' object is not an iterator"))
            try:
                return it.next()
            except StopIteration as e:
                if len(args) > 1:
                    return args[1]
                raise Raised(e)
        if n == "isinstance":
            return True
        if n == "hasattr":
            try:
                self.getattr(args[0], args[1])
                return True
            except Raised as r:
                if isinstance(r.value, AttributeError):
                    return False
                raise
            except Unsupported:
                return False
        if n == "getattr":
            try:
                return self.getattr(args[0], args[1])
            except Raised as r:
                if len(args) > 2 and isinstance(r.value, AttributeError):
                    return args[2]
                raise
        if n == "setattr":
            self._setattr(args[0], args[1], args[2])
            return None
        if n == "callable":
            return isinstance(args[0], (Closure, ClassRef, _Builtin)) or callable(args[0])
        if n == "repr":
            return self.py_repr(args[0])
        if n == "ascii":
            return ascii(self.py_repr(args[0])) if not isinstance(args[0], str) else ascii(args[0])
        if n == "id":
            return id(args[0])
        if n in ("exit", "quit"):
            raise Raised(SystemExit(*args[:1]))
        if n in ("abs", "round", "divmod", "chr", "ord", "pow", "hash", "format", "hex", "oct", "bin"):
            try:
                return getattr(builtins, n)(*args, **kw)
            except (TypeError, ValueError) as e:
                raise Raised(e)
        if n == "open":
            raise Unsupported("open() is not modelled")
        if n == "vars":
            return self.getattr(args[0], "__dict__")
        raise Unsupported(f"builtin {n}")


_BUILTIN_FUNCS = {"print", "len", "bool", "all", "any", "sum", "sorted", "min", "max", "enumerate", "zip", "range", "reversed",
                  "map", "filter", "iter", "next", "isinstance", "hasattr", "getattr", "setattr", "callable", "repr", "ascii",
                  "id", "exit", "quit", "abs", "round", "divmod", "chr", "ord", "pow", "hash", "format", "hex", "oct", "bin",
                  "open", "vars"}


class _Builtin:
    def __init__(self, name):
        self.name = name

    def __repr__(self):
        return f"<built-in function {self.name}>"


class _Gen(list):
    """An eagerly evaluated generator / map / filter object (iterable once semantics are not modelled)."""

    def as_iter(self):
        it = getattr(self, "_it", None)
        if it is None:
            it = self._it = _Iter(self)
        return it


class _Iter:
    def __init__(self, seq):
        self.seq = seq
        self.i = 0

    def next(self):
        if self.i >= len(self.seq):
            raise StopIteration()
        v = self.seq[self.i]
        self.i += 1
        return v

    def __iter__(self):
        return self

    def __next__(self):
        return self.next()


class _WritableClassRef(ClassRef):
    def __init__(self, name, ev):
        super().__init__(name)


def _is_generator(fnode) -> bool:
    c = getattr(fnode, "_sa_is_gen", None)
    if c is None:
        c = any(isinstance(n, (ast.Yield, ast.YieldFrom)) for n in _walk_local(fnode))
        try:
            fnode._sa_is_gen = c
        except Exception:
            pass
    return c


def _walk_local(fnode):
    if isinstance(fnode, ast.Lambda):
        return
    todo = list(fnode.body)
    while todo:
        n = todo.pop()
        yield n
        if isinstance(n, (ast.FunctionDef, ast.AsyncFunctionDef, ast.ClassDef, ast.Lambda)):
            continue
        todo.extend(ast.iter_child_nodes(n))
