"""C snippets through the analysed pipeline, by interpretation only (nothing of norminette is imported or executed).

`lex(prog, text)` turns a C fragment into stub tokens by interpreting the tree's own Lexer.get_next_token (sa/lexsim.py);
`Statement` runs a Primary rule and the Check rules on such tokens with a stub Context (sa/stubrun.py), the way
Registry.run_rules does for one statement: primary.run -> claimed count -> history gets the primary's name -> each check's run
sees the same context with tkn_scope = the claimed count.  Rules use it to state a property of a rule on a finite family of
fragments written as C text instead of hand-made token lists (DESIGN §3.4b: interpretation over enumerated stub domains)."""
from __future__ import annotations

from typing import Dict, List, Optional, Sequence, Tuple

from .lexsim import LexerSim
from .minieval import Obj, Unsupported
from .model import Program
from .stubrun import RUNTIME_ERRORS, StubContext, run_rule

_LEX_CACHE: Dict[Tuple[int, str], List[Tuple[str, Tuple[int, int], Optional[str]]]] = {}


def lex(prog: Program, text: str, first_line: int = 1) -> List[Obj]:
    """Tokens of *text* as stub Token objects (type, pos, value).  Unsupported when the tokenizer leaves the evaluable subset or
    reports a lexical diagnostic (the fragments are meant to be well-formed)."""
    key = (id(prog), text)
    raw = _LEX_CACHE.get(key)
    if raw is None:
        sim = LexerSim(prog, text)
        raw = []
        for _ in range(len(text) + 2):
            out = sim.call("get_next_token")
            if out.kind != "ok":
                raise Unsupported(f"the tokenizer raises on the fragment {text!r}: {out!r}")
            tok = out.value
            if tok is None:
                break
            raw.append((tok.type, tuple(tok.pos), tok.value))
        if sim.error_names():
            raise Unsupported(f"the fragment {text!r} has lexical diagnostics {sim.error_names()}")
        _LEX_CACHE[key] = raw
    return [Obj("Token", type=t, pos=(p[0] + first_line - 1, p[1]), value=v) for t, p, v in raw]


class Outcome:
    def __init__(self):
        self.matched: Optional[bool] = None
        self.claimed: int = 0
        self.codes: List[str] = []
        self.positions: List[Optional[Tuple[int, int]]] = []
        self.raised: Optional[str] = None         # repository exception that ended the statement (a fatal diagnostic)
        self.hang: Optional[str] = None           # rule whose interpretation exceeded the step budget
        self.sub: Optional[str] = None            # class of the scope the statement asks to enter (context.sub), if any
        self.multiline: Optional[bool] = None     # `multiline` of the current scope after the statement

    def at(self, code: str) -> List[Optional[Tuple[int, int]]]:
        return [p for c, p in zip(self.codes, self.positions) if c == code]


def run_statement(prog: Program, tokens: Sequence[Obj], primary: str, checks: Sequence[str] = (), scope: str = "GlobalScope",
                  history: Sequence[str] = ("IsEmptyLine",), max_steps: int = 60000, **ctx) -> Outcome:
    """One statement through `primary` and then `checks`, on one shared stub context."""
    out = Outcome()
    sc = StubContext(prog, list(tokens), history=tuple(history), scope=scope, **ctx)

    def go(name):
        try:
            return run_rule(prog, name, sc, max_steps=max_steps)
        except Unsupported as e:
            if "step budget" in str(e):
                out.hang = name
                return None
            raise
    try:
        r = go(primary)
    except RUNTIME_ERRORS as e:
        out.raised = type(e).__name__ if not hasattr(e, "name") else str(getattr(e, "name"))
        out.codes, out.positions = sc.codes(), list(sc.positions)
        return out
    if out.hang:
        return out
    if isinstance(r, (tuple, list)) and len(r) == 2:
        out.matched, out.claimed = bool(r[0] is True), r[1] if isinstance(r[1], int) else 0
    sub = sc.obj.__dict__.get("sub")
    out.sub = getattr(sub, "_cls", None) if sub is not None else None
    out.multiline = getattr(sc.obj.__dict__.get("scope"), "multiline", None)
    if not out.matched:
        out.codes, out.positions = sc.codes(), list(sc.positions)
        return out
    sc.obj.__dict__["tkn_scope"] = out.claimed
    sc.obj.__dict__["history"].append(primary)
    for c in checks:
        try:
            go(c)
        except RUNTIME_ERRORS as e:
            out.raised = type(e).__name__ if not hasattr(e, "name") else str(getattr(e, "name"))
            break
        if out.hang:
            break
    out.codes, out.positions = sc.codes(), list(sc.positions)
    return out


def first_match(prog: Program, tokens: Sequence[Obj], scope: str = "Function", history: Sequence[str] = ("IsBlockStart",),
                max_steps: int = 60000, **ctx):
    """The primary that Registry.run would let claim the statement at the head of *tokens*: primaries by descending priority,
    scope filter applied, first one whose run() reports a match.  -> (primary name | None, Outcome | None)"""
    from .facts import registry_model
    rm = registry_model(prog)
    prims = sorted(rm.primaries, key=lambda c: -(rm.priority.get(c.name) or 0))
    for c in prims:
        flt = rm.scope.get(c.name)
        if flt and scope not in flt:
            continue
        if not rm.primary_can_run(c.name):
            continue
        o = run_statement(prog, tokens, c.name, (), scope=scope, history=history, max_steps=max_steps, **ctx)
        if o.hang or o.raised:
            return c.name, o
        if o.matched:
            return c.name, o
    return None, None
