"""Normalisation pre-pass: functions the rules do not know are inlined back into their callers.

The rules of this analyser were written against the decomposition of the pinned tree (``inventory.json``: the keys of
all functions that exist there).  A behaviour-preserving *extract function / extract method / nested helper* refactoring
adds functions that are not in the inventory; a defect can hide in such a helper just as well.  Both are handled the same
way: before the program model is built, every call of an unknown function that can be resolved syntactically
(``self.h(...)`` / ``cls.h(...)`` / ``Class.h(...)`` inside the class, ``h(...)`` for a module-level or nested function,
an imported module-level function) is replaced by the body of the function -- parameters bound by assignment, locals
renamed where they collide, ``return`` turned into an assignment of the call's target (early returns: a do-once
``while True: ... break`` wrapper, marked ``_sa_inline``).  The unknown function is dropped when nothing refers to it
any more.  Everything is plain ``ast``; the result is what the rest of the analyser sees.

What is not inlined (left as is, the rules then see a call of an unknown function): recursive helpers, generators,
decorated functions (other than staticmethod / classmethod), ``*args`` / ``**kwargs``, calls in positions whose
evaluation is conditional inside an expression (second operand of and/or, conditional expression branch,
comprehension, lambda) unless the helper is a single ``return <expression>``.
"""
from __future__ import annotations

import ast
import copy
import json
import os
from typing import Dict, List, Optional, Set, Tuple

_HERE = os.path.dirname(os.path.abspath(__file__))
_DEFS = (ast.FunctionDef, ast.AsyncFunctionDef)


def load_inventory() -> Set[str]:
    with open(os.path.join(_HERE, "inventory.json"), encoding="utf-8") as fh:
        return set(json.load(fh)["functions"])


def load_class_inventory() -> Set[str]:
    with open(os.path.join(_HERE, "inventory.json"), encoding="utf-8") as fh:
        return set(json.load(fh).get("classes", []))


_KNOWN_FUNCS: Set[str] = set()


def erase_namedtuples(trees: Dict[str, ast.Module], known_classes: Set[str]) -> List[str]:
    """Unknown `class P(NamedTuple)` record types (fields only, no methods) are erased: `P(a, b)` / `P(x=a, y=b)` becomes
    the tuple `(a, b)` and `.x` becomes `[0]` -- the tuple the rules already know how to follow.  A field whose name is
    also an attribute or method name of some other class of the package is left as an attribute (ambiguous receiver)."""
    report: List[str] = []
    nts = []
    for rel, tree in trees.items():
        for st in tree.body:
            if isinstance(st, ast.ClassDef) and f"{rel}::{st.name}" not in known_classes \
                    and any(ast.unparse(b).split(".")[-1] == "NamedTuple" for b in st.bases):
                fields, defaults, ok = [], {}, True
                for x in st.body:
                    if isinstance(x, ast.AnnAssign) and isinstance(x.target, ast.Name):
                        fields.append(x.target.id)
                        if x.value is not None:
                            defaults[x.target.id] = x.value
                    elif isinstance(x, ast.Expr) and isinstance(x.value, ast.Constant):
                        continue
                    elif isinstance(x, ast.Pass):
                        continue
                    else:
                        ok = False
                if ok and fields:
                    nts.append((rel, st, fields, defaults))
    if not nts:
        return report
    # attribute / method names in use on other objects of the package
    taken: Set[str] = set()
    for rel, tree in trees.items():
        for n in ast.walk(tree):
            if isinstance(n, ast.Attribute) and isinstance(n.ctx, ast.Store):
                taken.add(n.attr)
            elif isinstance(n, _DEFS):
                taken.add(n.name)
            elif isinstance(n, ast.ClassDef) and not any(n is c for _, c, _, _ in nts):
                for x in n.body:
                    if isinstance(x, ast.AnnAssign) and isinstance(x.target, ast.Name):
                        taken.add(x.target.id)
                    elif isinstance(x, ast.Assign):
                        for t in x.targets:
                            if isinstance(t, ast.Name):
                                taken.add(t.id)
    names = {}
    for rel, cnode, fields, defaults in nts:
        if cnode.name in names:
            prev = names[cnode.name]
            if prev[2] != fields:
                names[cnode.name] = None            # two different records of the same name: leave both alone
            continue
        names[cnode.name] = (rel, cnode, fields, defaults)
    names = {k: v for k, v in names.items() if v is not None}
    field_index: Dict[str, int] = {}
    clash = set()
    for _, _, fields, _ in names.values():
        for i, f in enumerate(fields):
            if f in field_index and field_index[f] != i:
                clash.add(f)
            field_index[f] = i
    usable = {f: i for f, i in field_index.items() if f not in taken and f not in clash}
    # fields whose name is also an attribute of other objects are rewritten only on receivers that are known, locally, to
    # hold the record (typed): names assigned from the constructor, lists they are appended to, subscripts / loop variables
    # of such lists.  A record with such a field is erased only if the record never leaves that local view (it is not passed
    # to another function, stored in an attribute or returned by a function that stays) -- a half-erased record would be worse
    # than the NamedTuple itself, which the evaluators understand natively.
    ambiguous = {}
    for cname in list(names):
        amb = [f for f in names[cname][2] if f not in usable]
        if amb:
            ambiguous[cname] = amb
    typed_reads = {}          # id(Attribute node) -> index, for ambiguous fields on typed receivers
    for cname, amb in list(ambiguous.items()):
        rel, cnode, fields, _ = names[cname]
        ok = True
        reads = {}
        for rel2, tree in trees.items():
            for key, fnode, cls, outer in function_keys(rel2, tree):
                ctor_calls = [n for n in _walk_no_defs(fnode) if isinstance(n, ast.Call) and isinstance(n.func, ast.Name) and n.func.id == cname]
                if not ctor_calls:
                    continue
                if rel2 != rel and not any(isinstance(st, ast.ImportFrom) and any(a_.name == cname for a_ in st.names) for st in tree.body):
                    continue
                par = {}
                for n in ast.walk(fnode):
                    for ch in ast.iter_child_nodes(n):
                        par[id(ch)] = n
                rec_names, rec_lists = set(), set()
                for c in ctor_calls:
                    p_ = par.get(id(c))
                    if isinstance(p_, ast.Assign) and p_.value is c and len(p_.targets) == 1 and isinstance(p_.targets[0], ast.Name):
                        rec_names.add(p_.targets[0].id)
                    elif isinstance(p_, ast.Call) and isinstance(p_.func, ast.Attribute) and p_.func.attr in ("append", "insert") \
                            and isinstance(p_.func.value, ast.Name) and c in p_.args:
                        rec_lists.add(p_.func.value.id)
                    elif isinstance(p_, ast.Return) and f"{rel2}::" and True:
                        # returned: fine only if this function is itself unknown (it will be inlined into its callers)
                        ok = ok and (key not in _KNOWN_FUNCS)
                    elif isinstance(p_, (ast.Tuple, ast.List)) or isinstance(p_, ast.IfExp):
                        ok = False
                    else:
                        ok = False
                changed = True
                while changed:
                    changed = False
                    for n in _walk_no_defs(fnode):
                        if isinstance(n, ast.Assign) and len(n.targets) == 1 and isinstance(n.targets[0], ast.Name):
                            v = n.value
                            src_typed = (isinstance(v, ast.Name) and v.id in rec_names) or \
                                (isinstance(v, ast.Subscript) and isinstance(v.value, ast.Name) and v.value.id in rec_lists) or \
                                (isinstance(v, ast.Call) and isinstance(v.func, ast.Attribute) and v.func.attr == "pop"
                                 and isinstance(v.func.value, ast.Name) and v.func.value.id in rec_lists)
                            if src_typed and n.targets[0].id not in rec_names:
                                rec_names.add(n.targets[0].id)
                                changed = True
                        elif isinstance(n, ast.Assign) and len(n.targets) == 1 and isinstance(n.targets[0], (ast.Tuple, ast.List)) \
                                and isinstance(n.value, (ast.Tuple, ast.List)) and len(n.targets[0].elts) == len(n.value.elts):
                            for t_, v_ in zip(n.targets[0].elts, n.value.elts):
                                if isinstance(t_, ast.Name) and isinstance(v_, ast.Name) and v_.id in rec_names and t_.id not in rec_names:
                                    rec_names.add(t_.id)
                                    changed = True
                        elif isinstance(n, (ast.For, ast.comprehension)) and isinstance(n.target, ast.Name) \
                                and isinstance(n.iter, ast.Name) and n.iter.id in rec_lists and n.target.id not in rec_names:
                            rec_names.add(n.target.id)
                            changed = True
                for n in _walk_no_defs(fnode):
                    if isinstance(n, ast.Attribute) and isinstance(n.ctx, ast.Load) and n.attr in amb:
                        v = n.value
                        typed = (isinstance(v, ast.Name) and v.id in rec_names) or \
                            (isinstance(v, ast.Subscript) and isinstance(v.value, ast.Name) and v.value.id in rec_lists)
                        if typed:
                            reads[id(n)] = fields.index(n.attr)
                    # the record must not escape: as an argument of another call, or stored in an attribute
                    if isinstance(n, ast.Call) and not (isinstance(n.func, ast.Attribute) and n.func.attr in ("append", "insert", "index", "count")):
                        for a_ in list(n.args) + [k.value for k in n.keywords]:
                            if (isinstance(a_, ast.Name) and a_.id in rec_names) or (isinstance(a_, ast.Name) and a_.id in rec_lists):
                                if not (isinstance(n.func, ast.Name) and n.func.id in ("len", "bool", "list", "tuple", "reversed", "enumerate", "sorted", "iter", "print", "str", "repr")):
                                    ok = False
                    if isinstance(n, ast.Assign) and any(isinstance(t, ast.Attribute) for t in n.targets) \
                            and isinstance(n.value, ast.Name) and (n.value.id in rec_names or n.value.id in rec_lists):
                        ok = False
        if ok:
            typed_reads.update(reads)
        else:
            report.append(f"kept NamedTuple {rel}::{cname}: field name(s) {amb} are also attributes of other objects and the record "
                          f"does not stay local")
            del names[cname]
    usable = {f: i for f, i in usable.items() if any(f in v[2] for v in names.values())}
    if not names:
        return report

    class Erase(ast.NodeTransformer):
        def visit_Call(self, n):
            self.generic_visit(n)
            if isinstance(n.func, ast.Name) and n.func.id in names and not any(isinstance(a, ast.Starred) for a in n.args) \
                    and all(k.arg for k in n.keywords):
                _, _, fields, defaults = names[n.func.id]
                vals: Dict[str, ast.expr] = {}
                for f, a in zip(fields, n.args):
                    vals[f] = a
                for k in n.keywords:
                    vals[k.arg] = k.value
                for f in fields:
                    if f not in vals and f in defaults:
                        vals[f] = copy.deepcopy(defaults[f])
                if set(vals) == set(fields):
                    t = ast.Tuple(elts=[vals[f] for f in fields], ctx=ast.Load())
                    return ast.fix_missing_locations(ast.copy_location(t, n))
            return n

        def visit_Attribute(self, n):
            self.generic_visit(n)
            if isinstance(n.ctx, ast.Load) and (n.attr in usable or id(n) in typed_reads):
                idx_ = usable[n.attr] if n.attr in usable else typed_reads[id(n)]
                sub = ast.Subscript(value=n.value, slice=ast.Constant(value=idx_), ctx=ast.Load())
                return ast.fix_missing_locations(ast.copy_location(sub, n))
            return n

    for rel, tree in trees.items():
        # attribute loads that are the callee of a call (`fh.read()`) are never field reads
        for n in ast.walk(tree):
            if isinstance(n, ast.Call) and isinstance(n.func, ast.Attribute) and n.func.attr in usable:
                n.func._sa_keep = True
        er = Erase()
        orig_visit_attr = er.visit_Attribute

        def visit_attr(n, _o=orig_visit_attr, _er=er):
            if getattr(n, "_sa_keep", False):
                _er.generic_visit(n)
                return n
            return _o(n)
        er.visit_Attribute = visit_attr            # type: ignore[method-assign]
        er.visit(tree)
    for cname, (rel, cnode, fields, _) in sorted(names.items()):
        kept = [f for f in fields if f not in usable]
        report.append(f"erased NamedTuple {rel}::{cname}({', '.join(fields)}) into plain tuples"
                      + (f"; field(s) {kept} (names also used on other objects) rewritten only on receivers known to hold the record" if kept else ""))
    return report


def function_keys(rel: str, tree: ast.Module):
    """Yield (key, node, cls_name, outer_node) in the format of model.Fn.key."""
    def visit(body, cls, outer, outer_qual):
        for st in body:
            if isinstance(st, _DEFS):
                q = st.name
                if outer is not None:
                    q = f"{outer_qual}.<locals>.{q}"
                elif cls is not None:
                    q = f"{cls}.{q}"
                yield f"{rel}::{q}", st, (cls if outer is None else None), outer
                yield from visit(st.body, None, st, q)
            elif isinstance(st, ast.ClassDef) and outer is None:
                yield from visit(st.body, st.name, None, None)
            elif isinstance(st, (ast.If, ast.Try, ast.With, ast.For, ast.While)) and outer is not None:
                for field in ("body", "orelse", "finalbody"):
                    yield from visit(getattr(st, field, []) or [], None, outer, outer_qual)
                for h in getattr(st, "handlers", []) or []:
                    yield from visit(h.body, None, outer, outer_qual)
    yield from visit(tree.body, None, None, None)


class Helper:
    def __init__(self, key, rel, node, cls, outer):
        self.key, self.rel, self.node, self.cls, self.outer = key, rel, node, cls, outer
        self.name = node.name
        decos = [ast.unparse(d) for d in node.decorator_list]
        self.static = "staticmethod" in decos
        self.classm = "classmethod" in decos
        self.bad_deco = [d for d in decos if d not in ("staticmethod", "classmethod")]


def _walk_no_defs(node):
    todo = list(ast.iter_child_nodes(node))
    while todo:
        n = todo.pop()
        yield n
        if isinstance(n, _DEFS + (ast.Lambda, ast.ClassDef)):
            continue
        todo.extend(ast.iter_child_nodes(n))


def _is_generator(fnode) -> bool:
    return any(isinstance(n, (ast.Yield, ast.YieldFrom, ast.Await)) for n in _walk_no_defs(fnode))


def _stored_names(fnode) -> Set[str]:
    out = set()
    for n in _walk_no_defs(fnode):
        if isinstance(n, ast.Name) and isinstance(n.ctx, (ast.Store, ast.Del)):
            out.add(n.id)
        elif isinstance(n, ast.ExceptHandler) and n.name:
            out.add(n.name)
        elif isinstance(n, _DEFS):
            out.add(n.name)
    # comprehension variables are local to the comprehension: remove those only stored there
    comp_only = set()
    for n in _walk_no_defs(fnode):
        if isinstance(n, (ast.ListComp, ast.SetComp, ast.DictComp, ast.GeneratorExp)):
            for g in n.generators:
                for t in ast.walk(g.target):
                    if isinstance(t, ast.Name):
                        comp_only.add(t.id)
    plain = set()
    comp_nodes = set()
    for n in _walk_no_defs(fnode):
        if isinstance(n, (ast.ListComp, ast.SetComp, ast.DictComp, ast.GeneratorExp)):
            for g in n.generators:
                for t in ast.walk(g.target):
                    comp_nodes.add(id(t))
    for n in _walk_no_defs(fnode):
        if isinstance(n, ast.Name) and isinstance(n.ctx, ast.Store) and id(n) not in comp_nodes:
            plain.add(n.id)
    return (out - comp_only) | plain


def _all_names(fnode) -> Set[str]:
    out = set()
    if hasattr(fnode, "args"):
        out = {a.arg for a in fnode.args.posonlyargs + fnode.args.args + fnode.args.kwonlyargs}
    for n in ast.walk(fnode):
        if isinstance(n, ast.Name):
            out.add(n.id)
    return out


class _Rename(ast.NodeTransformer):
    def __init__(self, mapping):
        self.m = mapping

    def visit_Name(self, n):
        if n.id in self.m:
            return ast.copy_location(ast.Name(id=self.m[n.id], ctx=n.ctx), n)
        return n

    def visit_ExceptHandler(self, n):
        self.generic_visit(n)
        if n.name in self.m:
            n.name = self.m[n.name]
        return n

    def visit_Nonlocal(self, n):
        return None

    def visit_Global(self, n):
        return n


class _Subst(ast.NodeTransformer):
    def __init__(self, mapping):
        self.m = mapping

    def visit_Name(self, n):
        if isinstance(n.ctx, ast.Load) and n.id in self.m:
            return copy.deepcopy(self.m[n.id])
        return n


def _simple_arg(e) -> bool:
    if isinstance(e, (ast.Name, ast.Constant)):
        return True
    if isinstance(e, ast.Attribute):
        return _simple_arg(e.value)
    if isinstance(e, (ast.Tuple, ast.List)):
        return all(_simple_arg(x) for x in e.elts)
    return False


class Unsupported(Exception):
    pass


def _bind(h: Helper, call: ast.Call, skip_first: bool) -> List[Tuple[str, ast.expr]]:
    a = h.node.args
    if a.vararg:
        raise Unsupported("*args in the helper")
    if any(isinstance(x, ast.Starred) for x in call.args) or any(k.arg is None for k in call.keywords):
        raise Unsupported("* / ** in the call")
    pos = list(a.posonlyargs) + list(a.args)
    defaults = [None] * (len(pos) - len(a.defaults)) + list(a.defaults)
    out: List[Tuple[str, ast.expr]] = []
    params = pos
    dflt = dict(zip([p.arg for p in pos], defaults))
    for p, d in zip(a.kwonlyargs, a.kw_defaults):
        dflt[p.arg] = d
    if skip_first:
        if not params:
            raise Unsupported("method without a receiver parameter")
        recv = call.func.value if isinstance(call.func, ast.Attribute) else None
        out.append((params[0].arg, recv))
        params = params[1:]
    if len(call.args) > len(params):
        raise Unsupported("too many positional arguments")
    given = {}
    for p, v in zip(params, call.args):
        given[p.arg] = v
    for k in call.keywords:
        if k.arg in given:
            raise Unsupported("argument given twice")
        given[k.arg] = k.value
    for p in params + list(a.kwonlyargs):
        if p.arg in given:
            out.append((p.arg, given.pop(p.arg)))
        elif dflt.get(p.arg) is not None:
            out.append((p.arg, dflt[p.arg]))
        else:
            raise Unsupported(f"no value for parameter {p.arg}")
    if given and not a.kwarg:
        raise Unsupported(f"unknown keyword {sorted(given)}")
    if a.kwarg:
        out.append(("**" + a.kwarg.arg, [ast.keyword(arg=k, value=v) for k, v in given.items()]))
    return out


def _body_wo_doc(fnode):
    body = list(fnode.body)
    if body and isinstance(body[0], ast.Expr) and isinstance(body[0].value, ast.Constant) and isinstance(body[0].value.value, str):
        body = body[1:]
    return body


def _returns(stmts) -> List[ast.Return]:
    out = []
    for st in stmts:
        for n in [st] + list(_walk_no_defs(st)):
            if isinstance(n, ast.Return):
                out.append(n)
    return out


def _return_in_loop(stmts) -> bool:
    def rec(stmts, in_loop):
        for st in stmts:
            if isinstance(st, ast.Return) and in_loop:
                return True
            if isinstance(st, _DEFS + (ast.ClassDef,)):
                continue
            loop = in_loop or isinstance(st, (ast.For, ast.While, ast.AsyncFor))
            for field in ("body", "orelse", "finalbody"):
                if rec(getattr(st, field, []) or [], loop if field == "body" else in_loop):
                    return True
            for hd in getattr(st, "handlers", []) or []:
                if rec(hd.body, in_loop):
                    return True
        return False
    return rec(stmts, False)


def _always_returns(stmts) -> bool:
    if not stmts:
        return False
    last = stmts[-1]
    if isinstance(last, (ast.Return, ast.Raise)):
        return True
    if isinstance(last, ast.If):
        return bool(last.orelse) and _always_returns(last.body) and _always_returns(last.orelse)
    if isinstance(last, ast.While) and isinstance(last.test, ast.Constant) and last.test.value is True \
            and not any(isinstance(n, ast.Break) for n in _walk_no_defs(last)):
        return True
    return False


_COUNTER = [0]


def _fresh(prefix: str) -> str:
    _COUNTER[0] += 1
    return f"{prefix}_{_COUNTER[0]}"


def _mk_assign(target_nodes, value, at):
    if not target_nodes:
        st = ast.Expr(value=value)
    else:
        st = ast.Assign(targets=[copy.deepcopy(t) for t in target_nodes], value=value, type_comment=None)
    return ast.fix_missing_locations(ast.copy_location(st, at))


def _replace_returns(stmts, targets, done_flag, at, in_loop=False):
    """return v  ->  <targets> = v ; [flag = True ;] break      (inside the do-once wrapper)."""
    out = []
    for st in stmts:
        if isinstance(st, ast.Return):
            v = st.value if st.value is not None else ast.Constant(value=None)
            if targets or not isinstance(v, (ast.Constant, ast.Name)):
                out.append(_mk_assign(targets, v, st))
            if done_flag:
                out.append(_mk_assign([ast.Name(id=done_flag, ctx=ast.Store())], ast.Constant(value=True), st))
            b = ast.copy_location(ast.Break(), st)
            b._sa_inline_exit = True
            out.append(b)
            continue
        if isinstance(st, _DEFS + (ast.ClassDef,)):
            out.append(st)
            continue
        is_loop = isinstance(st, (ast.For, ast.While, ast.AsyncFor))
        for field in ("body", "orelse", "finalbody"):
            if getattr(st, field, None):
                setattr(st, field, _replace_returns(getattr(st, field), targets, done_flag, at,
                                                    in_loop or (is_loop and field == "body")))
        for hd in getattr(st, "handlers", []) or []:
            hd.body = _replace_returns(hd.body, targets, done_flag, at, in_loop)
        out.append(st)
        if is_loop and done_flag and _returns_were_here(st):
            chk = ast.If(test=ast.Name(id=done_flag, ctx=ast.Load()), body=[ast.Break()], orelse=[])
            chk.body[0]._sa_inline_exit = True
            out.append(ast.fix_missing_locations(ast.copy_location(chk, st)))
    return out


def _returns_were_here(loop) -> bool:
    return any(isinstance(n, ast.Break) and getattr(n, "_sa_inline_exit", False) for n in _walk_no_defs(loop))


def _spread_kwargs(fn, binding):
    """`**kwargs` of the helper, used only as `f(..., **kwargs)`: replaced by the keywords of the call site."""
    rest = [b for b in binding if not b[0].startswith("**")]
    for name, kws in [b for b in binding if b[0].startswith("**")]:
        name = name[2:]
        for n in ast.walk(fn):
            if isinstance(n, ast.Call):
                new = []
                for k in n.keywords:
                    if k.arg is None and isinstance(k.value, ast.Name) and k.value.id == name:
                        new.extend(copy.deepcopy(kws))
                    else:
                        new.append(k)
                n.keywords = new
        if any(isinstance(n, ast.Name) and n.id == name for n in ast.walk(fn)):
            raise Unsupported("**kwargs used other than as a pass-through")
    return rest


def expand(h: Helper, call: ast.Call, targets, caller_names: Set[str], tail: bool, flow_back: Set[str]):
    """Statements replacing a call of *h*.  targets: list of target nodes receiving the result ([] = discarded);
    tail: the call is `return h(...)` (returns stay returns)."""
    binding = _bind(h, call, skip_first=(h.cls is not None and not h.static))
    fn = copy.deepcopy(h.node)
    binding = _spread_kwargs(fn, binding)
    body = _body_wo_doc(fn)
    stored = _stored_names(fn)
    params = [p for p, _ in binding]
    nonlocals = {n for st in _walk_no_defs(fn) if isinstance(st, ast.Nonlocal) for n in st.names}
    mapping: Dict[str, str] = {}
    pre: List[ast.stmt] = []
    tag = h.name.strip("_") or "h"
    for p, v in binding:
        same = isinstance(v, ast.Name) and v.id == p
        if same and (p not in stored or p in flow_back):
            continue                                   # the caller's variable *is* the parameter
        if v is None:
            continue
        new = p
        if p in caller_names:
            new = f"{p}__{tag}"
            while new in caller_names:
                new += "_"
            mapping[p] = new
        pre.append(_mk_assign([ast.Name(id=new, ctx=ast.Store())], copy.deepcopy(v), call))
    for n in sorted(stored - set(params) - nonlocals):
        if n in caller_names:
            new = f"{n}__{tag}"
            while new in caller_names:
                new += "_"
            mapping[n] = new
    if mapping or nonlocals:
        body = [x for x in (_Rename(mapping).visit(st) for st in body) if x is not None]
    if tail:
        out = pre + body
        if not _always_returns(body):
            out.append(ast.fix_missing_locations(ast.copy_location(ast.Return(value=ast.Constant(value=None)), call)))
        return out
    rets = _returns(body)
    final_only = (not rets) or (len(rets) == 1 and body and rets[0] is body[-1])
    if final_only:
        out = pre + body[:-1] if rets else pre + body
        if rets:
            v = rets[0].value if rets[0].value is not None else ast.Constant(value=None)
            if targets or not isinstance(v, (ast.Constant, ast.Name)):
                out.append(_mk_assign(targets, v, rets[0]))
        elif targets:
            out.append(_mk_assign(targets, ast.Constant(value=None), call))
        return out
    flag = None
    if _return_in_loop(body):
        flag = _fresh("__inl_done")
        pre.append(_mk_assign([ast.Name(id=flag, ctx=ast.Store())], ast.Constant(value=False), call))
    falls = not _always_returns(body)
    new_body = _replace_returns(body, targets, flag, call)
    if falls:
        if targets:
            new_body.append(_mk_assign(targets, ast.Constant(value=None), call))
        b = ast.copy_location(ast.Break(), call)
        b._sa_inline_exit = True
        new_body.append(b)
    w = ast.While(test=ast.Constant(value=True), body=new_body, orelse=[])
    w._sa_inline = h.key
    return pre + [ast.fix_missing_locations(ast.copy_location(w, call))]


# ----------------------------------------------------------------------------------------------- call sites
_HOIST_OK = (ast.Call, ast.Attribute, ast.Subscript, ast.BinOp, ast.UnaryOp, ast.Compare, ast.Tuple, ast.List,
             ast.Starred, ast.keyword, ast.NamedExpr, ast.JoinedStr, ast.FormattedValue, ast.Slice, ast.Dict, ast.Set)


def _path_allows_hoist(stmt, call, parents) -> bool:
    n = call
    while True:
        p = parents.get(id(n))
        if p is None or p is stmt:
            return True
        if isinstance(p, ast.BoolOp):
            if p.values[0] is not n:
                return False
        elif isinstance(p, ast.IfExp):
            if p.test is not n:
                return False
        elif not isinstance(p, _HOIST_OK):
            return False
        n = p


def _pure_expr_helper(h: Helper) -> Optional[ast.expr]:
    body = _body_wo_doc(h.node)
    if len(body) == 1 and isinstance(body[0], ast.Return) and body[0].value is not None:
        if not any(isinstance(n, (ast.NamedExpr, ast.Lambda, ast.ListComp, ast.SetComp, ast.DictComp, ast.GeneratorExp))
                   for n in ast.walk(body[0].value)):
            return body[0].value
    return None


class _Site:
    def __init__(self, holder_body, index, stmt, call):
        self.holder_body, self.index, self.stmt, self.call = holder_body, index, stmt, call


def _bodies(fnode):
    """All statement lists of a function (not entering nested defs)."""
    todo = [fnode.body]
    while todo:
        b = todo.pop()
        yield b
        for st in b:
            if isinstance(st, _DEFS + (ast.ClassDef,)):
                continue
            for field in ("body", "orelse", "finalbody"):
                x = getattr(st, field, None)
                if x:
                    todo.append(x)
            for hd in getattr(st, "handlers", []) or []:
                todo.append(hd.body)


def _stmt_exprs(st):
    """Expression roots evaluated by the statement itself (not by its nested blocks)."""
    if isinstance(st, (ast.If, ast.While)):
        return [st.test]
    if isinstance(st, (ast.For, ast.AsyncFor)):
        return [st.iter]
    if isinstance(st, (ast.With, ast.AsyncWith)):
        return [i.context_expr for i in st.items]
    if isinstance(st, ast.Try) or isinstance(st, _DEFS + (ast.ClassDef,)):
        return []
    return [st]


_UNIQUE_METHOD_NAMES: Set[str] = set()       # names defined exactly once in the whole package (set by normalise)


def _receiver_ok(e) -> bool:
    """Receiver expressions that can be bound to `self` without evaluating anything twice."""
    return isinstance(e, ast.Name) or (isinstance(e, ast.Attribute) and _receiver_ok(e.value))


def _is_call_of(h: Helper, call: ast.Call, ctx_cls: Optional[str], ctx_rel: str, imports, in_outer) -> bool:
    f = call.func
    if h.outer is not None:
        return in_outer and isinstance(f, ast.Name) and f.id == h.name
    if h.cls is not None:
        if not (isinstance(f, ast.Attribute) and f.attr == h.name):
            return False
        if isinstance(f.value, ast.Name) and ((f.value.id in ("self", "cls") and ctx_cls == h.cls) or f.value.id == h.cls):
            return True
        # `<receiver>.name(...)` on any receiver, when no other function of the package has this name
        return h.name in _UNIQUE_METHOD_NAMES and not h.static and _receiver_ok(f.value) \
            and not (isinstance(f.value, ast.Name) and f.value.id in ("self", "cls"))
    if isinstance(f, ast.Name) and f.id == h.name:
        if ctx_rel == h.rel:
            return True
        imp = imports.get(ctx_rel, {}).get(h.name)
        return imp is not None and imp == h.rel
    return False


def _plain_local_annotations(trees: Dict[str, ast.Module]) -> int:
    """`x: T = v` inside a function is the assignment `x = v` (the annotation has no run-time effect on a local); a bare
    `x: T` is nothing.  Class bodies (dataclass fields) and module level are left alone."""
    n = 0

    class T(ast.NodeTransformer):
        depth = 0

        def visit_FunctionDef(self, node):
            self.depth += 1
            self.generic_visit(node)
            self.depth -= 1
            if not node.body:
                node.body = [ast.copy_location(ast.Pass(), node)]
            return node
        visit_AsyncFunctionDef = visit_FunctionDef

        def visit_ClassDef(self, node):
            saved, self.depth = self.depth, 0
            self.generic_visit(node)
            self.depth = saved
            return node

        def visit_AnnAssign(self, node):
            nonlocal n
            if self.depth and isinstance(node.target, ast.Name):
                n += 1
                if node.value is None:
                    return ast.copy_location(ast.Pass(), node)
                new = ast.Assign(targets=[node.target], value=node.value)
                return ast.fix_missing_locations(ast.copy_location(new, node))
            return node

    for tree in trees.values():
        T().visit(tree)
    return n


def normalise(trees: Dict[str, ast.Module], inventory: Optional[Set[str]] = None) -> List[str]:
    """Inline unknown functions in place.  Returns report lines."""
    inv = load_inventory() if inventory is None else inventory
    report: List[str] = []
    n_ann = _plain_local_annotations(trees)
    if n_ann:
        report.append(f"{n_ann} annotated local assignment(s) `x: T = v` read as `x = v`")
    dotted = {}
    for rel in trees:
        d = rel[:-3].replace("/", ".")
        if d.endswith(".__init__"):
            d = d[:-len(".__init__")]
        dotted["norminette" + ("." + d if d != "__init__" else "")] = rel
    imports: Dict[str, Dict[str, str]] = {}
    for rel, tree in trees.items():
        m = {}
        for st in tree.body:
            if isinstance(st, ast.ImportFrom) and st.module and st.level == 0:
                for a in st.names:
                    if (a.asname or a.name) == a.name and st.module in dotted:
                        m[a.name] = dotted[st.module]
        imports[rel] = m

    skip: Set[str] = set()
    for _round in range(16):
        helpers: List[Helper] = []
        for rel, tree in trees.items():
            for key, node, cls, outer in function_keys(rel, tree):
                if key in inv or key in skip or (node.name.startswith("__") and node.name.endswith("__")):
                    continue
                helpers.append(Helper(key, rel, node, cls, outer))
        if not helpers:
            break
        counts: Dict[str, int] = {}
        for rel, tree in trees.items():
            for key, node, cls, outer in function_keys(rel, tree):
                counts[node.name] = counts.get(node.name, 0) + 1
        _UNIQUE_METHOD_NAMES.clear()
        _UNIQUE_METHOD_NAMES.update(n for n, c in counts.items() if c == 1 and len(n) > 3)

        def callees(h: Helper):
            out = []
            for n in _walk_no_defs(h.node):
                if isinstance(n, ast.Call):
                    for o in helpers:
                        if _is_call_of(o, n, h.cls, h.rel, imports, in_outer=(o.outer is h.node or (o.outer is not None and o.outer is h.outer))):
                            out.append(o)
            return out

        progress = False
        for h in helpers:
            why = None
            if _is_contextmanager(h):
                n_cm, left_cm = _inline_contextmanager(h, trees, imports)
                if n_cm and not left_cm:
                    _remove_def(h, trees)
                    report.append(f"inlined context manager {h.key} into {n_cm} with-statement(s); definition dropped")
                    progress = True
                    continue
                why = f"context manager: {n_cm} with-statement(s) rewritten, {left_cm} reference(s) left"
            elif isinstance(h.node, ast.AsyncFunctionDef) or _is_generator(h.node):
                why = "generator / coroutine"
                if not isinstance(h.node, ast.AsyncFunctionDef) and not h.bad_deco and _simple_generator_shape(h.node) is not None:
                    n_g, left_g = _inline_generator(h, trees, imports)
                    if n_g and not left_g:
                        _remove_def(h, trees)
                        report.append(f"inlined generator {h.key} into {n_g} for-loop(s); definition dropped")
                        progress = True
                        continue
                    why = f"generator: {n_g} for-loop(s) rewritten, {left_g} reference(s) left"
            elif h.bad_deco:
                why = f"decorated ({', '.join(h.bad_deco)})"
            elif h.classm:
                why = "classmethod"
            else:
                cs = callees(h)
                if any(o is h for o in cs):
                    why = "recursive"
                elif cs:
                    continue                              # its own unknown callees first
            if why is None:
                n_in, n_left = _inline_everywhere(h, trees, imports)
                if _reflectively_reachable(h, trees):
                    # `getattr(self, f"check_{word}")` in its class can select it by name: the definition stays visible
                    report.append(f"kept unknown function {h.key}: selectable through a getattr dispatch of its class "
                                  f"({n_in} direct call site(s) inlined)")
                    skip.add(h.key)
                    progress = True
                    continue
                if n_left == 0 and n_in > 0:
                    _remove_def(h, trees)
                    report.append(f"inlined {h.key} into {n_in} call site(s); definition dropped")
                    progress = True
                    continue
                if n_in:
                    progress = True
                why = f"{n_in} call site(s) inlined, {n_left} reference(s) left" if (n_in or n_left) else "never referenced"
            report.append(f"kept unknown function {h.key}: {why}")
            skip.add(h.key)
            progress = True
        if not progress:
            for h in helpers:
                report.append(f"kept unknown function {h.key}: mutually recursive with another unknown function")
            break
    if inventory is None:
        # after the helpers are back in their callers, so that a record built by a helper is seen where it is used
        _KNOWN_FUNCS.clear()
        _KNOWN_FUNCS.update(inv)
        report += erase_namedtuples(trees, load_class_inventory())
    return report


def _getattr_prefixes(cls_node: ast.ClassDef) -> List[str]:
    """Constant prefixes of the attribute names a class selects on itself by `getattr(self, <template>)`."""
    out = []
    for n in ast.walk(cls_node):
        if isinstance(n, ast.Call) and isinstance(n.func, ast.Name) and n.func.id == "getattr" and len(n.args) >= 2 \
                and isinstance(n.args[0], ast.Name) and n.args[0].id in ("self", "cls"):
            t = n.args[1]
            if isinstance(t, ast.JoinedStr) and t.values and isinstance(t.values[0], ast.Constant):
                out.append(str(t.values[0].value))
            elif isinstance(t, ast.BinOp) and isinstance(t.op, ast.Add) and isinstance(t.left, ast.Constant) and isinstance(t.left.value, str):
                out.append(t.left.value)
            elif not isinstance(t, ast.Constant):
                out.append("")
    return out


def _reflectively_reachable(h: Helper, trees) -> bool:
    if h.cls is None:
        return False
    for n in ast.walk(trees[h.rel]):
        if isinstance(n, ast.ClassDef) and n.name == h.cls:
            return any(h.node.name.startswith(p) for p in _getattr_prefixes(n))
    return False


def _simple_generator_shape(fnode):
    """(pre statements, the loop, index of the yield in the loop body) for a generator of the form
         <simple statements>; for/while ...: <guards with continue>; yield E      (nothing after the loop, one yield, last in the body)
    else None."""
    body = _body_wo_doc(fnode)
    if not body or not isinstance(body[-1], (ast.For, ast.While)) or body[-1].orelse:
        return None
    loop = body[-1]
    pre = body[:-1]
    ys = [n for n in _walk_no_defs(fnode) if isinstance(n, (ast.Yield, ast.YieldFrom, ast.Await))]
    if len(ys) != 1 or not isinstance(ys[0], ast.Yield):
        return None
    last = loop.body[-1]
    if not (isinstance(last, ast.Expr) and last.value is ys[0]):
        return None
    if any(isinstance(n, (ast.Return, ast.Break)) for st in loop.body for n in ast.walk(st)) or any(
            isinstance(n, (ast.Return, ast.For, ast.While, ast.Try, ast.With)) for st in pre for n in ast.walk(st)):
        return None
    # a `continue` in a nested loop of the body is fine; at the loop's own level it skips the yield, as in the generator
    return pre, loop, len(loop.body) - 1


def _inline_generator(h: Helper, trees, imports) -> Tuple[int, int]:
    """`for T in h(args): BODY` with h a simple generator (see _simple_generator_shape) becomes h's own loop with `T = E; BODY` in
    place of `yield E`.  BODY's break / continue / else keep their meaning: the generator's loop is the only loop and the yield is
    its last statement."""
    shape = _simple_generator_shape(h.node)
    n_done = 0
    if shape is not None:
        for rel, tree in trees.items():
            if rel != h.rel and imports.get(rel, {}).get(h.name) != h.rel and h.cls is None:
                continue
            need = []
            if rel != h.rel:
                need = _cross_module_imports(h, rel, trees)
                if need is None:
                    continue
            changed = False
            for key, fnode, cls, outer in list(function_keys(rel, tree)):
                if fnode is h.node:
                    continue
                for body in _bodies(fnode):
                    for idx, st in enumerate(list(body)):
                        if not (isinstance(st, ast.For) and isinstance(st.iter, ast.Call)
                                and _is_call_of(h, st.iter, cls, rel, imports, False)):
                            continue
                        call = st.iter
                        try:
                            binding = _bind(h, call, skip_first=(h.cls is not None and not h.static))
                        except Unsupported:
                            continue
                        if any(b[0].startswith("**") for b in binding):
                            continue
                        fn = copy.deepcopy(h.node)
                        pre, loop, yi = _simple_generator_shape(fn)
                        caller_names = _all_names(fnode)
                        stored = _stored_names(fn)
                        mapping = {}
                        assigns = []
                        tag = h.name.strip("_") or "gen"
                        for p_, v in binding:
                            if v is None:
                                continue
                            same = isinstance(v, ast.Name) and v.id == p_
                            if same and p_ not in stored:
                                continue
                            new = p_
                            if p_ in caller_names:
                                new = f"{p_}__{tag}"
                                mapping[p_] = new
                            assigns.append(_mk_assign([ast.Name(id=new, ctx=ast.Store())], copy.deepcopy(v), call))
                        for n_ in sorted(stored - {b[0] for b in binding}):
                            if n_ in caller_names:
                                mapping[n_] = f"{n_}__{tag}"
                        ren = _Rename(mapping)
                        pre2 = [x for x in (ren.visit(s_) for s_ in pre) if x is not None]
                        loop2 = ren.visit(loop)
                        yv = loop2.body[yi].value.value or ast.Constant(value=None)
                        loop2.body = loop2.body[:yi] + [_mk_assign([st.target], yv, st)] + list(st.body)
                        loop2.orelse = list(st.orelse)
                        new_stmts = assigns + pre2 + [ast.fix_missing_locations(ast.copy_location(loop2, st))]
                        pos = body.index(st)
                        body[pos:pos + 1] = new_stmts
                        n_done += 1
                        changed = True
            if changed and need:
                tree.body[:0] = need
    return n_done, _references_left(h, trees, imports)


def _is_contextmanager(h: Helper) -> bool:
    return h.cls is None and h.outer is None and isinstance(h.node, ast.FunctionDef) \
        and any(d in ("contextlib.contextmanager", "contextmanager") for d in h.bad_deco) and len(h.bad_deco) == 1


def _cm_shape(fnode):
    """(pre, try_node or None, before, yield value, after, post) of a generator-based context manager with exactly one
    statement-level `yield`, either at the top level of the body or at the top level of one top-level try body."""
    body = _body_wo_doc(fnode)
    ys = [n for n in _walk_no_defs(fnode) if isinstance(n, (ast.Yield, ast.YieldFrom))]
    if len(ys) != 1 or not isinstance(ys[0], ast.Yield):
        return None

    def split(stmts):
        for i, st in enumerate(stmts):
            if isinstance(st, ast.Expr) and st.value is ys[0]:
                return stmts[:i], None, stmts[i + 1:]
            if isinstance(st, ast.Assign) and st.value is ys[0]:
                return None
        return None
    top = split(body)
    if top is not None:
        return body[:0] + top[0], None, [], ys[0].value, [], top[2]
    for i, st in enumerate(body):
        if isinstance(st, ast.Try):
            inner = split(st.body)
            if inner is not None:
                return body[:i], st, inner[0], ys[0].value, inner[2], body[i + 1:]
    return None


def _inline_contextmanager(h: Helper, trees, imports) -> Tuple[int, int]:
    shape = _cm_shape(h.node)
    n_done = 0
    if shape is not None and not _returns(_body_wo_doc(h.node)):
        for rel, tree in trees.items():
            if rel != h.rel and imports.get(rel, {}).get(h.name) != h.rel:
                continue
            if rel != h.rel:
                need = _cross_module_imports(h, rel, trees)
                if need is None:
                    continue
            else:
                need = []
            changed = False
            for key, fnode, cls, outer in list(function_keys(rel, tree)):
                if fnode is h.node:
                    continue
                for body in _bodies(fnode):
                    for idx, st in enumerate(list(body)):
                        if isinstance(st, ast.With) and len(st.items) == 1 and isinstance(st.items[0].context_expr, ast.Call) \
                                and isinstance(st.items[0].context_expr.func, ast.Name) and st.items[0].context_expr.func.id == h.name:
                            call = st.items[0].context_expr
                            try:
                                binding = _bind(h, call, skip_first=False)
                            except Unsupported:
                                continue
                            if any(b[0].startswith("**") for b in binding):
                                continue
                            fn = copy.deepcopy(h.node)
                            sh = _cm_shape(fn)
                            pre, trynode, before, yval, after, post = sh
                            caller_names = _all_names(fnode)
                            stored = _stored_names(fn)
                            mapping = {}
                            assigns = []
                            tag = h.name.strip("_") or "cm"
                            for p_, v in binding:
                                same = isinstance(v, ast.Name) and v.id == p_
                                if same and p_ not in stored:
                                    continue
                                new = p_
                                if p_ in caller_names:
                                    new = f"{p_}__{tag}"
                                    mapping[p_] = new
                                assigns.append(_mk_assign([ast.Name(id=new, ctx=ast.Store())], copy.deepcopy(v), call))
                            for n_ in sorted(stored - {b[0] for b in binding}):
                                if n_ in caller_names:
                                    mapping[n_] = f"{n_}__{tag}"
                            ren = _Rename(mapping)
                            fix = lambda stmts: [x for x in (ren.visit(s_) for s_ in stmts) if x is not None]   # noqa: E731
                            bind_as = []
                            if st.items[0].optional_vars is not None:
                                val = ren.visit(yval) if yval is not None else ast.Constant(value=None)
                                bind_as = [_mk_assign([st.items[0].optional_vars], val, st)]
                            core = fix(before) + bind_as + list(st.body) + fix(after)
                            if trynode is not None:
                                t2 = ast.Try(body=core, handlers=[ren.visit(hd) for hd in trynode.handlers],
                                             orelse=fix(trynode.orelse), finalbody=fix(trynode.finalbody))
                                new_stmts = assigns + fix(pre) + [ast.fix_missing_locations(ast.copy_location(t2, st))] + fix(post)
                            else:
                                new_stmts = assigns + fix(pre) + core + fix(post)
                            body[idx:idx + 1] = new_stmts
                            n_done += 1
                            changed = True
                            break
            if changed and need:
                tree.body[:0] = need
    return n_done, _references_left(h, trees, imports)


def _remove_def(h: Helper, trees):
    tree = trees[h.rel]
    for node in ast.walk(tree):
        for field in ("body", "orelse", "finalbody"):
            b = getattr(node, field, None)
            if isinstance(b, list) and h.node in b:
                b.remove(h.node)
                if not b and field == "body":
                    b.append(ast.copy_location(ast.Pass(), h.node))
                return


def _toplevel_bindings(tree) -> Dict[str, ast.stmt]:
    out = {}
    for st in tree.body:
        if isinstance(st, (ast.Import, ast.ImportFrom)):
            for a in st.names:
                out[(a.asname or a.name).split(".")[0]] = st
        elif isinstance(st, _DEFS + (ast.ClassDef,)):
            out[st.name] = st
        elif isinstance(st, ast.Assign):
            for t in st.targets:
                for n in ast.walk(t):
                    if isinstance(n, ast.Name):
                        out[n.id] = st
        elif isinstance(st, (ast.AnnAssign, ast.AugAssign)) and isinstance(st.target, ast.Name):
            out[st.target.id] = st
    return out


def _cross_module_imports(h: Helper, caller_rel: str, trees) -> Optional[List[ast.stmt]]:
    """Import statements the caller module needs so that the free names of the helper keep their meaning there;
    None when a name means something else in the caller module (the call is then left alone)."""
    src = _toplevel_bindings(trees[h.rel])
    dst = _toplevel_bindings(trees[caller_rel])
    local = _stored_names(h.node) | {a.arg for a in h.node.args.posonlyargs + h.node.args.args + h.node.args.kwonlyargs}
    d = h.rel[:-3].replace("/", ".")
    if d.endswith(".__init__"):
        d = d[:-len(".__init__")]
    src_dotted = "norminette" + ("." + d if d != "__init__" else "")
    need: List[ast.stmt] = []
    for n in _walk_no_defs(h.node):
        if isinstance(n, ast.Name) and isinstance(n.ctx, ast.Load) and n.id not in local and n.id in src:
            b = src[n.id]
            if isinstance(b, ast.ImportFrom):
                want = ast.ImportFrom(module=b.module, names=[a for a in b.names if (a.asname or a.name) == n.id], level=b.level)
            elif isinstance(b, ast.Import):
                want = ast.Import(names=[a for a in b.names if (a.asname or a.name).split(".")[0] == n.id])
            else:
                want = ast.ImportFrom(module=src_dotted, names=[ast.alias(name=n.id, asname=None)], level=0)
            if n.id in dst:
                have = dst[n.id]
                if ast.dump(have) == ast.dump(want) or (isinstance(have, ast.ImportFrom) and isinstance(want, ast.ImportFrom)
                                                        and have.module == want.module and have.level == want.level):
                    continue
                return None
            if not any(ast.dump(x) == ast.dump(want) for x in need):
                need.append(ast.fix_missing_locations(want))
    return need


def _inline_everywhere(h: Helper, trees, imports) -> Tuple[int, int]:
    n_in = 0
    pure = _pure_expr_helper(h)
    for rel, tree in trees.items():
        if h.outer is not None:
            if rel != h.rel:
                continue
        elif h.cls is not None:
            if rel != h.rel and h.name not in _UNIQUE_METHOD_NAMES:
                continue
        elif rel != h.rel and imports.get(rel, {}).get(h.name) != h.rel:
            continue
        if rel != h.rel:
            need = _cross_module_imports(h, rel, trees)
            if need is None:
                continue
            before = n_in
            n_in += _inline_module(h, rel, tree, imports, pure)
            if n_in > before:
                tree.body[:0] = need
            continue
        n_in += _inline_module(h, rel, tree, imports, pure)
    return n_in, _references_left(h, trees, imports)


def _inline_module(h: Helper, rel, tree, imports, pure) -> int:
    n_in = 0
    if True:
        for key, fnode, cls, outer in list(function_keys(rel, tree)):
            if fnode is h.node:
                continue
            if h.outer is not None and not (fnode is h.outer or _contains_node(h.outer, fnode)):
                continue
            in_outer = h.outer is not None
            n_in += _inline_in_function(h, fnode, cls, rel, imports, in_outer, pure)
        if h.outer is None and pure is not None:
            # module-level and class-level statements (constant tables built with a small helper)
            n_in += _inline_in_function(h, tree, None, rel, imports, False, pure, toplevel=True)
            for st in tree.body:
                if isinstance(st, ast.ClassDef):
                    n_in += _inline_in_function(h, st, st.name, rel, imports, False, pure, toplevel=True)
    return n_in


def _references_left(h: Helper, trees, imports) -> int:
    n_left = 0
    for rel, tree in trees.items():
        for n in ast.walk(tree):
            if n is h.node:
                continue
            if isinstance(n, ast.Attribute) and n.attr == h.name and h.cls is not None:
                n_left += 1
            elif isinstance(n, ast.Name) and n.id == h.name and h.cls is None and isinstance(n.ctx, ast.Load) \
                    and (rel == h.rel or imports.get(rel, {}).get(h.name) == h.rel) and not _inside(h.node, n, tree):
                n_left += 1
            elif isinstance(n, ast.Constant) and isinstance(n.value, str) and n.value == h.name and h.cls is not None:
                n_left += 1                              # getattr(self, "name") style
    return n_left


def _contains_node(outer, node) -> bool:
    return any(n is node for n in ast.walk(outer))


def _inside(container, node, tree) -> bool:
    return any(n is node for n in ast.walk(container))


def _inline_in_function(h: Helper, fnode, cls, rel, imports, in_outer, pure, toplevel=False) -> int:
    count = 0
    for _ in range(200):
        site = _find_site(h, fnode, cls, rel, imports, in_outer, toplevel)
        if site is None:
            break
        kind, body, idx, st, call, parents = site
        caller_names = _all_names(fnode)
        try:
            if kind == "expr-stmt":
                new = expand(h, call, [], caller_names, tail=False, flow_back=set())
                body[idx:idx + 1] = new or [ast.copy_location(ast.Pass(), st)]
            elif kind == "assign":
                tg = st.targets if isinstance(st, ast.Assign) else [st.target]
                fb = {t.id for t0 in tg for t in ast.walk(t0) if isinstance(t, ast.Name)}
                new = expand(h, call, tg, caller_names, tail=False, flow_back=fb)
                body[idx:idx + 1] = new
            elif kind == "return":
                new = expand(h, call, [], caller_names, tail=True, flow_back=set())
                body[idx:idx + 1] = new
            elif kind == "subst":
                binding = _bind(h, call, skip_first=(h.cls is not None and not h.static))
                if any(b[0].startswith("**") for b in binding):
                    hn = copy.deepcopy(h.node)
                    binding = _spread_kwargs(hn, binding)
                    pure = _pure_expr_helper(Helper(h.key, h.rel, hn, h.cls, h.outer))
                m = {}
                for p, v in binding:
                    if v is None:
                        continue
                    uses = sum(1 for n in ast.walk(pure) if isinstance(n, ast.Name) and n.id == p)
                    if not _simple_arg(v) and uses > 1:
                        raise Unsupported("argument with possible side effects used more than once")
                    m[p] = v
                repl = _Subst(m).visit(copy.deepcopy(pure))
                ast.copy_location(repl, call)
                ast.fix_missing_locations(repl)
                _replace_node(st, call, repl)
            elif kind == "hoist":
                tmp = _fresh("__inl_ret")
                tnode = ast.Name(id=tmp, ctx=ast.Store())
                new = expand(h, call, [tnode], caller_names | {tmp}, tail=False, flow_back=set())
                _replace_node(st, call, ast.copy_location(ast.Name(id=tmp, ctx=ast.Load()), call))
                if isinstance(st, ast.While):
                    neg = ast.UnaryOp(op=ast.Not(), operand=st.test)
                    brk = ast.If(test=neg, body=[ast.Break()], orelse=[])
                    st.body[:0] = new + [ast.fix_missing_locations(ast.copy_location(brk, st))]
                    st.test = ast.copy_location(ast.Constant(value=True), st.test)
                else:
                    body[idx:idx] = new
        except Unsupported:
            call._sa_no_inline = True                   # type: ignore[attr-defined]
            continue
        count += 1
    return count


def _replace_node(root, old, new):
    for n in ast.walk(root):
        for field, val in ast.iter_fields(n):
            if val is old:
                setattr(n, field, new)
                return
            if isinstance(val, list):
                for i, x in enumerate(val):
                    if x is old:
                        val[i] = new
                        return


def _find_site(h, fnode, cls, rel, imports, in_outer, toplevel=False):
    pure = _pure_expr_helper(h)
    for body in ([fnode.body] if toplevel else _bodies(fnode)):
        for idx, st in enumerate(body):
            for root in _stmt_exprs(st):
                parents = {}
                for n in ast.walk(root):
                    for ch in ast.iter_child_nodes(n):
                        parents[id(ch)] = n
                for n in ast.walk(root):
                    if isinstance(n, _DEFS + (ast.Lambda,)) and n is not root:
                        continue
                    if isinstance(n, ast.Call) and not getattr(n, "_sa_no_inline", False) \
                            and _is_call_of(h, n, cls, rel, imports, in_outer):
                        if toplevel or _in_lambda_or_comp(n, parents):
                            if pure is not None:
                                return "subst", body, idx, st, n, parents
                            n._sa_no_inline = True
                            continue
                        if isinstance(st, ast.Expr) and st.value is n:
                            return "expr-stmt", body, idx, st, n, parents
                        if isinstance(st, ast.Assign) and st.value is n:
                            return "assign", body, idx, st, n, parents
                        if isinstance(st, ast.AnnAssign) and st.value is n:
                            return "assign", body, idx, st, n, parents
                        if isinstance(st, ast.Return) and st.value is n:
                            return "return", body, idx, st, n, parents
                        if pure is not None:
                            return "subst", body, idx, st, n, parents
                        hoistable = isinstance(st, (ast.Expr, ast.Assign, ast.AnnAssign, ast.AugAssign, ast.Return, ast.If,
                                                    ast.Assert, ast.Raise)) or \
                            (isinstance(st, ast.While) and not st.orelse) or isinstance(st, (ast.For, ast.With))
                        if hoistable and _path_allows_hoist(root if root is not st else st, n, parents):
                            return "hoist", body, idx, st, n, parents
                        if _split_boolop_assign(body, idx, st):
                            return _find_site(h, fnode, cls, rel, imports, in_outer, toplevel)
                        n._sa_no_inline = True
    return None


def _split_boolop_assign(body, idx, st) -> bool:
    """`x = a or b or c`  ->  `x = a; if not x: x = b; if not x: x = c`  (and: `if x:`), so that a call in a later
    operand sits in a statement of its own."""
    if not (isinstance(st, ast.Assign) and len(st.targets) == 1 and isinstance(st.targets[0], ast.Name)
            and isinstance(st.value, ast.BoolOp)):
        return False
    name = st.targets[0].id
    if any(isinstance(n, ast.Name) and n.id == name for v in st.value.values for n in ast.walk(v)):
        return False
    is_or = isinstance(st.value.op, ast.Or)
    vals = st.value.values
    new = [ast.copy_location(ast.Assign(targets=[ast.Name(id=name, ctx=ast.Store())], value=vals[0], type_comment=None), st)]
    holder = new
    for v in vals[1:]:
        test = ast.Name(id=name, ctx=ast.Load())
        if is_or:
            test = ast.UnaryOp(op=ast.Not(), operand=test)
        nxt = ast.If(test=test, body=[ast.Assign(targets=[ast.Name(id=name, ctx=ast.Store())], value=v, type_comment=None)],
                     orelse=[])
        holder.append(ast.copy_location(nxt, st))
        holder = nxt.body
    for x in new:
        ast.fix_missing_locations(x)
    body[idx:idx + 1] = new
    return True


def _in_lambda_or_comp(n, parents) -> bool:
    p = parents.get(id(n))
    while p is not None:
        if isinstance(p, (ast.Lambda, ast.ListComp, ast.SetComp, ast.DictComp, ast.GeneratorExp)):
            return True
        p = parents.get(id(p))
    return False
