"""A stub world in which the analyser's interpreter (xeval) runs ``norminette.__main__`` as a whole.

Nothing of norminette is imported or executed: ``main()`` and everything it reaches inside errors.py / file.py /
context.py (constructor only) / exceptions.py / colors.py is *interpreted* from the ASTs of the analysed tree.  The
outside world is replaced by small deterministic stand-ins supplied here:

* a virtual file system (``VFS``: nested dict of directories and file contents) behind ``glob``, ``pathlib``,
  ``os.path`` / ``os.walk`` / ``os.listdir`` and ``open``;
* ``argparse`` (declarations are recorded; the namespace is computed from them and from the scenario's command line,
  following argparse's rules for dest / default / action / nargs / choices / type);
* ``sys.exit`` & co (a ``SystemExit`` of the interpreted program), ``print`` / ``sys.stdout`` (captured);
* ``subprocess.run(["git", "check-ignore", ...])`` answered from the VFS's set of ignored paths;
* the analysis pipeline itself: ``Lexer`` and ``Registry`` are stubs.  The stub registry files the diagnostics that the
  *content* of the file asks for (markers ``@E`` error, ``@N`` notice, ``@L`` fatal while lexing, ``@F`` fatal while
  parsing) through the repository's own ``Errors.add``; every pipeline call is recorded in a trace.

The rules of C04 / C15 / C16 (and parts of C08) state their properties on the *outcome* of such runs (stdout, exit
status, trace) for finite families of scenarios, instead of on the shape of main's source.
"""
from __future__ import annotations

import ast
import collections
import fnmatch
import functools
import itertools
import json
import operator
import posixpath
import re
import subprocess as _subprocess
from pathlib import PurePosixPath
from typing import Any, Dict, List, Optional, Tuple

from .minieval import ClassRef, Obj, Unsupported
from .model import AnalysisError
from .xeval import Closure, Env, Module, Opaque, Raised, XEvaluator, _Gen

INTERPRETED = ("File", "Errors", "Error", "Highlight", "_formatter", "Context")


# --------------------------------------------------------------------------------------------------- file system
class VFS:
    def __init__(self, tree: Dict[str, Any], cwd: str = "/w", ignored=()):
        self.cwd = cwd
        self.files: Dict[str, str] = {}
        self.dirs = {"/", cwd}
        self.links: Dict[str, str] = {}                # absolute path of a symbolic link -> absolute path of its target
        self._add(cwd, tree)
        for l_, t_ in list(self.links.items()):        # a link to a file is a file with the target's content
            self.files[l_] = self.files.get(t_, "")
        # "!path" in *ignored*: the path matches a negated pattern of .gitignore (re-included: not ignored, but `git check-ignore
        # -v` reports the match and exits 0 all the same)
        self.ignored = {self.abs(p) for p in ignored if not str(p).startswith("!")}
        self.reincluded = {self.abs(str(p)[1:]) for p in ignored if str(p).startswith("!")}

    def realpath(self, p) -> str:
        a = self.abs(p)
        for _ in range(8):
            if a in self.links:
                a = self.links[a]
            else:
                break
        return a

    def _add(self, base, tree):
        for name, v in tree.items():
            p = posixpath.join(base, name)
            if isinstance(v, dict):
                self.dirs.add(p)
                self._add(p, v)
            elif isinstance(v, tuple) and len(v) == 2 and v[0] == "->":
                self.links[p] = posixpath.normpath(posixpath.join(base, v[1]))       # ("->", "target relative to the link")
            else:
                self.files[p] = v
        d = base
        while d not in ("/", ""):
            self.dirs.add(d)
            d = posixpath.dirname(d)

    def abs(self, p) -> str:
        return posixpath.normpath(posixpath.join(self.cwd, str(p)))

    def exists(self, p) -> bool:
        a = self.abs(p)
        return a in self.files or a in self.dirs

    def isfile(self, p) -> bool:
        return self.abs(p) in self.files and not (str(p).endswith("/"))

    def isdir(self, p) -> bool:
        return self.abs(p) in self.dirs

    def listdir(self, p) -> List[str]:
        a = self.abs(p)
        if a not in self.dirs:
            raise (NotADirectoryError if a in self.files else FileNotFoundError)(str(p))
        pre = a.rstrip("/") + "/"
        names = {x[len(pre):].split("/")[0] for x in list(self.files) + list(self.dirs) if x.startswith(pre) and x != a}
        return sorted(n for n in names if n)

    def is_ignored(self, p) -> bool:
        a = self.abs(p)
        return any(a == i or a.startswith(i.rstrip("/") + "/") for i in self.ignored)

    def read(self, p) -> str:
        a = self.abs(p)
        if a in self.dirs:
            raise IsADirectoryError(str(p))
        if a not in self.files:
            raise FileNotFoundError(str(p))
        return self.files[a]

    def walk(self, top, topdown=True):
        top = str(top)
        if not self.isdir(top):
            return
        names = self.listdir(top)
        dirs = [n for n in names if self.isdir(posixpath.join(top, n))]
        files = [n for n in names if not self.isdir(posixpath.join(top, n))]
        if topdown:
            yield top, dirs, files
        for d in list(dirs):
            yield from self.walk(posixpath.join(top, d), topdown)
        if not topdown:
            yield top, dirs, files

    # -- glob.glob -------------------------------------------------------------------------------------
    _MAGIC = re.compile("([*?[])")

    def glob(self, pattern, recursive=False, root_dir=None, include_hidden=False) -> List[str]:
        pattern = str(pattern)
        root = str(root_dir) if root_dir is not None else ""

        def full(p):
            return posixpath.join(root, p) if root else (p or ".")

        def hidden(n):
            return n.startswith(".") and not include_hidden

        def rlist(d):
            out = []
            try:
                names = self.listdir(full(d))
            except OSError:
                return out
            for n in names:
                if hidden(n):
                    continue
                p = posixpath.join(d, n) if d else n
                out.append(p)
                if self.isdir(full(p)):
                    out.extend(rlist(p))
            return out

        if pattern.startswith("/"):
            cur = ["/"]
            comps = pattern[1:].split("/")
        else:
            cur = [""]
            comps = pattern.split("/")
        for i, comp in enumerate(comps):
            last = i == len(comps) - 1
            nxt = []
            for d in cur:
                if comp == "":
                    if last and self.isdir(full(d)):
                        nxt.append(d.rstrip("/") + "/" if d else d)
                    continue
                if comp == "**" and recursive:
                    if not d or self.isdir(full(d)):
                        nxt.append(d)
                        for p in rlist(d):
                            if last or self.isdir(full(p)):
                                nxt.append(p)
                    continue
                if self._MAGIC.search(comp):
                    try:
                        names = self.listdir(full(d))
                    except OSError:
                        continue
                    for n in names:
                        if hidden(n) and not comp.startswith("."):
                            continue
                        if fnmatch.fnmatchcase(n, comp):
                            nxt.append(posixpath.join(d, n) if d else n)
                else:
                    p = posixpath.join(d, comp) if d else comp
                    if (last and self.exists(full(p))) or (not last and self.isdir(full(p))):
                        nxt.append(p)
            cur = nxt
        seen = []
        for p in cur:
            if p == "" or p in seen:
                if p == "" and comps[-1] == "**":
                    continue
                continue
            seen.append(p)
        return seen


def make_path_class(vfs: VFS, opener=None):
    class P(PurePosixPath):
        def exists(self):
            return vfs.exists(str(self))

        def is_file(self):
            return vfs.abs(str(self)) in vfs.files

        def is_dir(self):
            return vfs.isdir(str(self))

        def is_symlink(self):
            return vfs.abs(str(self)) in vfs.links

        def is_absolute_(self):
            return str(self).startswith("/")

        def glob(self, pattern, **kw):
            return [type(self)(posixpath.join(str(self), p)) if str(self) != "." else type(self)(p)
                    for p in vfs.glob(pattern, recursive=True, root_dir=str(self), include_hidden=True)]      # pathlib matches dot entries

        def rglob(self, pattern, **kw):
            return self.glob("**/" + pattern)

        def iterdir(self):
            return [self / n for n in vfs.listdir(str(self))]

        def walk(self, top_down=True):
            return [(type(self)(d), ds, fs) for d, ds, fs in vfs.walk(str(self), top_down)]

        def resolve(self, strict=False):
            return type(self)(vfs.realpath(str(self)))

        def absolute(self):
            return type(self)(posixpath.join(vfs.cwd, str(self)))

        def expanduser(self):
            return self

        def read_text(self, encoding=None, errors=None):
            if opener is None:
                return vfs.read(str(self))
            return opener(str(self), "r", encoding=encoding, errors=errors).__dict__["_native"]["read"]()

        def read_bytes(self):
            return vfs.read(str(self)).encode("utf-8")

        def open(self, mode="r", buffering=-1, encoding=None, errors=None, newline=None):
            if opener is None:
                raise Unsupported("Path.open")
            return opener(str(self), mode, encoding=encoding, errors=errors, newline=newline)

        @classmethod
        def cwd(cls):
            return cls(vfs.cwd)

    P.__name__ = "Path"
    return P


# --------------------------------------------------------------------------------------------------- argparse
class ArgDecl:
    def __init__(self, flags, kw):
        self.flags = [f for f in flags]
        self.kw = kw
        self.positional = bool(flags) and not flags[0].startswith("-")
        self.action = kw.get("action", "store")
        self.nargs = kw.get("nargs")
        self.const = kw.get("const")
        self.type = kw.get("type")
        self.choices = kw.get("choices")
        if "dest" in kw:
            self.dest = kw["dest"]
        elif self.positional:
            self.dest = flags[0]
        else:
            longs = [f for f in flags if f.startswith("--")]
            self.dest = (longs[0] if longs else flags[0]).lstrip("-").replace("-", "_")
        if "default" in kw:
            self.default = kw["default"]
        elif self.action == "store_true":
            self.default = False
        elif self.action == "store_false":
            self.default = True
        elif self.positional and self.nargs == "*":
            self.default = []
        else:
            self.default = None


class ArgparseWorld:
    """Records the declarations of one parser and computes the namespace for the scenario's command line."""

    def __init__(self, ev: XEvaluator, cli: List[Tuple[str, List[str]]]):
        self.ev = ev
        self.cli = cli
        self.decls: List[ArgDecl] = []
        self.defaults: Dict[str, Any] = {}

    def module(self) -> Module:
        return Module("argparse", {
            "ArgumentParser": lambda *a, **k: self.parser(),
            "Namespace": lambda **k: Obj("Namespace", **k),
            "SUPPRESS": "==SUPPRESS==", "ArgumentDefaultsHelpFormatter": Opaque("argparse.formatter"),
            "RawTextHelpFormatter": Opaque("argparse.formatter"), "RawDescriptionHelpFormatter": Opaque("argparse.formatter"),
            "HelpFormatter": Opaque("argparse.formatter"), "ArgumentTypeError": ValueError, "ArgumentError": ValueError,
            "REMAINDER": "...", "OPTIONAL": "?", "ZERO_OR_MORE": "*", "ONE_OR_MORE": "+",
            "BooleanOptionalAction": "==BooleanOptionalAction==",
        })

    def parser(self) -> Obj:
        p = Obj("ArgumentParser")
        p.__dict__["_native"] = {
            "add_argument": lambda *flags, **kw: self._add(flags, kw),
            "add_argument_group": lambda *a, **k: p,
            "add_mutually_exclusive_group": lambda *a, **k: p,
            "set_defaults": lambda **kw: self.defaults.update(kw),
            "parse_args": lambda *a, **k: self.parse(),
            "parse_known_args": lambda *a, **k: (self.parse(), []),
            "error": lambda msg="": self._error(msg),
            "print_help": lambda *a, **k: None,
            "print_usage": lambda *a, **k: None,
            "exit": lambda status=0, message=None: self._exit(status),
        }
        return p

    def _add(self, flags, kw):
        d = ArgDecl([f for f in flags], kw)
        self.decls.append(d)
        return Obj("Action", dest=d.dest)

    def _exit(self, status):
        raise Raised(SystemExit(status))

    def _error(self, msg):
        self.ev.stderr.append(f"usage: ...\nerror: {msg}\n")
        raise Raised(SystemExit(2))

    def find(self, flag) -> Optional[ArgDecl]:
        for d in self.decls:
            if flag in d.flags:
                return d
        if flag == "<positional>":
            pos = [d for d in self.decls if d.positional]
            return pos[0] if pos else None
        return None

    def _convert(self, d: ArgDecl, raw):
        v = raw
        if d.type is not None:
            try:
                v = self.ev.call_value(d.type, [raw], {})
            except Raised as r:
                if isinstance(r.value, (ValueError, TypeError)):
                    self._error(f"argument {'/'.join(d.flags)}: invalid value: {raw!r}")
                raise
        if d.choices is not None:
            ch = list(self.ev.iterate(d.choices))
            if not self.ev.contains(ch, v):
                self._error(f"argument {'/'.join(d.flags)}: invalid choice: {raw!r}")
        return v

    def parse(self) -> Obj:
        vals: Dict[str, Any] = {}
        for d in self.decls:
            if d.action in ("help", "version"):
                continue
            if d.default != "==SUPPRESS==":
                vals[d.dest] = d.default if not isinstance(d.default, list) else list(d.default)
                if isinstance(d.default, str) and d.type is not None and d.action in ("store", "append"):
                    vals[d.dest] = self.ev.call_value(d.type, [d.default], {})
        for k, v in self.defaults.items():
            vals[k] = v
        for flag, raws in self.cli:
            d = self.find(flag)
            if d is None:
                self._error(f"unrecognized arguments: {flag}")
            a = d.action
            if a == "store_true":
                vals[d.dest] = True
            elif a == "store_false":
                vals[d.dest] = False
            elif a == "store_const":
                vals[d.dest] = d.const
            elif a == "==BooleanOptionalAction==":
                vals[d.dest] = not flag.startswith("--no-")
            elif a == "count":
                vals[d.dest] = (vals.get(d.dest) or 0) + 1
            elif a == "version":
                self.ev.stdout.append(self.ev.py_str(d.kw.get("version", "")) + "\n")
                raise Raised(SystemExit(0))
            elif a == "help":
                raise Raised(SystemExit(0))
            elif a in ("store", "append", "extend"):
                n = d.nargs
                conv = [self._convert(d, r) for r in raws]
                if n is None:
                    if len(conv) != 1:
                        self._error(f"argument {flag}: expected one argument")
                    item = conv[0]
                elif n == "?":
                    item = conv[0] if conv else d.const
                elif isinstance(n, int):
                    if len(conv) != n:
                        self._error(f"argument {flag}: expected {n} argument(s)")
                    item = conv
                elif n == "+":
                    if not conv:
                        self._error(f"argument {flag}: expected at least one argument")
                    item = conv
                else:
                    item = conv
                if a == "store":
                    vals[d.dest] = item
                elif a == "append":
                    vals[d.dest] = list(vals.get(d.dest) or []) + [item]
                else:
                    vals[d.dest] = list(vals.get(d.dest) or []) + (list(item) if isinstance(item, list) else [item])
            else:
                raise Unsupported(f"argparse action {a!r}")
        for d in self.decls:
            if d.kw.get("required") and not any(self.find(f) is d for f, _ in self.cli):
                self._error(f"the following arguments are required: {'/'.join(d.flags)}")
            if d.positional and d.nargs in (None, "+") and not any(self.find(f) is d for f, _ in self.cli):
                self._error(f"the following arguments are required: {d.dest}")
        return Obj("Namespace", **vals)


# --------------------------------------------------------------------------------------------------- the run
def flatten_object(ev, obj, skip=("file", "tokens", "errors")) -> Dict[str, str]:
    """Plain attributes of an interpreted object and of the objects it holds (one level): dotted name -> repr."""
    out: Dict[str, str] = {}
    for k, v in obj.__dict__.items():
        if k.startswith("_") or k in skip:
            continue
        if isinstance(v, Obj):
            for k2, v2 in v.__dict__.items():
                if not k2.startswith("_") and not isinstance(v2, Obj):
                    out[f"{k}.{k2}"] = ev.py_repr(v2)
            out[k] = f"<{v._cls}>"
        else:
            out[k] = ev.py_repr(v)
    return out


def plan_of(src: str) -> Tuple[List[str], Optional[str]]:
    """Diagnostics asked for by the content of a file, in order of appearance; fatal kind."""
    levels = []
    for m in re.finditer(r"@([EN])", src or ""):
        levels.append("Error" if m.group(1) == "E" else "Notice")
    fatal = "lex" if "@L" in (src or "") else "parse" if "@F" in (src or "") else "giveup" if "@M" in (src or "") else None
    return levels, fatal


class Outcome:
    def __init__(self):
        self.exit_code: Any = None          # value given to sys.exit / returned; None = fell off the end
        self.exited = False
        self.crash: Optional[str] = None     # uncaught exception of the interpreted program
        self.crash_value = None
        self.unsupported: Optional[str] = None
        self.stdout = ""
        self.stderr = ""
        self.trace: List[tuple] = []
        self.decls: List[ArgDecl] = []

    @property
    def status(self) -> Optional[int]:
        """Process exit status as the shell sees it."""
        if self.crash is not None:
            return 1
        c = self.exit_code
        if c is None:
            return 0
        if isinstance(c, bool):
            return int(c)
        if isinstance(c, int):
            return c & 0xFF
        return 1

    def events(self, kind):
        return [t for t in self.trace if t[0] == kind]


class World:
    def __init__(self, prog, vfs: Optional[VFS] = None, cli: Optional[List[Tuple[str, List[str]]]] = None, add_forms=("inst", "name")):
        self.prog = prog
        self.vfs = vfs or VFS({})
        self.cli = cli or []
        self.add_forms = add_forms
        self.main_mod = prog.mod("__main__.py")
        self.ev = XEvaluator(prog, interpreted_classes=[c for c in self.all_interpreted()], main_mod=self.main_mod)
        self.argparse = ArgparseWorld(self.ev, self.cli)
        self.P = make_path_class(self.vfs, self._open)
        self._n_diag = 0
        self._install()

    def all_interpreted(self):
        out = set(INTERPRETED)
        for c in self.prog.subclasses("_formatter"):
            out.add(c.name)
        return out

    # -- stand-ins ---------------------------------------------------------------------------------------
    def _install(self):
        ev, vfs = self.ev, self.vfs

        def sys_exit(code=None):
            raise Raised(SystemExit(code))

        ospath = Module("os.path", {
            "exists": vfs.exists, "isfile": lambda p: vfs.abs(p) in vfs.files, "isdir": vfs.isdir, "lexists": vfs.exists,
            "islink": lambda p: vfs.abs(p) in vfs.links,
            "abspath": lambda p: vfs.abs(p), "realpath": lambda p, **k: vfs.realpath(p),
            "basename": posixpath.basename, "dirname": posixpath.dirname, "splitext": posixpath.splitext, "split": posixpath.split,
            "join": posixpath.join, "normpath": posixpath.normpath, "relpath": lambda p, start=None: posixpath.relpath(vfs.abs(p), vfs.abs(start or ".")),
            "expanduser": lambda p: p, "expandvars": lambda p: p, "isabs": posixpath.isabs, "sep": "/", "commonpath": posixpath.commonpath,
            "getsize": lambda p: len(vfs.read(p)),
        }, lenient=False)

        def scandir(p="."):
            out = []
            for n in vfs.listdir(p):
                full = posixpath.join(str(p), n) if str(p) != "." else n
                e = Obj("DirEntry", name=n, path=full)
                e.__dict__["_native"] = {"is_file": (lambda full=full, **k: vfs.abs(full) in vfs.files),
                                         "is_dir": (lambda full=full, **k: vfs.isdir(full)), "is_symlink": lambda: False}
                out.append(e)
            return out

        os_mod = Module("os", {
            "path": ospath, "getcwd": lambda: vfs.cwd, "listdir": lambda p=".": vfs.listdir(p), "walk": lambda top, topdown=True, **k: list(vfs.walk(top, topdown)),
            "scandir": scandir, "sep": "/", "linesep": "\n", "environ": {}, "getenv": lambda k, d=None: d, "_exit": sys_exit,
            "fspath": lambda p: str(p), "curdir": ".", "pardir": "..", "name": "posix", "devnull": "/dev/null",
            "EX_OK": 0,
        }, lenient=False)
        sys_mod = Module("sys", {
            "exit": sys_exit, "argv": ["norminette"], "stdout": ev.stdout_file, "stderr": ev.stderr_file, "platform": "linux",
            "version_info": (3, 12, 1, "final", 0), "version": "3.12.1", "setrecursionlimit": lambda n: None,
            "getrecursionlimit": lambda: 1000, "maxsize": 2 ** 63 - 1, "executable": "/usr/bin/python3",
        }, lenient=False)
        glob_mod = Module("glob", {
            "glob": lambda pattern, **kw: vfs.glob(pattern, kw.get("recursive", False), kw.get("root_dir"), kw.get("include_hidden", False)),
            "iglob": lambda pattern, **kw: iter(vfs.glob(pattern, kw.get("recursive", False), kw.get("root_dir"), kw.get("include_hidden", False))),
            "escape": lambda p: re.sub(r"([*?[])", r"[\1]", p), "has_magic": lambda s: bool(VFS._MAGIC.search(s)),
        }, lenient=False)
        pathlib_mod = Module("pathlib", {"Path": self.P, "PurePath": self.P, "PosixPath": self.P, "PurePosixPath": self.P}, lenient=False)
        subprocess_mod = Module("subprocess", {
            "run": self._sp_run, "call": lambda cmd, **kw: self._sp_run(cmd, **kw).returncode,
            "check_call": lambda cmd, **kw: self._sp_run(cmd, check=True, **kw).returncode,
            "check_output": lambda cmd, **kw: self._sp_run(cmd, check=True, stdout=-1, **kw).stdout,
            "PIPE": -1, "DEVNULL": -3, "STDOUT": -2, "CalledProcessError": _subprocess.CalledProcessError,
            "SubprocessError": _subprocess.SubprocessError, "TimeoutExpired": _subprocess.TimeoutExpired,
            "CompletedProcess": lambda args, returncode, stdout=None, stderr=None: Obj("CompletedProcess", args=args, returncode=returncode, stdout=stdout, stderr=stderr),
        }, lenient=False)
        json_mod = Module("json", {"dumps": self._json_dumps, "loads": json.loads, "JSONDecodeError": json.JSONDecodeError,
                                   "dump": self._json_dump}, lenient=False)
        io_mod = Module("io", {"StringIO": __import__("io").StringIO}, lenient=False)
        textwrap_mod = Module("textwrap", {n: getattr(__import__("textwrap"), n) for n in ("dedent", "indent", "fill", "wrap", "shorten")})
        string_mod = Module("string", {n: getattr(__import__("string"), n) for n in ("ascii_letters", "ascii_lowercase", "ascii_uppercase", "digits", "whitespace", "punctuation")})
        dataclasses_mod = Module("dataclasses", {"asdict": self._asdict, "astuple": lambda o: tuple(self._asdict(o).values()),
                                                 "dataclass": Opaque("dataclass"), "field": Opaque("field"),
                                                 "fields": lambda o: [Obj("Field", name=n) for n, _ in ev._dataclass_fields(o._cls if isinstance(o, Obj) else o.name)],
                                                 "replace": Opaque("replace")})
        platform_mod = Module("platform", {"python_version": lambda: "3.12.1", "platform": lambda *a, **k: "Linux-stub", "system": lambda: "Linux"})
        metadata_mod = Module("importlib.metadata", {"version": lambda name: "0.0.0", "PackageNotFoundError": LookupError})
        importlib_mod = Module("importlib", {"metadata": metadata_mod})
        collections_mod = Module("collections", {"deque": collections.deque, "OrderedDict": collections.OrderedDict, "defaultdict": self._defaultdict,
                                                 "Counter": collections.Counter, "namedtuple": collections.namedtuple, "ChainMap": collections.ChainMap})
        itertools_mod = Module("itertools", {n: self._lazy_native(getattr(itertools, n)) for n in
                                             ("chain", "product", "repeat", "islice", "count", "zip_longest", "starmap", "takewhile", "dropwhile",
                                              "filterfalse", "groupby", "accumulate", "permutations", "combinations", "tee", "compress", "cycle")})
        itertools_mod.attrs["chain"] = _Chain(ev)
        functools_mod = Module("functools", {"partial": lambda f, *a, **k: functools.partial(ev.wrap_native(f), *a, **k),
                                             "reduce": lambda f, seq, *init: functools.reduce(ev.wrap_native(f), list(ev.iterate(seq)), *init),
                                             "lru_cache": Opaque("lru_cache"), "wraps": Opaque("wraps"), "cache": Opaque("cache")})
        operator_mod = Module("operator", {"attrgetter": lambda *names: (lambda o: ev.getattr(o, names[0]) if len(names) == 1 else tuple(ev.getattr(o, n) for n in names)),
                                           "itemgetter": operator.itemgetter, "methodcaller": lambda n, *a, **k: (lambda o: ev.call_method(o, n, list(a), k)),
                                           "eq": lambda a, b: ev.py_eq(a, b), "ne": lambda a, b: not ev.py_eq(a, b), "not_": lambda a: not ev.truth(a),
                                           "add": operator.add, "contains": lambda a, b: ev.contains(a, b)})
        fnmatch_mod = Module("fnmatch", {"fnmatch": fnmatch.fnmatchcase, "fnmatchcase": fnmatch.fnmatchcase, "filter": fnmatch.filter, "translate": fnmatch.translate})
        re_mod = Module("re", {n: getattr(re, n) for n in ("compile", "match", "search", "fullmatch", "sub", "split", "findall", "escape", "I", "IGNORECASE", "M", "S", "X")})
        shlex_mod = Module("shlex", {"quote": __import__("shlex").quote, "split": __import__("shlex").split, "join": __import__("shlex").join})
        typing_mod = Module("typing", {"cast": lambda t, v: v, "TYPE_CHECKING": False})
        contextlib_mod = Module("contextlib", {})
        ev.world_modules.update({
            "os": os_mod, "os.path": ospath, "sys": sys_mod, "glob": glob_mod, "pathlib": pathlib_mod, "subprocess": subprocess_mod,
            "json": json_mod, "dataclasses": dataclasses_mod, "platform": platform_mod, "importlib": importlib_mod,
            "importlib.metadata": metadata_mod, "collections": collections_mod, "itertools": itertools_mod, "functools": functools_mod,
            "operator": operator_mod, "fnmatch": fnmatch_mod, "re": re_mod, "argparse": self.argparse.module(), "typing": typing_mod,
            "contextlib": contextlib_mod, "shlex": shlex_mod, "posixpath": ospath, "io": io_mod, "textwrap": textwrap_mod, "string": string_mod,
            "bisect": Module("bisect", {"insort": self._insort, "insort_right": self._insort, "insort_left": lambda s, x, **k: self._insort(s, x, left=True)}, lenient=False),
        })
        # the pipeline
        ev.origins[("*", "Lexer")] = self._lexer
        ev.origins[("*", "Registry")] = self._registry
        ev.ctor_hooks["Context"] = self._context
        ev.ctor_hooks["File"] = self._file
        ev.origins[("builtins", "open")] = self._open

    def _lazy_native(self, f):
        ev = self.ev
        return lambda *a, **k: _Gen(list(f(*[ev.wrap_native(list(ev.iterate(x)) if isinstance(x, (Obj, _Gen)) else x) for x in a],
                                           **{kk: ev.wrap_native(v) for kk, v in k.items()})))

    def _defaultdict(self, factory=None, *a, **k):
        return collections.defaultdict(self.ev.wrap_native(factory) if factory is not None else None, *a, **k)

    def _insort(self, seq, item, lo=0, hi=None, key=None, left=False):
        ev = self.ev
        lo, hi = 0, len(seq)
        while lo < hi:
            mid = (lo + hi) // 2
            a, b = (seq[mid], item) if left else (item, seq[mid])
            less = ev.obj_lt(a, b) if isinstance(a, Obj) else a < b
            if left:
                if less:
                    lo = mid + 1
                else:
                    hi = mid
            else:
                if less:
                    hi = mid
                else:
                    lo = mid + 1
        seq.insert(lo, item)

    def _asdict(self, o):
        ev = self.ev
        if isinstance(o, Obj) and ev.is_dataclass(o._cls):
            return {n: self._asdict(o.__dict__.get(n)) for n, _ in ev._dataclass_fields(o._cls)}
        if isinstance(o, list):
            return [self._asdict(x) for x in o]
        if isinstance(o, tuple):
            return tuple(self._asdict(x) for x in o)
        if isinstance(o, dict):
            return {k: self._asdict(v) for k, v in o.items()}
        if isinstance(o, Obj):
            raise Raised(TypeError("asdict() should be called on dataclass instances"))
        return o

    def _json_dumps(self, obj, **kw):
        def chk(x):
            if isinstance(x, (Obj, ClassRef, Opaque, Closure)):
                raise Raised(TypeError(f"Object of type {getattr(x, '_cls', type(x).__name__)} is not JSON serializable"))
            if isinstance(x, dict):
                for k, v in x.items():
                    chk(k)
                    chk(v)
            elif isinstance(x, (list, tuple)):
                for v in x:
                    chk(v)
        d = kw.pop("default", None)
        if d is None:
            chk(obj)
            return json.dumps(obj, **kw)
        return json.dumps(obj, default=self.ev.wrap_native(d), **kw)

    def _json_dump(self, obj, fp, **kw):
        txt = self._json_dumps(obj, **kw)
        if isinstance(fp, Obj) and fp.__dict__.get("_stream"):
            (self.ev.stdout if fp._stream == "stdout" else self.ev.stderr).append(txt)
        elif hasattr(fp, "write") and not isinstance(fp, Obj):
            fp.write(txt)
        else:
            raise Unsupported("json.dump to an unmodelled file")

    def _open(self, path, mode="r", buffering=-1, encoding=None, errors=None, newline=None, **k):
        """Files of the virtual tree hold text; on "disk" they are its UTF-8 bytes.  Reading decodes them the way the
        real open() would: requested codec and error handler (the default codec is taken to be UTF-8), universal
        newlines unless newline= says otherwise."""
        if any(c in mode for c in "wax+"):
            raise Unsupported("open() for writing")
        # (a lone surrogate in the virtual text stands for a byte that is not UTF-8, the way os.fsdecode / surrogateescape
        # spell it: on "disk" it is that byte, and a strict reader fails on it as the real one does)
        data = self.vfs.read(str(path)).encode("utf-8", "surrogateescape")
        if "b" in mode:
            text = data
        else:
            try:
                text = data.decode(encoding or "utf-8", errors or "strict")
            except (LookupError, UnicodeDecodeError) as e:
                raise Raised(e)
            if newline is None:
                text = text.replace("\r\n", "\n").replace("\r", "\n")
        f = Obj("TextIOWrapper", name=str(path))
        nl = b"\n" if isinstance(text, bytes) else "\n"
        it = iter(text.splitlines(True))
        f.__dict__["_native"] = {"read": lambda *a: text, "readlines": lambda: text.splitlines(True), "close": lambda: None,
                                 "__enter__": lambda: f, "__exit__": lambda *a: None, "readline": lambda: next(it, nl[:0])}
        f.__dict__["_native_iter"] = lambda: text.splitlines(True)
        return f

    # -- git -----------------------------------------------------------------------------------------------
    def _sp_run(self, cmd, **kw):
        ev = self.ev
        if isinstance(cmd, str):
            if kw.get("shell"):
                cmd = __import__("shlex").split(cmd)
            else:
                raise Raised(FileNotFoundError(cmd))
        cmd = [str(c) for c in ev.iterate(cmd)]
        self.ev.trace.append(("subprocess", list(cmd), dict(kw)))
        if len(cmd) < 2 or posixpath.basename(cmd[0]) != "git":
            raise Unsupported(f"subprocess {cmd[:2]}")
        rest = cmd[1:]
        while rest and rest[0] in ("-C", "-c"):
            rest = rest[2:]
        if not rest or rest[0] != "check-ignore":
            raise Unsupported(f"git {rest[:1]}")
        flags = [a for a in rest[1:] if a.startswith("-") and a != "--"]
        paths = [a for a in rest[1:] if not a.startswith("-")]
        z = "-z" in flags
        if "--stdin" in flags:
            inp = kw.get("input") or ""
            if isinstance(inp, bytes):
                inp = inp.decode()
            paths += [p for p in (inp.split("\0") if z else inp.split("\n")) if p]
        unknown = [f for f in flags if f not in ("-q", "--quiet", "-z", "--stdin", "--no-index", "-v", "--verbose")]
        if unknown:
            raise Unsupported(f"git check-ignore {unknown}")
        quiet = "-q" in flags or "--quiet" in flags
        verbose = "-v" in flags or "--verbose" in flags
        if not paths:
            rc, out = 128, ""
        elif quiet and (len(paths) > 1 or verbose):
            rc, out = 128, ""
        elif verbose:
            # git's documented behaviour: every path that matches a pattern is listed with that pattern -- a negated pattern
            # too -- and the exit status is 0 as soon as something is listed
            hit = [(p, "!" if self.vfs.abs(p) in self.vfs.reincluded else "") for p in paths
                   if self.vfs.is_ignored(p) or self.vfs.abs(p) in self.vfs.reincluded]
            rc = 0 if hit else 1
            out = "".join(f".gitignore:1:{neg}{posixpath.basename(p)}\t{p}" + ("\0" if z else "\n") for p, neg in hit)
        else:
            ign = [p for p in paths if self.vfs.is_ignored(p)]
            rc = 0 if ign else 1
            out = "" if quiet else "".join(p + ("\0" if z else "\n") for p in ign)
        err = "fatal: error\n" if rc == 128 else ""
        text = bool(kw.get("text") or kw.get("universal_newlines") or kw.get("encoding"))
        cap = kw.get("capture_output") or kw.get("stdout") == -1
        cap_err = kw.get("capture_output") or kw.get("stderr") == -1
        so = (out if text else out.encode()) if cap else None
        se = (err if text else err.encode()) if cap_err else None
        if kw.get("check") and rc != 0:
            raise Raised(_subprocess.CalledProcessError(rc, cmd, so, se))
        cp = Obj("CompletedProcess", args=cmd, returncode=rc, stdout=so, stderr=se)
        cp.__dict__["_native"] = {"check_returncode": lambda: None}
        return cp

    # -- pipeline --------------------------------------------------------------------------------------------
    def _file(self, ev, args, kwargs):
        f = ev.construct("File", args, kwargs)
        ev.trace.append(("File", f, list(args), dict(kwargs)))
        return f

    def _source_of(self, file) -> str:
        try:
            return self.ev.getattr(file, "source")
        except Raised as r:
            raise

    def _lexer(self, file, *a, **k):
        ev = self.ev
        ev.trace.append(("Lexer", file))
        lx = Obj("Lexer", file=file)

        def tokens():
            src = self._source_of(file)
            ev.trace.append(("lexed", file, src))
            levels, fatal = plan_of(src)
            if fatal == "lex":
                ev.trace.append(("fatal", file, "lex"))
                raise Raised(ev.construct("CParsingError", [f"Error: unterminated constant in {ev.getattr(file, 'path')}"]))
            if fatal == "giveup":
                # the tokenizer's own way of giving up (a constant of more than 100 characters, too many splices): the sibling
                # error class of the repository, whichever shape it has in this tree
                ev.trace.append(("fatal", file, "lex"))
                for cname in ("MaybeInfiniteLoop", "UnexpectedEOF"):
                    if cname in self.prog.classes:
                        raise Raised(ev.construct(cname, []))
            return [Obj("Token", type="STUB", _opaque=True)]

        lx.__dict__["_native_iter"] = tokens
        # one-at-a-time use of the lexer: tokens, then None
        state = {"left": None}

        def get_next_token():
            if state["left"] is None:
                state["left"] = tokens()
            return state["left"].pop(0) if state["left"] else None

        lx.__dict__["_native"] = {"get_tokens": tokens, "get_next_token": get_next_token}
        return lx

    def _context(self, ev, args, kwargs):
        ctx = ev.construct("Context", args, kwargs)
        ev.trace.append(("Context", ctx, list(args), dict(kwargs)))
        return ctx

    def _registry(self, *a, **k):
        ev = self.ev
        reg = Obj("Registry")

        def run(context, *a, **k):
            file = ev.getattr(context, "file")
            src = self._source_of(file)
            snap = {"debug": context.__dict__.get("debug"), "tokens": context.__dict__.get("tokens")}
            pp = context.__dict__.get("preproc")
            snap["skip_define"] = pp.__dict__.get("skip_define") if isinstance(pp, Obj) else None
            snap["attrs"] = flatten_object(ev, context)
            ev.trace.append(("run", file, context, snap))
            levels, fatal = plan_of(src)
            errors = ev.getattr(file, "errors")
            for i, lv in enumerate(levels):
                self._n_diag += 1
                form = self.add_forms[self._n_diag % len(self.add_forms)]
                self._add_diag(errors, form, lv, i)
            if fatal == "parse":
                ev.trace.append(("fatal", file, "parse"))
                raise Raised(ev.construct("CParsingError", [f"Error: Unrecognized line while parsing {ev.getattr(file, 'path')}"]))
            return None

        reg.__dict__["_native"] = {"run": run}
        return reg

    DIAG_NAMES = ("TOO_MANY_LINES", "SPC_INSTEAD_TAB", "INVALID_HEADER", "TOO_MANY_ARGS")

    def _add_diag(self, errors, form, level, i):
        ev = self.ev
        name = self.DIAG_NAMES[i % len(self.DIAG_NAMES)]
        # later diagnostics get *smaller* positions: the report must come out sorted
        hl = ev.instantiate("Highlight", [10 - (i % 5), 1 + (i * 3) % 7], {})
        if form == "inst":
            err = ev.call_value(ev.getattr(ClassRef("Error"), "from_name"), [name], {"level": level, "highlights": [hl]})
            ev.call_method(errors, "add", [err], {})
        else:
            ev.call_method(errors, "add", [name], {"level": level, "highlights": [hl]})

    # -- running -----------------------------------------------------------------------------------------------
    def run(self) -> Outcome:
        ev = self.ev
        out = Outcome()
        mod = self.main_mod
        entry = None
        for st in mod.tree.body:
            if isinstance(st, ast.If) and "__name__" in ast.unparse(st.test) and "__main__" in ast.unparse(st.test):
                entry = st
        try:
            try:
                ev.fn_stack.append(None)
                if entry is not None:
                    ev.block(entry.body, Env())
                else:
                    main = mod.functions.get("main")
                    if main is None:
                        raise AnalysisError("anchor vanished: __main__.py::main")
                    r = ev.call_closure(Closure(main.node, None, mod), [], {})
                    out.exit_code = r
            finally:
                ev.fn_stack.pop()
        except Raised as r:
            v = r.value
            if isinstance(v, SystemExit):
                out.exited = True
                out.exit_code = v.code
                if isinstance(v.code, str):
                    ev.stderr.append(v.code + "\n")
            else:
                out.crash = ev.py_repr(v) if isinstance(v, Obj) else repr(v)
                out.crash_value = v
                if "<opaque" in out.crash:
                    out.unsupported = f"the run dies on a value the stub world does not model: {out.crash}"
        except Unsupported as e:
            out.unsupported = str(e)
        except RecursionError:
            out.unsupported = "recursion in the interpreter"
        out.stdout = "".join(ev.stdout)
        out.stderr = "".join(ev.stderr)
        out.trace = ev.trace
        out.decls = self.argparse.decls
        return out


class _Chain:
    def __init__(self, ev):
        self.ev = ev

    def __call__(self, *its):
        return _Gen([x for it in its for x in self.ev.iterate(it)])

    def from_iterable(self, its):
        return _Gen([x for it in self.ev.iterate(its) for x in self.ev.iterate(it)])


def run_main(prog, tree: Dict[str, Any], cli: List[Tuple[str, List[str]]], ignored=(), add_forms=("inst", "name")) -> Outcome:
    return World(prog, VFS(tree, ignored=ignored), cli, add_forms).run()


# --------------------------------------------------------------------------------------------------- reading reports
_ANSI = re.compile(r"\x1b\[[0-9;]*m")
_VERDICT = re.compile(r"^(?P<name>.*): (?P<status>OK|Error)!$")
_DIAG = re.compile(r"^(?P<level>Error|Notice): (?P<code>\S+)\s+\(line:\s*(?P<line>-?\d+), col:\s*(?P<col>-?\d+)\):\t(?P<text>.*)$")


def parse_human(text: str):
    """[(name, status, [(level, code, line, col, text)])] from the human-readable report; None if a line fits neither form."""
    files = []
    stray = []
    for ln in _ANSI.sub("", text).split("\n"):
        if ln == "":
            continue
        m = _DIAG.match(ln)
        if m and files:
            files[-1][2].append((m.group("level"), m.group("code"), int(m.group("line")), int(m.group("col")), m.group("text")))
            continue
        m = _VERDICT.match(ln)
        if m:
            files.append((m.group("name"), m.group("status"), []))
            continue
        stray.append(ln)
    return files, stray


def parse_json(text: str):
    """Same shape from the JSON report (name = path); raises ValueError when the text is not one JSON document."""
    docs = []
    dec = json.JSONDecoder()
    i = 0
    s = text
    stray = []
    while i < len(s):
        if s[i] in " \n\r\t":
            i += 1
            continue
        try:
            d, j = dec.raw_decode(s, i)
        except ValueError:
            j = s.find("\n", i)
            j = len(s) if j < 0 else j
            stray.append(s[i:j])
            i = j
            continue
        docs.append(d)
        i = j
    files = []
    for d in docs:
        if not isinstance(d, dict) or "files" not in d:
            stray.append(json.dumps(d))
            continue
        for f in d["files"]:
            diags = []
            for e in f.get("errors", []):
                h = (e.get("highlights") or [{}])[0]
                diags.append((e.get("level"), e.get("name"), h.get("lineno"), h.get("column"), e.get("text")))
            files.append((f.get("path"), f.get("status"), diags))
    return files, stray, len(docs)
