"""Call resolution and call graph, specific to this repository.

Receiver types come from (a) parameter-name conventions that hold throughout
the tree (``context`` is always a Context, ...; asserted by ``selfcheck``),
(b) ``x = ClassName(...)`` assignments, (c) an attribute-type table derived
from ``self.attr = ClassName(...)`` statements plus a few typed-by-parameter
attributes, (d) unique-name resolution as a last resort.  Dynamic dispatch
sites are resolved structurally (see ``_dynamic``).
"""
from __future__ import annotations

import ast
from typing import Dict, List, Optional, Set, Tuple

from .model import Fn, Program, walk_fn, parent

PARAM_TYPES = {
    "context": "Context", "ctx": "Context",
    "file": "File", "registry": "Registry", "lexer": "Lexer",
    "token": "Token", "tkn": "Token", "tok": "Token",
    "error": "Error", "highlight": "Highlight",
}

# (class, attribute) -> class of the value, for attributes bound from parameters
ATTR_TYPES_MANUAL = {
    ("Context", "file"): "File",
    ("Context", "errors"): "Errors",
    ("Context", "scope"): "Scope",
    ("Context", "sub"): "Scope",
    ("Context", "tmp_scope"): "Scope",
    ("Scope", "parent"): "Scope",
    ("Lexer", "file"): "File",
    ("Rule", "context"): "Context",
    ("Check", "context"): "Context",
    ("ConstantExpressionParser", "context"): "Context",
    ("File", "errors"): "Errors",
    ("IsPreprocessorStatement", "hash"): "Token",
    ("IsComment", "comment"): "Token",
}

BUILTIN_METHODS = {
    "append", "extend", "remove", "pop", "get", "items", "keys", "values", "sort", "index",
    "split", "strip", "startswith", "endswith", "upper", "lower", "isupper", "islower", "join",
    "format", "replace", "count", "setdefault", "insert", "copy", "update", "rstrip", "lstrip",
    "add_argument", "parse_args", "exists", "is_file", "is_dir", "run", "read", "write", "match",
    "search", "compile", "end", "group", "import_module", "dirname", "realpath", "listdir",
    "splitext", "basename", "abspath", "glob", "exit", "getrecursionlimit", "setrecursionlimit",
    "filterfalse", "floor", "dumps", "__subclasses__", "__new__", "__eq__", "__init__",
}


class Call:
    __slots__ = ("caller", "node", "targets", "how")

    def __init__(self, caller: Fn, node: ast.AST, targets: List[Fn], how: str):
        self.caller = caller
        self.node = node
        self.targets = targets
        self.how = how


class CallGraph:
    def __init__(self, prog: Program):
        self.prog = prog
        self.attr_types: Dict[Tuple[str, str], str] = dict(ATTR_TYPES_MANUAL)
        self._derive_attr_types()
        self.calls: List[Call] = []
        self.unresolved: List[Tuple[Fn, ast.Call]] = []
        self.out: Dict[str, Set[str]] = {}
        self.sites: Dict[str, List[Call]] = {}        # callee key -> call sites
        self.calls_of: Dict[str, List[Call]] = {}     # caller key -> calls
        self._methods_by_name: Dict[str, List[Fn]] = {}
        for fn in prog.fns:
            if fn.cls is not None:
                self._methods_by_name.setdefault(fn.name, []).append(fn)
        self._props: Dict[str, List[Fn]] = {}
        for fn in prog.fns:
            if fn.cls is not None and any(d == "property" for d in fn.decorators):
                self._props.setdefault(fn.name, []).append(fn)
        self._build()

    # --------------------------------------------------------------- typing
    def _derive_attr_types(self):
        for c in self.prog.classes.values():
            for m in c.methods.values():
                for n in walk_fn(m.node):
                    if isinstance(n, ast.Assign) and len(n.targets) == 1:
                        t = n.targets[0]
                        if isinstance(t, ast.Attribute) and isinstance(t.value, ast.Name) and t.value.id == "self":
                            v = n.value
                            if isinstance(v, ast.Call) and isinstance(v.func, ast.Name) and v.func.id in self.prog.classes:
                                self.attr_types.setdefault((c.name, t.attr), v.func.id)

    def attr_type(self, cls: Optional[str], attr: str) -> Optional[str]:
        seen = set()
        todo = [cls] if cls else []
        while todo:
            c = todo.pop(0)
            if c in seen:
                continue
            seen.add(c)
            if (c, attr) in self.attr_types:
                return self.attr_types[(c, attr)]
            if c in self.prog.classes:
                todo.extend(self.prog.classes[c].bases)
        return None

    def local_types(self, fn: Fn) -> Dict[str, str]:
        types: Dict[str, str] = {}
        cls = fn.cls or (fn.outer.cls if fn.outer else None)
        params = fn.params
        if cls is not None and params:
            if params[0] in ("self", "cls"):
                types[params[0]] = cls.name
        o = fn.outer
        while o is not None:           # closures see the outer function's locals
            for k, v in self.local_types(o).items():
                types.setdefault(k, v)
            o = o.outer
        for p in params:
            if p in PARAM_TYPES:
                types.setdefault(p, PARAM_TYPES[p])
        for n in walk_fn(fn.node):
            if isinstance(n, ast.Assign) and len(n.targets) == 1 and isinstance(n.targets[0], ast.Name):
                t = self.expr_type(n.value, types, fn)
                if t:
                    types.setdefault(n.targets[0].id, t)
            elif isinstance(n, (ast.For, ast.comprehension)) and isinstance(n.target, ast.Name):
                it = n.iter
                # for file in files / self.files ; for error in file.errors
                s = ast.unparse(it)
                if s.endswith("files"):
                    types.setdefault(n.target.id, "File")
                elif s.endswith(".errors") or s.endswith("_inner"):
                    types.setdefault(n.target.id, "Error")
                elif s.endswith("highlights"):
                    types.setdefault(n.target.id, "Highlight")
        return types

    def expr_type(self, e, types: Dict[str, str], fn: Fn) -> Optional[str]:
        if isinstance(e, ast.Name):
            if e.id in types:
                return types[e.id]
            if e.id in self.prog.classes:
                return None
            return None
        if isinstance(e, ast.Attribute):
            bt = self.expr_type(e.value, types, fn)
            if bt:
                return self.attr_type(bt, e.attr)
            return None
        if isinstance(e, ast.Call):
            f = e.func
            if isinstance(f, ast.Name):
                if f.id in self.prog.classes:
                    return f.id
                if f.id in ("cls",) and "cls" in types:
                    return types["cls"]
            if isinstance(f, ast.Attribute):
                # constructors-by-classmethod and scope navigation
                if f.attr in ("from_name", "from_token") and isinstance(f.value, ast.Name):
                    v = f.value.id
                    if v == "H":
                        v = "Highlight"
                    if v in self.prog.classes:
                        return v
                    if v == "cls" and "cls" in types:
                        return types["cls"]
                if f.attr in ("outer", "inner", "get_outer"):
                    return "Scope"
                if f.attr == "peek_token":
                    return "Token"
        if isinstance(e, ast.Subscript):
            s = ast.unparse(e.value)
            if s.endswith("tokens"):
                return "Token"
            if s.endswith("highlights"):
                return "Highlight"
        return None

    # ------------------------------------------------------------ resolution
    def resolve(self, call: ast.Call, fn: Fn, types: Optional[Dict[str, str]] = None) -> Tuple[List[Fn], str]:
        prog = self.prog
        types = types if types is not None else self.local_types(fn)
        f = call.func
        if isinstance(f, ast.Name):
            name = f.id
            if name in types and types[name] in prog.classes and name in ("cls",):
                return self._ctor(types[name]), "ctor"
            # nested function of an enclosing function
            o = fn
            while o is not None:
                for g in prog.fns:
                    if g.outer is o and g.name == name:
                        return [g], "nested"
                o = o.outer
            if name in fn.mod.functions:
                return [fn.mod.functions[name]], "module-fn"
            if name in fn.mod.classes:
                return self._ctor(name), "ctor"
            if name in fn.mod.imports:
                src, orig = fn.mod.imports[name]
                tgt = self._imported(src, orig)
                if tgt is not None:
                    return tgt, "import"
            if name == "H":
                return self._ctor("Highlight"), "ctor"
            return [], "builtin-or-unknown"
        if isinstance(f, ast.Attribute):
            meth = f.attr
            recv_t = None
            if isinstance(f.value, ast.Name) and f.value.id in prog.classes:
                recv_t = f.value.id                      # Class.method(...)
            elif isinstance(f.value, ast.Name) and f.value.id == "H":
                recv_t = "Highlight"
            elif isinstance(f.value, ast.Call) and isinstance(f.value.func, ast.Name) and f.value.func.id == "super":
                cls = fn.cls
                if cls is not None:
                    for b in cls.bases:
                        m = prog.method(b, meth)
                        if m is not None:
                            return [m], "super"
                return [], "super-builtin"
            else:
                recv_t = self.expr_type(f.value, types, fn)
            if recv_t:
                if recv_t == "Scope":
                    # any Scope subclass may be the receiver
                    ms = []
                    for c in [prog.classes.get("Scope")] + prog.subclasses("Scope"):
                        if c is not None and meth in c.methods and c.methods[meth] not in ms:
                            ms.append(c.methods[meth])
                    if ms:
                        return ms, "typed"
                m = prog.method(recv_t, meth)
                if m is not None:
                    return [m], "typed"
                if recv_t in prog.classes and meth not in BUILTIN_METHODS:
                    # attribute holding a callable, or inherited from a stdlib base
                    return [], "typed-no-method"
                return [], "typed-builtin"
            if meth in BUILTIN_METHODS:
                return [], "builtin-method"
            cands = self._methods_by_name.get(meth, [])
            if cands:
                return list(cands), "by-name"
            return [], "unknown-attr"
        return [], "dynamic"

    def _ctor(self, cname: str) -> List[Fn]:
        out = []
        for nm in ("__new__", "__init__", "__post_init__"):
            m = self.prog.method(cname, nm)
            if m is not None:
                out.append(m)
        return out

    def _imported(self, src: str, orig: Optional[str]) -> Optional[List[Fn]]:
        prog = self.prog
        if orig is None:
            return None
        m2 = prog.mod_by_dotted(src)
        hops = 0
        while m2 is not None and hops < 4:
            if orig in m2.functions:
                return [m2.functions[orig]]
            if orig in m2.classes:
                return self._ctor(orig)
            if orig in m2.imports:
                src, orig2 = m2.imports[orig]
                m2 = prog.mod_by_dotted(src)
                orig = orig2 or orig
                hops += 1
                continue
            break
        if orig in prog.classes:
            return self._ctor(orig)
        return None

    # ------------------------------------------------------------------ build
    def _add(self, caller: Fn, node, targets: List[Fn], how: str):
        c = Call(caller, node, targets, how)
        self.calls.append(c)
        self.calls_of.setdefault(caller.key, []).append(c)
        for t in targets:
            self.out.setdefault(caller.key, set()).add(t.key)
            self.sites.setdefault(t.key, []).append(c)

    def _build(self):
        prog = self.prog
        for fn in prog.fns:
            types = self.local_types(fn)
            for n in walk_fn(fn.node):
                if isinstance(n, ast.Call):
                    dyn = self._dynamic(n, fn)
                    if dyn is not None:
                        self._add(fn, n, dyn[0], dyn[1])
                        continue
                    targets, how = self.resolve(n, fn, types)
                    self._add(fn, n, targets, how)
                    if not targets and how in ("unknown-attr", "dynamic", "typed-no-method"):
                        self.unresolved.append((fn, n))
                elif isinstance(n, ast.Attribute) and isinstance(n.ctx, ast.Load) and n.attr in self._props:
                    p = parent(n)
                    if isinstance(p, ast.Call) and p.func is n:
                        continue
                    rt = self.expr_type(n.value, types, fn)
                    cands = self._props[n.attr]
                    if rt:
                        m = prog.method(rt, n.attr)
                        if m is not None and m in cands:
                            cands = [m]
                    self._add(fn, n, list(cands), "property")
                elif isinstance(n, ast.Attribute) and isinstance(n.ctx, ast.Load) and isinstance(n.value, ast.Name) \
                        and n.value.id in ("self", "cls") and fn.cls is not None:
                    # a bound method taken as a value (`iter(self.get_next_token, None)`, `key=self.weight`, a table of
                    # `self.parse_x`): whoever receives it may call it
                    p = parent(n)
                    if isinstance(p, ast.Call) and p.func is n:
                        continue
                    m = prog.method(fn.cls.name, n.attr)
                    if m is not None and m.cls is not None and not any(d == "property" for d in m.decorators):
                        self._add(fn, n, [m], "method-value")
            # implicit protocol edges
            self._implicit(fn, types)

    def _implicit(self, fn: Fn, types):
        prog = self.prog
        for n in walk_fn(fn.node):
            # iteration over an Errors object -> Errors.__iter__ (-> sort -> __lt__)
            it = None
            if isinstance(n, (ast.For, ast.comprehension)):
                it = n.iter
            elif isinstance(n, ast.Call) and isinstance(n.func, ast.Name) and n.func.id in ("map", "list", "tuple", "sorted", "min", "max", "iter") and n.args:
                it = n.args[-1]
            if it is not None:
                t = self.expr_type(it, types, fn)
                if t:
                    m = prog.method(t, "__iter__")
                    if m is not None:
                        self._add(fn, n, [m], "protocol:__iter__")
            if isinstance(n, ast.Call) and isinstance(n.func, ast.Attribute) and n.func.attr == "sort":
                s = ast.unparse(n.func.value)
                if s.endswith("_inner"):
                    m = prog.method("Error", "__lt__")
                    if m is not None:
                        self._add(fn, n, [m], "protocol:__lt__")
            if isinstance(n, ast.Call) and isinstance(n.func, ast.Name) and n.func.id in ("min", "max", "sorted") and n.args:
                s = ast.unparse(n.args[0])
                if s.endswith("highlights"):
                    m = prog.method("Highlight", "__lt__")
                    if m is not None:
                        self._add(fn, n, [m], "protocol:__lt__")
            if isinstance(n, ast.Call) and isinstance(n.func, ast.Name) and n.func.id in ("print", "str") and n.args:
                t = self.expr_type(n.args[0], types, fn)
                if t:
                    m = prog.method(t, "__str__")
                    if m is not None:
                        self._add(fn, n, [m], "protocol:__str__")
            if isinstance(n, ast.With):
                for item in n.items:
                    if isinstance(item.context_expr, ast.Call):
                        pass  # ordinary call, already handled

    def _dynamic(self, call: ast.Call, fn: Fn) -> Optional[Tuple[List[Fn], str]]:
        prog = self.prog
        f = call.func
        key = fn.key
        # rule.run(context) / rule(context) in Registry.run_rules
        if key == "registry.py::Registry.run_rules":
            if isinstance(f, ast.Attribute) and f.attr == "run" and isinstance(f.value, ast.Name):
                ts = []
                for c in prog.subclasses("Rule"):
                    m = prog.method(c.name, "run")
                    if m is not None and m not in ts:
                        ts.append(m)
                return ts, "dynamic:rule.run"
            if isinstance(f, ast.Name) and (f.id == "rule" or f.id in fn.params[2:3]):
                # the rule class handed in (third parameter, whatever it is called) is instantiated
                return self._ctor("Rule"), "dynamic:rule-ctor"
        if key == "registry.py::Registry.__init__" and isinstance(f, ast.Attribute) and f.attr == "register":
            m = prog.method("Check", "register")
            return ([m] if m else []), "dynamic:register"
        if key == "lexer/lexer.py::Lexer.get_next_token" and isinstance(f, ast.Name) and (f.id == "parser" or any(
                isinstance(l_, ast.For) and isinstance(l_.target, ast.Name) and l_.target.id == f.id
                and ast.unparse(l_.iter).endswith(".parsers") for l_ in ast.walk(fn.node))):
            return lexer_parsers(prog), "dynamic:parsers"
        if fn.cls is not None and isinstance(f, ast.Name):
            # checker := getattr(self, f"check_{x}", None) ; checker(...)
            pref = getattr_prefix(fn, f.id)
            if pref is not None:
                ts = [m for nm, m in sorted(fn.cls.methods.items()) if nm.startswith(pref)]
                return ts, "dynamic:getattr"
        # dispatch through a table of functions: checker = self.TABLE.get(k) / TABLE[k] ; checker(...)   or   TABLE[k](...)
        ts = dispatch_table_targets(prog, fn, f)
        if ts is not None:
            return ts, "dynamic:table"
        if key == "__main__.py::main" and isinstance(f, ast.Name) and f.id == "format":
            ts = []
            for c in prog.subclasses("_formatter"):
                ts += self._ctor(c.name)
                m = prog.method(c.name, "__str__")
                if m is not None:
                    ts.append(m)
            return ts, "dynamic:formatter"
        if key == "__main__.py::main" and isinstance(f, ast.Name) and f.id == "list" and call.args \
                and isinstance(call.args[0], ast.Name) and call.args[0].id == "lexer":
            m = prog.method("Lexer", "__iter__")
            return ([m] if m else []), "dynamic:iter"
        return None

    # ------------------------------------------------------------- queries
    def reachable_from(self, roots: List[str]) -> Set[str]:
        seen: Set[str] = set()
        todo = list(roots)
        while todo:
            k = todo.pop()
            if k in seen:
                continue
            seen.add(k)
            todo.extend(self.out.get(k, ()))
        return seen

    def sccs(self) -> List[List[str]]:
        """Tarjan; returns only non-trivial SCCs (size > 1 or self-loop)."""
        index: Dict[str, int] = {}
        low: Dict[str, int] = {}
        stack: List[str] = []
        on: Set[str] = set()
        res: List[List[str]] = []
        counter = [0]
        import sys
        sys.setrecursionlimit(max(sys.getrecursionlimit(), 5000))

        def strong(v):
            index[v] = low[v] = counter[0]
            counter[0] += 1
            stack.append(v)
            on.add(v)
            for w in sorted(self.out.get(v, ())):
                if w not in index:
                    strong(w)
                    low[v] = min(low[v], low[w])
                elif w in on:
                    low[v] = min(low[v], index[w])
            if low[v] == index[v]:
                comp = []
                while True:
                    w = stack.pop()
                    on.discard(w)
                    comp.append(w)
                    if w == v:
                        break
                if len(comp) > 1 or v in self.out.get(v, ()):
                    res.append(sorted(comp))

        for fn in self.prog.fns:
            if fn.key not in index:
                strong(fn.key)
        return sorted(res)


def lexer_parsers(prog: Program) -> List[Fn]:
    c = prog.cls("Lexer")
    e = c.attrs.get("parsers")
    if e is None and "parsers" in c.methods:
        # property / method form: `return (self.parse_a, self.parse_b, ...)`
        rets = [n for n in walk_fn(c.methods["parsers"].node) if isinstance(n, ast.Return) and n.value is not None]
        if len(rets) == 1 and isinstance(rets[0].value, (ast.Tuple, ast.List)):
            elts = []
            for el in rets[0].value.elts:
                if isinstance(el, ast.Attribute) and isinstance(el.value, ast.Name) and el.value.id in ("self", "cls", "Lexer"):
                    elts.append(ast.copy_location(ast.Name(id=el.attr, ctx=ast.Load()), el))
                else:
                    elts.append(el)
            e = ast.copy_location(ast.Tuple(elts=elts, ctx=ast.Load()), rets[0].value)
    if not isinstance(e, (ast.Tuple, ast.List)):
        from .model import AnalysisError
        raise AnalysisError("anchor vanished: Lexer.parsers is not a tuple/list display")
    out = []
    for el in e.elts:
        if isinstance(el, ast.Name) and el.id in c.methods:
            out.append(c.methods[el.id])
        else:
            from .model import AnalysisError
            raise AnalysisError(f"Lexer.parsers element not a method name: {ast.unparse(el)}")
    return out


def _fn_of_value(prog: Program, fn: Fn, owner_cls, v) -> Optional[Fn]:
    """The function a table entry denotes: a bare method / function name (class body or module), `self.m`, `Class.m`."""
    if isinstance(v, ast.Name):
        if owner_cls is not None and v.id in owner_cls.methods:
            return owner_cls.methods[v.id]
        if fn.cls is not None and v.id in fn.cls.methods and owner_cls is None:
            return None
        if v.id in fn.mod.functions:
            return fn.mod.functions[v.id]
        return None
    if isinstance(v, ast.Attribute) and isinstance(v.value, ast.Name):
        if v.value.id in ("self", "cls") and fn.cls is not None:
            return prog.method(fn.cls.name, v.attr)
        if v.value.id in prog.classes:
            return prog.method(v.value.id, v.attr)
    return None


def _table_display(prog: Program, fn: Fn, tab):
    """(display node, owner class) of the table expression *tab*: a class attribute (self.T / cls.T / Class.T / bare T in the
    class), a module-level name, or a local bound once to a display in this function."""
    if isinstance(tab, ast.Attribute) and isinstance(tab.value, ast.Name) and tab.value.id in ("self", "cls") and fn.cls is not None:
        return fn.cls.attrs.get(tab.attr), fn.cls
    if isinstance(tab, ast.Attribute) and isinstance(tab.value, ast.Name) and tab.value.id in prog.classes:
        oc = prog.classes[tab.value.id]
        return oc.attrs.get(tab.attr), oc
    if isinstance(tab, ast.Name):
        local = [n.value for n in walk_fn(fn.node) if isinstance(n, ast.Assign) and len(n.targets) == 1
                 and isinstance(n.targets[0], ast.Name) and n.targets[0].id == tab.id]
        if len(local) == 1:
            return local[0], None
        if local:
            return None, None
        if fn.cls is not None and tab.id in fn.cls.attrs:
            return fn.cls.attrs[tab.id], fn.cls
        vals = fn.mod.assigns.get(tab.id)
        return (vals[0] if vals and len(vals) == 1 and isinstance(vals[0], ast.expr) else None), None
    if isinstance(tab, (ast.Dict, ast.Tuple, ast.List)):
        return tab, None
    return None, None


def _table_expr_targets(prog: Program, fn: Fn, e) -> Optional[List[Fn]]:
    """e = <table>.get(k[, d]) | <table>[k] with <table> a dict display whose values denote functions."""
    tab = None
    if isinstance(e, ast.Call) and isinstance(e.func, ast.Attribute) and e.func.attr == "get" and e.args:
        tab = e.func.value
    elif isinstance(e, ast.Subscript):
        tab = e.value
    if tab is None:
        return None
    disp, owner_cls = _table_display(prog, fn, tab)
    if not isinstance(disp, ast.Dict) or not disp.values:
        return None
    out: List[Fn] = []
    for v in disp.values:
        t = _fn_of_value(prog, fn, owner_cls, v)
        if t is None:
            return None
        if t not in out:
            out.append(t)
    return out


def _row_table_targets(prog: Program, fn: Fn, name: str) -> Optional[List[Fn]]:
    """`for a, b, handler in <table of rows>: ... handler(...)`: the functions in that column of the table."""
    for lp in walk_fn(fn.node):
        if not isinstance(lp, (ast.For, ast.comprehension)):
            continue
        tg = lp.target
        col = None
        if isinstance(tg, ast.Name) and tg.id == name:
            col = -1
        elif isinstance(tg, (ast.Tuple, ast.List)):
            for i, x in enumerate(tg.elts):
                if isinstance(x, ast.Name) and x.id == name:
                    col = i
        if col is None:
            continue
        disp, owner_cls = _table_display(prog, fn, lp.iter)
        if isinstance(disp, ast.Dict):
            rows = disp.values if col == -1 else None
        elif isinstance(disp, (ast.Tuple, ast.List)):
            rows = disp.elts
        else:
            rows = None
        if not rows:
            return None
        out: List[Fn] = []
        for r in rows:
            v = r if col == -1 else (r.elts[col] if isinstance(r, (ast.Tuple, ast.List)) and col < len(r.elts) else None)
            t = _fn_of_value(prog, fn, owner_cls, v) if v is not None else None
            if t is None:
                return None
            if t not in out:
                out.append(t)
        return out
    return None


def dispatch_table_targets(prog: Program, fn: Fn, f) -> Optional[List[Fn]]:
    if isinstance(f, (ast.Subscript, ast.Call)):
        return _table_expr_targets(prog, fn, f)
    if isinstance(f, ast.Name):
        found = None
        for n in walk_fn(fn.node):
            tgt = val = None
            if isinstance(n, ast.NamedExpr):
                tgt, val = n.target, n.value
            elif isinstance(n, ast.Assign) and len(n.targets) == 1:
                tgt, val = n.targets[0], n.value
            if isinstance(tgt, ast.Name) and tgt.id == f.id:
                ts = _table_expr_targets(prog, fn, val)
                if ts is None:
                    return None
                found = (found or []) + [t for t in ts if t not in (found or [])]
        if found is None:
            return _row_table_targets(prog, fn, f.id)
        return found
    return None


def getattr_prefix(fn: Fn, var: str) -> Optional[str]:
    """If *var* is bound in fn by  var := getattr(self, f"<prefix>{...}", ...)  return the prefix."""
    for n in walk_fn(fn.node):
        tgt = val = None
        if isinstance(n, ast.NamedExpr):
            tgt, val = n.target, n.value
        elif isinstance(n, ast.Assign) and len(n.targets) == 1:
            tgt, val = n.targets[0], n.value
        if isinstance(tgt, ast.Name) and tgt.id == var and isinstance(val, ast.Call) \
                and isinstance(val.func, ast.Name) and val.func.id == "getattr" and len(val.args) >= 2:
            a = val.args[1]
            if isinstance(a, ast.JoinedStr) and a.values and isinstance(a.values[0], ast.Constant):
                return str(a.values[0].value)
    return None


_CG: Optional[CallGraph] = None


def callgraph(prog: Program) -> CallGraph:
    global _CG
    if _CG is None or _CG.prog is not prog:
        _CG = CallGraph(prog)
    return _CG
