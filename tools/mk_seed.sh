#!/bin/bash
# usage: tools/mk_seed.sh <id> <Cnn>   -- scratch worktree /tmp/seed_<id> with INSTRUCTIONS.md and PROPERTY.txt for a seed agent
set -u
ID=$1; PROP=$2; D=/tmp/seed_$ID
git -C /repo worktree add -q --detach $D HEAD || exit 3
/venv/bin/python - "$D" "$PROP" <<'PY'
import json, sys, glob, os
d, prop = sys.argv[1:3]
p = [json.loads(l) for l in open('/verif/properties.jsonl') if l.strip()]
p = [x for x in p if x['id'] == prop][0]
with open(d + '/PROPERTY.txt', 'w') as fh:
    fh.write(f"Property {p['id']}: {p['title']}\n\nStatement: {p['statement']}\n\nQuantifier: {p['quantifier']['text']}\n\n"
             f"Why the existing tests cannot settle it: {p['why_tests_cant']}\n\nWhere it lives: files {p['anchors']['files']}; mechanisms: "
             + "; ".join(f"{m['name']} ({m['where']})" for m in p['anchors'].get('mechanism', [])) + "\n")
used = []
for m in sorted(glob.glob('/verif/seeded/*/meta.json')):
    j = json.load(open(m))
    if j.get('property') == prop and j.get('summary'):
        used.append("- " + j['summary'])
tmpl = open('/verif/tools/SEED_INSTRUCTIONS.tmpl').read()
open(d + '/INSTRUCTIONS.md', 'w').write(tmpl.replace('@DIR@', d).replace('@USED@', "\n".join(used) or "- (none yet)"))
PY
echo $D
