#!/usr/bin/env python3
"""Create a battery patch:  tools/mkmut.py <Cnn> <m_name|t_name> <file under norminette/> <<'X'
<old text>
=====
<new text>
X
Several (file, old, new) triples may be given by repeating '@@@@@ <file>' separator lines in stdin.
m_* = mutant (the check must report a VIOLATION), t_* = benign twin (the check must stay silent)."""
import difflib
import os
import sys

prop, name, first = sys.argv[1], sys.argv[2], sys.argv[3]
data = sys.stdin.read()
chunks = []
cur_file = first
buf = []
for line in data.splitlines(keepends=True):
    if line.startswith("@@@@@ "):
        chunks.append((cur_file, "".join(buf)))
        cur_file = line.split(None, 1)[1].strip()
        buf = []
    else:
        buf.append(line)
chunks.append((cur_file, "".join(buf)))
out = []
for rel, body in chunks:
    old, new = body.split("=====\n", 1)
    path = os.path.join("/repo/norminette", rel)
    src = open(path).read()
    if old.endswith("\n") and not new.endswith("\n") and new:
        new += "\n"
    if src.count(old) != 1:
        sys.exit(f"old text occurs {src.count(old)} times in {rel}")
    dst = src.replace(old, new)
    compile(dst, path, "exec")
    out += list(difflib.unified_diff(src.splitlines(keepends=True), dst.splitlines(keepends=True),
                                     f"a/norminette/{rel}", f"b/norminette/{rel}"))
d = os.path.join(os.path.dirname(os.path.dirname(os.path.abspath(__file__))), "battery", prop)
os.makedirs(d, exist_ok=True)
with open(os.path.join(d, name + ".diff"), "w") as fh:
    fh.writelines(out)
print("wrote", os.path.join(d, name + ".diff"))
