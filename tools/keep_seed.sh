#!/bin/bash
# usage: tools/keep_seed.sh <seed-id> <agent worktree> <Cnn property broken> [<other Cnn to run> ...]
# Confirms an agent-made change in a fresh scratch worktree (suite passes with it, demo fails with / passes without),
# stores it under /verif/seeded/<seed-id>/, then applies it to /repo, runs the given checks and undoes it.
set -u
ID=$1; SRC=$2; PROP=$3; shift 3
OUT=/verif/seeded/$ID
V=/tmp/ver_$ID
mkdir -p "$OUT"
( cd "$SRC" && git diff -- norminette ) > "$OUT/patch.diff"
cp "$SRC/SEED_demo.py" "$OUT/demo.py"
[ -f "$SRC/SEED_notes.md" ] && cp "$SRC/SEED_notes.md" "$OUT/notes.md"
git -C /repo worktree add -q --detach "$V" HEAD || exit 3
cp "$OUT/demo.py" "$V/SEED_demo.py"
cd "$V"
timeout 300 /venv/bin/python SEED_demo.py > "$OUT/demo_without.log" 2>&1; RC_WITHOUT=$?
git apply "$OUT/patch.diff" || { echo "patch does not apply"; exit 3; }
IMPORT=$(/venv/bin/python -c "import norminette; print(norminette.__file__)")
TESTS=$(/venv/bin/python -m pytest -q -p no:cacheprovider -n 8 2>&1 | tail -1)
timeout 300 /venv/bin/python SEED_demo.py > "$OUT/demo_with.log" 2>&1; RC_WITH=$?
cd /verif
git -C /repo worktree remove --force "$V"
echo "import: $IMPORT"; echo "tests with change: $TESTS"; echo "demo without change rc=$RC_WITHOUT, with change rc=$RC_WITH"
# run our checks against /repo with the change applied, then undo
# (SCRATCH=1: on a scratch copy instead, for use while other work is reading /repo; tools/seed_matrix.sh does the real thing later)
DET=""
if [ "${SCRATCH:-0}" = "1" ]; then
  T=$(mktemp -d /dev/shm/sa_seed.XXXXXX); git -C /repo archive HEAD norminette | tar -x -C "$T"; find "$T" -name __pycache__ -prune -exec rm -rf {} +
  (cd "$T" && patch -s -p1 < "$OUT/patch.diff") || { echo "cannot apply to the copy"; exit 3; }
  for c in "$PROP" "$@"; do
    SA_REPO="$T" SA_EVIDENCE_DIR=/tmp/ev_$ID /venv/bin/python -m sa check "$c" > "$OUT/check_$c.log" 2>&1; rc=$?
    sed -i "s|$T|<copy>|g" "$OUT/check_$c.log"
    echo "check $c -> rc=$rc : $(grep -v KNOWN "$OUT/check_$c.log" | grep -E '^  R-|ANALYSIS' | head -2 | cut -c1-220)"
    DET="$DET $c:$rc"
  done
  rm -rf "$T" /tmp/ev_$ID
else
git -C /repo apply "$OUT/patch.diff" || { echo "cannot apply to /repo"; exit 3; }
for c in "$PROP" "$@"; do
  SA_EVIDENCE_DIR=/tmp/ev_$ID /venv/bin/python -m sa check "$c" > "$OUT/check_$c.log" 2>&1; rc=$?
  echo "check $c -> rc=$rc : $(grep -v KNOWN "$OUT/check_$c.log" | grep -E '^  R-|ANALYSIS' | head -2 | cut -c1-220)"
  DET="$DET $c:$rc"
done
git -C /repo checkout -- . ; rm -rf /tmp/ev_$ID
fi
git -C /repo status --short | head -3
cat > "$OUT/meta.json" <<JSON
{"seed_id": "$ID", "property": "$PROP", "tests_with_change": "$TESTS", "demo_rc_without_change": $RC_WITHOUT,
 "demo_rc_with_change": $RC_WITH, "checks_run_with_change_applied_to_repo": "$DET",
 "what_i_ran": "fresh worktree of /repo HEAD: demo (expect 0), git apply patch, pytest (514), demo (expect 1); then git -C /repo apply, sa check, git -C /repo checkout -- ."}
JSON
