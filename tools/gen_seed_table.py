#!/usr/bin/env python3
"""Regenerate the seeded-change table of DESIGN.md §9 from /verif/seeded/*/meta.json."""
import glob, json, os, re
HERE = os.path.dirname(os.path.dirname(os.path.abspath(__file__)))
rows = []
for p in sorted(glob.glob(os.path.join(HERE, "seeded", "*", "meta.json"))):
    d = json.load(open(p))
    def c(k):
        return str(d.get(k, "")).replace("|", "\\|").replace("\n", " ")
    rows.append(f"| {d['seed_id']} | {d.get('property','')} | {c('summary')} | {c('needs_to_manifest')} | {c('first_run') or 'caught'} | {c('detected_by')} |")
table = ("| seed | property | what it does | needs to manifest | first run | now caught by |\n|---|---|---|---|---|---|\n" + "\n".join(rows) + "\n")
path = os.path.join(HERE, "DESIGN.md")
s = open(path).read()
a, b = "<!-- SEEDS-BEGIN -->", "<!-- SEEDS-END -->"
if a in s:
    s = s[:s.index(a) + len(a)] + "\n" + table + s[s.index(b):]
else:
    # replace the hand-written table of §9
    start = s.index("| seed | what it does |")
    end = s.index("Seeds of the second round")
    s = s[:start] + a + "\n" + table + b + "\n\n" + s[end:]
open(path, "w").write(s)
print(len(rows), "seeds in the table")
