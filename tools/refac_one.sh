#!/bin/bash
# usage: tools/refac_one.sh <patch> [checks...]  (default: all) ; prints non-OK lines and the inline report
set -u
P=$(realpath $1); shift
T=$(mktemp -d /dev/shm/sa_ref.XXXXXX)
git -C /repo archive HEAD norminette | tar -x -C "$T"; find "$T" -name __pycache__ -prune -exec rm -rf {} +
(cd "$T" && patch -s -p1 < "$P") || { echo PATCH-FAILED; rm -rf $T; exit 3; }
cd /verif
SA_REPO="$T" /venv/bin/python -c "
from sa.model import program
for l in program().inline_report: print('  inline:', l)"
if [ $# -eq 0 ]; then
SA_REPO="$T" SA_EVIDENCE_DIR="$T/evidence" /venv/bin/python -m sa all 2>&1 | grep -v "^KNOWN-FINDING" | grep -E "^  R-|VIOLATION|ANALYSIS-ERROR|Traceback" | sed "s|$T|<copy>|g" | cut -c1-${CUT:-260}
else
for c in "$@"; do SA_REPO="$T" SA_EVIDENCE_DIR="$T/evidence" /venv/bin/python -m sa check $c 2>&1 | grep -v "^KNOWN-FINDING" | sed "s|$T|<copy>|g" | tail -${TAILN:-8} | cut -c1-${CUT:-400}; done
fi
rm -rf "$T"
