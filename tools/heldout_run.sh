#!/bin/bash
# usage: tools/heldout_run.sh [glob]   -- runs every quick check on a scratch copy for each heldout patch
set -u
for P in /verif/${HELDOUT_DIR:-heldout}/${1:-t_*}.diff; do
  T=$(mktemp -d /dev/shm/sa_ref.XXXXXX)
  cp -r /repo/norminette "$T/norminette"; find "$T" -name __pycache__ -prune -exec rm -rf {} +
  if ! (cd "$T" && patch -s -p1 < "$P"); then echo "PATCH-FAILED $P"; rm -rf "$T"; continue; fi
  OUT=$(cd /verif && SA_REPO="$T" SA_EVIDENCE_DIR="$T/evidence" /venv/bin/python -m sa all 2>&1 | grep -v "^KNOWN-FINDING" | grep -E "^  R-|VIOLATION|ANALYSIS-ERROR|Traceback" | sed "s|$T|<copy>|g" | cut -c1-240)
  if [ -z "$OUT" ]; then echo "== $(basename $P): all silent"; else echo "== $(basename $P):"; echo "$OUT"; fi
  rm -rf "$T"
done
