#!/bin/bash
# usage: [HELDOUT_DIR=heldout3] tools/heldout_run.sh [glob]   -- every quick check on a scratch copy per held-out patch (8 in parallel)
cd /verif
one() {
  P=$1
  T=$(mktemp -d /dev/shm/sa_ref.XXXXXX)
  git -C /repo archive HEAD norminette | tar -x -C "$T"; find "$T" -name __pycache__ -prune -exec rm -rf {} +
  if ! (cd "$T" && patch -s -p1 < "$P" >/dev/null 2>&1); then echo "== $(basename $P): PATCH-FAILED"; rm -rf "$T"; return; fi
  OUT=$(SA_REPO="$T" SA_EVIDENCE_DIR="$T/evidence" /venv/bin/python -m sa all 2>&1 | grep -v "^KNOWN-FINDING" | grep -E "^  R-|VIOLATION|ANALYSIS-ERROR|Traceback|^UNDECIDED" | sed "s|$T|<copy>|g" | cut -c1-240)
  if [ -z "$OUT" ]; then echo "== $(basename $P): all silent"; else echo "== $(basename $P):"; echo "$OUT"; fi
  rm -rf "$T"
}
export -f one
ls /verif/${HELDOUT_DIR:-heldout}/${1:-t_*}.diff | xargs -P ${JOBS:-8} -I{} bash -c 'one {}'
