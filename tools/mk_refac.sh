#!/bin/bash
# usage: tools/mk_refac.sh <id> <n> "<area text>"   -- scratch worktree /tmp/refac_<id> with INSTRUCTIONS.md for a refactoring agent
set -eu
ID=$1; N=$2; AREA=$3
D=/tmp/refac_$ID
git -C /repo worktree add -q --detach "$D" HEAD
python3 - "$D" "$N" "$AREA" <<'PY'
import sys
d, n, area = sys.argv[1:4]
t = open('/verif/tools/REFAC_INSTRUCTIONS.tmpl').read()
open(d + '/INSTRUCTIONS.md', 'w').write(t.replace('@DIR@', d).replace('@N@', n).replace('@AREA@', area))
PY
echo "$D ready"
