#!/usr/bin/env python3
"""Regenerate /verif/MANIFEST.json from the table below and the rule modules
that exist under sa/rules/.  Run from /verif:  python3 tools/gen_manifest.py"""
import json
import os
import subprocess

HERE = os.path.dirname(os.path.dirname(os.path.abspath(__file__)))
PY = "/venv/bin/python"

CLAIMS = {
    "C02": ("registry model (symbolic evaluation of class statements) + emitter exhaustiveness over resolved emission sites + CFG reachability",
            "partial: every enforced (emitter, code) pair of the frozen table has a live, reachable emission site in a check the registry will run, and the dispatcher reaches dependants; NOT decided: that the emitting condition fires for every program/site (run-time).",
            "§4.2"),
    "C03": ("comparison normalisation to 'measure > T' with measure-kind offsets, counter discipline, exhaustive residue evaluation of the tab-stop expression",
            "partial: each of the five limits is compared with exactly the threshold its measured quantity demands, counters have one unit increment, tab stops are 4 columns; NOT decided: that the measured quantity is the Norm's in every context.",
            "§4.3"),
    "C04": ("def-use and possibly-unbound analysis on main's CFG, must-pass-through on the fatal handler, verdict-source taint in formatters",
            "exit status / verdict agreement in main and the formatters: single verdict predicate that ignores exactly Notices, exit expression quantifies over all files through that predicate, fatal handler names the file and exits non-zero on all paths, empty selection reaches the exit.",
            "§4.4"),
    "C05": ("CFG all-paths return shape, exception-escape over the call graph with handler scopes, SCC recursion table, Tri-valued loop evaluation in the past-the-end state, progress must-pass-through, helper/dict-key totality",
            "partial: seven termination / no-internal-error disciplines (each a necessary condition with a concrete crashing or hanging input when broken); NOT decided: None-token dereferences and empty-list indexing (needs a type checker).",
            "§4.5"),
    "C06": ("global-mutation and alias analysis over module/class-level mutables, class-state discipline, acquire/restore pairing on the CFG incl. exceptional exits, registry order determinism",
            "state isolation and order independence: no shared mutable is mutated, per-file objects are fresh, primaries' priorities are distinct and lists are sorted, process-global settings are restored on all exits, no ambient inputs in the analysis path.",
            "§4.6"),
    "C07": ("who-may-call / who-may-write ownership over resolved references, typestate of unrecognised tokens on Registry.run's CFG (must-raise)",
            "partial: only the registry consumes tokens (by front slicing, >= 1 per iteration) and unrecognised tokens lead to CParsingError on every path in normal mode, uncaught below main; NOT decided: line-boundary alignment and depth restoration (run-time).",
            "§4.7"),
    "C08": ("value sets of emitted codes vs the folded catalogue, Error typestate (created -> positioned -> added), comparator evaluation over order types, sibling agreement of the formatters, print discipline",
            "catalogue membership and text, levels, every diagnostic positioned, Highlight/Error comparators equal the ascending lexicographic key order (exhaustive over order types), both formatters read the same sources in the same order, nothing but main prints in normal mode.",
            "§4.8"),
    "C09": ("ownership of position state, capture-before-consume def-use in each sub-parser, line-break pairing by reaching definitions, residue evaluation of tab stops",
            "partial: who writes position state, when it is sampled, and the bookkeeping at line breaks and tabs; NOT decided: the full arithmetic of pop for every layout.",
            "§4.9"),
    "C10": ("dataflow from every pop() to the returned Token value / table key, injectivity and totality of the folded lexer tables, parser-list completeness",
            "partial: nothing popped is dropped, raw advances are accounted by BAD_LEXEME or splice skipping, keyword/operator/bracket tables are injective and total for the keys the parsers can produce; NOT decided: exact round trip for every string.",
            "§4.10"),
    "C11": ("constant folding of suffix/prefix/escape/digit tables vs reference sets of C11 6.4.4, emitter exhaustiveness scoped to sub-parsers, regex-AST hygiene",
            "partial: the tables contain what C and the listed extensions require, every malformed family has its emitter in the right sub-parser, one token per literal, parser order; NOT decided: group assignment of the numeric regexes under re's priority semantics (the 0xb3ba class).",
            "§4.11"),
    "C12": ("who-reads-raw-characters analysis of the punctuator parsers, sibling agreement of the splice spellings, longest-first ordering on the CFG, table equality with C11 5.2.1.1/6.4.6",
            "partial: translation precedes every punctuator decision, both splice spellings are handled wherever one is, longest operators are tried first, tables are the standard ones, rules never read source text; NOT decided: equality of whole token sequences under arbitrary respelling.",
            "§4.12"),
    "C13": ("regular-language inclusion / emptiness: re._parser AST of the header pattern -> NFA, product with the template family and with each structurally mutated family; typestate of the two header flags",
            "the for-all over header field values is decided on the regex itself: every member of the stdheader template family is accepted and every listed structural mutation is rejected (emptiness of the intersection), and the two-flag machine emits INVALID_HEADER at most once and at least once when no valid header leads the file.",
            "§4.13"),
    "C14": ("def-use derivation chain of the expected guard symbol, dominance of the '.h' test over every HEADER_PROT_* emission, emitter per guard defect, state ownership",
            "partial: the expected symbol derives from File.basename through upper() and replace('.', '_') only, .c files cannot reach any guard diagnostic, each listed guard defect has a handler; NOT decided: that the handlers fire for every body.",
            "§4.14"),
    "C15": ("sibling agreement of the three suffix filters (tuple literal vs two glob patterns parsed as globs), must-pass-through on the error exits",
            "partial: the explicit-file suffix test and both glob patterns denote exactly {.c,.h} recursively, missing path exits non-zero, wrong suffix is not appended, --use-gitignore only removes; NOT decided: behaviour over real directory trees.",
            "§4.15"),
    "C16": ("taint / effect analysis: option values as sources, allowed sinks by role, single pipeline",
            "debug reaches printing and fatality only, -R reaches only skip_define and only the #define-value diagnostics, presentation options reach only the formatter, formatters are views, inline and file content share one pipeline.",
            "§4.16"),
    "C17": ("token-value taint with kind guards and role classification of every read of token text in rules/ and context.py",
            "every read of a token's text whose kind may be COMMENT/MULT_COMMENT/STRING/CHAR_CONST has role WIDTH or MESSAGE (plus the two exceptions the property itself makes: 42 header, #include argument).",
            "§4.17"),
    "C18": ("token-value taint (identifier kinds) with a closed list of naming-class predicates and special names; keyword table subset of C keywords",
            "identifier text reaches only naming-class predicates, width, the closed special-name list, the three name stores and messages; the keyword table swallows only C reserved words.",
            "§4.18"),
    "C19": ("taint on the line coordinate (translation invariance), ownership of header state, dominance of the comment/empty early return over scope stores",
            "partial: line numbers are opaque to rules, header state is isolated in CheckHeader, comments and empty lines do not move the scope or the global alignment memory; NOT decided: history look-backs across an insertion.",
            "§4.19"),
}

NA_REASONS = {
    "C01": "static analysis cannot apply: acceptance of every program of an infinite conforming grammar is the joint run-time behaviour of 19 priority-ordered token heuristics and 39 dependent checks; no property of the code's shape is both necessary and checkable for 'no diagnostic is invented', and any proxy (freezing the heuristics) would fire on behaviour-preserving edits (DESIGN.md §4.1). Structural preconditions are claimed under C05/C06/C08.",
}


def main():
    fix_commits = subprocess.run(["git", "-C", "/repo", "log", "--format=%h %s", "1de0ac3..HEAD"],
                                 capture_output=True, text=True).stdout.strip().splitlines()
    checks = []
    na = []
    for i in range(1, 20):
        pid = f"C{i:02d}"
        have = os.path.exists(os.path.join(HERE, "sa", "rules", pid.lower() + ".py"))
        if pid in CLAIMS and have:
            tech, txt, ref = CLAIMS[pid]
            checks.append({
                "property_id": pid,
                "quick_cmd": f"{PY} -m sa check {pid} --tier quick",
                "thorough_cmd": f"{PY} -m sa check {pid} --tier thorough",
                "evidence_file": f"/verif/evidence/{pid}.json",
                "replay_cmd_template": f"{PY} -m sa explain {{path}}",
                "engine": "sa",
                "level_claimed": {"category": "other", "text": txt, "design_ref": f"DESIGN.md {ref}"},
                "level_note": "trusted: CPython ast/re._parser, the analyser itself (validated both ways by the mutant/twin battery of the thorough tier), "
                              "the reference sets and frozen tables written into the checker; name-based resolution asserted exact by selfcheck. "
                              "Decides the structural clauses named above, not the run-time behaviour.",
                "technique": "static analysis: " + tech,
            })
        elif pid in NA_REASONS:
            na.append({"property_id": pid, "reason": NA_REASONS[pid]})
        else:
            na.append({"property_id": pid, "reason": "claimed in DESIGN.md but its rule module is not built yet; not claimed until it is"})
    manifest = {
        "version": 1,
        "setup_cmd": f"{PY} -m sa selfcheck",
        "hooks": {
            "guard": "NORMINETTE_VERIF",
            "enable": "no source hooks: the checks read /repo's working tree with ast and never import or run norminette",
            "baseline_off_cmd": "cd /repo && /venv/bin/python -m pytest -ra -q -p no:cacheprovider --timeout=900 --continue-on-collection-errors",
            "source_commits": fix_commits,
            "add_only": True,
        },
        "engines": [{
            "name": "sa",
            "path": "/verif/sa",
            "serves_properties": [c["property_id"] for c in checks],
            "kind_free_text": "repository-specific static analyser (stdlib ast / re._parser; program model, constant folder, "
                              "resolver + call graph, statement CFG, Tri-valued loop evaluator, taint/role classifier, regex->NFA language engine)",
        }],
        "checks": checks,
        "not_applicable": na,
        "notes": "Static analysis only. hooks.source_commits lists the unguarded 'fix:' commits made in /repo (genuine defects repaired); "
                 "there are no instrumentation hooks. Known findings: /verif/known_findings.json.",
    }
    with open(os.path.join(HERE, "MANIFEST.json"), "w") as fh:
        json.dump(manifest, fh, indent=1)
    print(f"MANIFEST.json: {len(checks)} checks, {len(na)} not_applicable")


if __name__ == "__main__":
    main()
