#!/usr/bin/env python3
"""Regenerate /verif/MANIFEST.json from the table below and the rule modules
that exist under sa/rules/.  Run from /verif:  python3 tools/gen_manifest.py"""
import json
import os
import subprocess

HERE = os.path.dirname(os.path.dirname(os.path.abspath(__file__)))
PY = "/venv/bin/python"

CLAIMS = {
    "C02": ("registry model (class statements evaluated symbolically; its semantics validated by interpreting Rules/Check registration on stub classes), emitter exhaustiveness over resolved emission sites with value sets, CFG reachability under constant history tests, contradiction rule on the last-element protocol of state lists ; the check that emits ASSIGN_IN_CONTROL interpreted on stub conditions of one to three lines (R-2.7); File.__init__ interpreted on multi-dot names for the rules bound to a kind of file (R-2.10); a declaration `char buf[<size>];` through the primaries and CheckVariableIndent for variable and constant size spellings (R-2.11); `int <name>;` at file level through the primaries and CheckGlobalNaming (R-2.12)",
            "partial: every enforced (emitter, code) pair of the frozen table has a live, reachable emission site in a check the registry will run in every statement kind of the frozen slot / history tables, and the dispatcher reaches dependants; NOT decided: that the emitting condition fires for every program/site (run-time).",
            "§4.2"),
    "C03": ("comparison normalisation to 'measure > T' with measure-kind offsets on dominating test atoms, counter discipline, effect / ordering / who-may-call rule for the line-accumulating Scope.outer(), exhaustive evaluation of the tab-stop code for every start column ; both comment sub-parsers interpreted against a line-based tab-stop model (R-3.7); tab stops decided on the whole pop() in every reading mode (R-3.3); the literal sub-parsers against the same tab-stop model (R-3.10); CheckLineCount interpreted in every scope a function body can contain (R-3.11)",
            "partial: each of the five limits is compared with exactly the threshold its measured quantity demands, counters have one unit increment at the right place, lines are accumulated once and after the closing line is counted, tab stops are 4 columns; NOT decided: that the measured quantity is the Norm's in every context.",
            "§4.3"),
    "C04": ("interpretation of __main__.main and of the Errors / formatter classes by the analyser's own evaluator over a stub world (virtual file tree, argparse / sys.exit / print stubs, stub Lexer and Registry), exhaustive over all sequences of <= 3 files of 4 classes (+ pairs of 6) and all add sequences <= 3; a file whose text cannot be read among the fatal files of the abstract runs",
            "exit status / verdict agreement in main and the formatters: one verdict per file in order from errors.status, Notices ignored, exit status non-zero iff some file has an Error (or a fatal file), independent of order and count, fatal files named and never OK, empty selection handled. Decided on the analyser's interpreter over a finite scenario set, not by running norminette.",
            "§4.4"),
    "C05": ("CFG all-paths return shape, exception-escape over the call graph with handler scopes and head-verified pops, SCC recursion table with validated bounded cycles, Tri-valued loop evaluation in the past-the-end state, progress must-pass-through with boolean-flag constant propagation, helper / table-key totality (guards, else interpretation), token-text nullability, local-list indexing, exponential ambiguity of every regular expression (squared automaton) ; annotated types of everything ordered while diagnostics are sorted (R-5.13); arity closure of reflective dispatch (R-5.14); get_next_token interpreted on every prefix of a fragment family inside a step budget (R-5.17); abstract runs of __main__ on single fatal files of every error class (R-5.18)",
            "partial: eleven termination / no-internal-error disciplines (each a necessary condition with a concrete crashing or hanging input when broken); NOT decided: None-token dereferences in general (needs a type checker).",
            "§4.5"),
    "C06": ("global-mutation and alias analysis over module / class-level mutables and default arguments, one-shot iterators, class-state discipline, freshness by reaching definitions, acquire/restore pairing on the CFG incl. exceptional exits, registry order determinism (registration interpreted under permuted class orders) ; memoised results never mutated by a user (R-6.8)",
            "state isolation and order independence: no shared mutable is mutated, per-file objects are fresh, primaries' priorities are distinct and lists are sorted, process-global settings are restored on all exits, no ambient inputs in the analysis path.",
            "§4.6"),
    "C07": ("who-may-call / who-may-write ownership over resolved references, Registry.run interpreted on all stub files of <= 4 lines (typestate abstract interpretation as fall-back), handler coverage of registry.run, no list shrunk while iterated in place ; IsPreprocessorStatement.run interpreted for every token kind the lexer can produce: a directive claims one line (R-7.5); unrecognisable last-line fragments offered to the primaries in priority order (R-7.8); ownership of the statement record (R-7.9)",
            "partial: only the registry consumes tokens (by front slicing, >= 1 per iteration), unrecognised tokens lead to CParsingError on every path in normal mode and are caught by main's per-file handler, no loop skips elements by mutating what it iterates; NOT decided: which token sequences a primary accepts (acceptance semantics).",
            "§4.7"),
    "C08": ("value sets of emitted codes vs the folded catalogue (dead sites validated by CFG path facts), Error typestate (created -> positioned -> added), comparators and the sorted view interpreted over order types, both reports produced on stub files and compared, print discipline; Errors.add interpreted on containers of up to 5000 diagnostics (R-8.8)",
            "catalogue membership and text, levels, every diagnostic positioned, Highlight/Error comparators equal the ascending lexicographic key order, both formatters describe the same files, verdicts and diagnostics in the same order, nothing but main prints in normal mode.",
            "§4.8"),
    "C09": ("ownership of position state, capture-before-consume def-use in each sub-parser, staleness of position samples, pop / get_next_token interpreted at line breaks and splices against an independent raw-text position model, tab stops ; cursor-cache coherence (R-9.8), comment layout (R-9.9), bad-lexeme skip width (R-9.4); the literal sub-parsers against a line-based tab-stop model, escapes included (R-9.10); escape notices at the character behind the backslash in every spelling (R-9.11)",
            "partial: who writes position state, when it is sampled, and the bookkeeping at line breaks, splices and tabs; NOT decided: the full arithmetic of pop for every layout.",
            "§4.9"),
    "C10": ("dataflow from every pop() to the returned Token value / table key (else the sub-parser interpreted on every one-character input), raw advances accounted, pop-count discipline (origin of every non-constant times=), injectivity and totality of the folded lexer tables, get_next_token interpreted with logging stub parsers ; cursor-cache coherence (R-10.7); value-less tokens only for the exact spelling of their kind (R-10.8); round trip per call of get_next_token on an exhaustive small domain against an independent normaliser (R-10.11)",
            "partial: nothing popped is dropped, raw advances are accounted by BAD_LEXEME or splice skipping, bulk pops count translated characters, tables are injective and total for the keys the parsers can produce, every sub-parser is tried before a bad lexeme; NOT decided: exact round trip for every string.",
            "§4.10"),
    "C11": ("constant folding of suffix / prefix / digit tables (through imports) vs reference sets of C11 6.4.4, escapes and digit buckets by interpreting pop / parse_integer_literal on one representative per letter and (prefix, digit) pair, emitter exhaustiveness scoped to sub-parsers, regex-AST hygiene and alphabet, language intersection for digit-less exponents, digit capacity of the escape branches ; termination diagnostics of character / string literals against an independent scanner (R-11.7); get_next_token interpreted on a mantissa x exponent x suffix domain against an independent C11 6.4.4 recogniser (R-11.10)",
            "partial: the tables contain what C and the listed extensions require, every malformed family has its emitter in the right sub-parser, numeric patterns cannot swallow a neighbouring character, one token per literal, parser order; NOT decided: group assignment of the numeric regexes under re's priority semantics (the 0xb3ba class).",
            "§4.11"),
    "C12": ("who-reads-raw-characters analysis (flow-sensitive 'translated' judgement by reaching definitions), translation order on the CFG, peek / pop / parse_operator / parse_brackets interpreted on every key, every respelling and every short left context, sibling agreement of the splice spellings (tests and patterns), maximal munch over the operator table, cache coherence of cursor-derived Lexer state; peek() on every key followed by every short right context; brace lines in every spelling through the tree's lexer, the primaries and CheckBrace (R-12.7)",
            "partial: translation precedes every punctuator decision and does not depend on the left context, both splice spellings are handled wherever one is, longest operators win, tables are the standard ones, no stale cursor-derived state; NOT decided: equality of whole token sequences under arbitrary respelling.",
            "§4.12"),
    "C13": ("regular-language inclusion / emptiness: re._parser AST of the header pattern -> NFA, product with the template family and with each structurally mutated family; the two-flag machine interpreted over all sequences <= 5 of abstract statements; Errors.add interpreted on containers of up to 5000 diagnostics (R-13.5); Context.__init__ interpreted with every option word its code mentions (R-13.6)",
            "the for-all over header field values is decided on the regex itself: every member of the stdheader template family is accepted and every listed structural mutation is rejected (emptiness of the intersection), and the two-flag machine emits INVALID_HEADER at most once and at least once when no valid header leads the file.",
            "§4.13"),
    "C14": ("def-use derivation chain of the expected guard symbol, dominance of the '.h' test over every HEADER_PROT_* emission, emitter per guard defect (dominating atoms; run() interpreted on stub #ifndef / #endif statements as rescue), state ownership, open/close pairing of the preprocessor state the guard check reads ; macro lookup by equality (R-14.7); what may follow the closing #endif (R-14.8); shared-state discipline of R-6.1 restated for the guard check (R-14.11)",
            "partial: the expected symbol derives from File.basename through upper() and replace('.', '_') only, .c files cannot reach any guard diagnostic, each listed guard defect has a handler, nesting-scoped state is restored at #endif; NOT decided: that the handlers fire for every body.",
            "§4.14"),
    "C15": ("__main__ interpreted over virtual directory trees and argument lists (glob / pathlib / git check-ignore stubs): analysed files, rejection messages, exit status and verdict names compared with what the property prescribes; File(path) interpreted; strict parsing of argv (R-15.6)",
            "partial: exactly the named / discovered .c and .h files are analysed once per mention, wrong suffixes rejected with a message, missing paths exit non-zero, the current-directory default only without arguments, --use-gitignore only removes; decided on the analyser's interpreter over the listed virtual trees, NOT over real directory trees.",
            "§4.15"),
    "C16": ("differential interpretation of __main__ in the stub world: each declared option toggled on the plain command line and next to -R CheckDefine -d must leave the pipeline record unchanged apart from its one allowed effect; formatters rendered twice (views); Context.__init__ interpreted; CFG regions that run only for some debug levels",
            "debug reaches printing and fatality only, -R reaches only skip_define and only the #define-value diagnostics, presentation options reach only the formatter, formatters are views, inline and file content share one pipeline and one text.",
            "§4.16"),
    "C17": ("token-value taint with CFG-valid kind guards, a re-validated precondition table (navigation agreement between primaries and checks) and role classification of every read of token text in rules/ and context.py ; memoised results never mutated by a user (R-17.4); the literal sub-parsers interpreted against a line-based tab-stop model (R-17.7); both literal sub-parsers on every short body over the replacement alphabet: diagnostics independent of the text (R-17.8)",
            "every read of a token's text whose kind may be COMMENT/MULT_COMMENT/STRING/CHAR_CONST has role WIDTH, MESSAGE, TRUTH or an inert comparison (plus the two exceptions the property itself makes: 42 header, #include argument); literal / comment sub-parsers build only tokens of their own kind.",
            "§4.17"),
    "C18": ("token-value taint (identifier kinds) with a closed list of naming-class predicates, dispatch on constant tables, comparisons between recorded identifiers; keyword table subset of C keywords (exact membership by lexer simulation); lexer state after each spelling parse_identifier mentions compared with a neutral name",
            "identifier text reaches only naming-class predicates, width, the closed special-name list, dispatch on constant keys, comparisons between identifiers, the name stores and messages; the keyword table swallows only C reserved words.",
            "§4.18"),
    "C19": ("taint on the line coordinate (translation invariance: difference / same-line / message uses only), ownership of header state, dominance of the comment / empty early return over scope stores, contradiction rule on history look-back loops, counters ; a comment inserted at a top-level point gets no diagnostic of its own from CheckComment / CheckHeader (R-19.6); head line, optional comments and brace line through the primaries: same body scope (R-19.8)",
            "partial: line numbers are opaque to rules, header state is isolated in CheckHeader, comments and empty lines do not move the scope or the global alignment memory, successive look-back loops agree about comments; NOT decided: every history look-back across an insertion.",
            "§4.19"),
}

NA_REASONS = {
    "C01": "static analysis cannot apply: acceptance of every program of an infinite conforming grammar is the joint run-time behaviour of 19 priority-ordered token heuristics and 39 dependent checks; no property of the code's shape is both necessary and checkable for 'no diagnostic is invented', and any proxy (freezing the heuristics) would fire on behaviour-preserving edits (DESIGN.md §4.1). Structural preconditions are claimed under C05/C06/C08.",
}


def main():
    fix_commits = subprocess.run(["git", "-C", "/repo", "log", "--format=%h %s", "1de0ac3..HEAD"],
                                 capture_output=True, text=True).stdout.strip().splitlines()
    checks = []
    na = []
    for i in range(1, 20):
        pid = f"C{i:02d}"
        have = os.path.exists(os.path.join(HERE, "sa", "rules", pid.lower() + ".py"))
        if pid in CLAIMS and have:
            tech, txt, ref = CLAIMS[pid]
            checks.append({
                "property_id": pid,
                "quick_cmd": f"{PY} -m sa check {pid} --tier quick",
                "thorough_cmd": f"{PY} -m sa check {pid} --tier thorough",
                "evidence_file": f"/verif/evidence/{pid}.json",
                "replay_cmd_template": f"{PY} -m sa explain {{path}}",
                "engine": "sa",
                "level_claimed": {"category": "other", "text": txt, "design_ref": f"DESIGN.md {ref}"},
                "level_note": "trusted: CPython ast/re._parser, the analyser itself (validated both ways by the mutant/twin battery of the thorough tier: "
                              "seeded defects must be reported, 130+ behaviour-preserving refactorings by independent authors must stay silent), "
                              "the reference sets and frozen tables written into the checker; name-based resolution asserted exact by selfcheck. "
                              "Decides the structural clauses named above, not the run-time behaviour. Where the technique says 'interpreted', the "
                              "analyser's own evaluator walks the function's AST over a completely enumerated finite stub domain (DESIGN.md 3.4b); "
                              "norminette is never imported or run. Rule functions that meet a construct outside the evaluators' subset are reported "
                              "UNDECIDED (evidence: coverage.undecided) and the rest of the check is still decided.",
                "technique": "static analysis: " + tech,
            })
        elif pid in NA_REASONS:
            na.append({"property_id": pid, "reason": NA_REASONS[pid]})
        else:
            na.append({"property_id": pid, "reason": "claimed in DESIGN.md but its rule module is not built yet; not claimed until it is"})
    manifest = {
        "version": 1,
        "setup_cmd": f"{PY} -m sa selfcheck",
        "hooks": {
            "guard": "NORMINETTE_VERIF",
            "enable": "no source hooks: the checks read /repo's working tree with ast and never import or run norminette",
            "baseline_off_cmd": "cd /repo && /venv/bin/python -m pytest -ra -q -p no:cacheprovider --timeout=900 --continue-on-collection-errors",
            "source_commits": fix_commits,
            "add_only": True,
        },
        "engines": [{
            "name": "sa",
            "path": "/verif/sa",
            "serves_properties": [c["property_id"] for c in checks],
            "kind_free_text": "repository-specific static analyser (stdlib ast / re._parser; inlining pre-pass, program model, constant folder, "
                              "resolver + call graph, statement CFG with dominance / reaching definitions, Tri-valued loop evaluator, taint/role classifier, "
                              "regex->NFA language engine (inclusion, emptiness, ambiguity), and the analyser's own AST evaluators over finite stub domains)",
        }],
        "checks": checks,
        "not_applicable": na,
        "notes": "Static analysis only. hooks.source_commits lists the unguarded 'fix:' commits made in /repo (genuine defects repaired); "
                 "there are no instrumentation hooks. Known findings: /verif/known_findings.json.",
    }
    with open(os.path.join(HERE, "MANIFEST.json"), "w") as fh:
        json.dump(manifest, fh, indent=1)
    print(f"MANIFEST.json: {len(checks)} checks, {len(na)} not_applicable")


if __name__ == "__main__":
    main()
