#!/bin/bash
# Applies every stored seed to /repo in turn, runs all checks, prints which fired, undoes it.
cd /verif
for d in seeded/*/; do
  id=$(basename $d)
  if ! git -C /repo apply --check /verif/$d/patch.diff 2>/dev/null; then echo "$id: patch does not apply to the current tree (base moved)"; continue; fi
  git -C /repo apply /verif/$d/patch.diff
  out=""
  for i in $(seq 2 19); do c=$(printf "C%02d" $i)
    SA_EVIDENCE_DIR=/tmp/ev_matrix /venv/bin/python -m sa check $c > /tmp/ev_matrix_$c.log 2>&1; rc=$?
    if [ $rc -ne 0 ]; then out="$out $c:$rc"; fi
  done
  git -C /repo checkout -- .
  echo "$id ->$out"
done
rm -rf /tmp/ev_matrix /tmp/ev_matrix_*.log
git -C /repo status --short | head -3
