#!/bin/bash
# Applies every stored seed to /repo in turn (git -C /repo apply), runs all checks, records which spoke in the seed's
# meta.json ("matrix_on_repo"), and undoes it straight afterwards (git -C /repo checkout -- .).
cd /verif
for d in seeded/*/; do
  id=$(basename $d)
  if ! git -C /repo apply --check /verif/$d/patch.diff 2>/dev/null; then echo "$id: patch does not apply to the current tree (base moved)"; python3 tools/meta.py $id "matrix_on_repo=patch does not apply to the current tree (the defect it planted was repaired since)"; continue; fi
  git -C /repo apply /verif/$d/patch.diff
  # the 18 checks side by side (each reads /repo's working tree; evidence goes to a scratch directory)
  out=$(printf "%s\n" C02 C03 C04 C05 C06 C07 C08 C09 C10 C11 C12 C13 C14 C15 C16 C17 C18 C19 | xargs -P 16 -I{} sh -c 'SA_EVIDENCE_DIR=/tmp/ev_matrix/{} /venv/bin/python -m sa check {} 2>&1' | grep -E "^(VIOLATION|ANALYSIS-ERROR)" | sed -E 's/VIOLATION property=(C[0-9]+).*/\1:1/; s/ANALYSIS-ERROR property=(C[0-9]+).*/\1:2/' | sort -u | tr '\n' ' ')
  git -C /repo checkout -- .
  echo "$id -> $out"
  python3 tools/meta.py $id "matrix_on_repo=${out:-none}"
done
rm -rf /tmp/ev_matrix
git -C /repo status --short | head -3
