#!/usr/bin/env python3
"""tools/meta.py <seed-id> key=value [key=value ...]  -- set fields of seeded/<id>/meta.json"""
import json, os, sys
p = os.path.join(os.path.dirname(os.path.dirname(os.path.abspath(__file__))), "seeded", sys.argv[1], "meta.json")
m = json.load(open(p))
for kv in sys.argv[2:]:
    k, v = kv.split("=", 1)
    m[k] = v
json.dump(m, open(p, "w"), indent=1)
