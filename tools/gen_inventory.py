#!/usr/bin/env python3
"""Regenerate sa/inventory.json: the keys of all functions of the tree the rules were written against (run on the
pinned tree, after a reviewed change of /repo that adds or renames functions)."""
import ast, json, os, sys
sys.path.insert(0, os.path.dirname(os.path.dirname(os.path.abspath(__file__))))
from sa.inline import function_keys
root = os.path.join(os.environ.get("SA_REPO", "/repo"), "norminette")
keys = []
classes = []
for dp, dn, fns in os.walk(root):
    dn[:] = sorted(d for d in dn if d != "__pycache__")
    for fn in sorted(fns):
        if fn.endswith(".py"):
            path = os.path.join(dp, fn)
            rel = os.path.relpath(path, root)
            tree = ast.parse(open(path, encoding="utf-8").read())
            for key, *_ in function_keys(rel, tree):
                keys.append(key)
            for st in tree.body:
                if isinstance(st, ast.ClassDef):
                    classes.append(f"{rel}::{st.name}")
out = os.path.join(os.path.dirname(os.path.dirname(os.path.abspath(__file__))), "sa", "inventory.json")
json.dump({"comment": "function keys of the pinned tree (plus fix: commits); see sa/inline.py", "functions": sorted(keys), "classes": sorted(classes)},
          open(out, "w"), indent=0)
print(len(keys), "functions", len(classes), "classes")
