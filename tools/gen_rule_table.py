#!/usr/bin/env python3
"""Regenerate the rule inventory of DESIGN.md (between <!-- RULES-BEGIN --> and <!-- RULES-END -->) from the evidence
files written by the last `-m sa all` run (evidence/Cnn.json: coverage.per_rule)."""
import glob, json, os, re
HERE = os.path.dirname(os.path.dirname(os.path.abspath(__file__)))
rows = []
for f in sorted(glob.glob(os.path.join(HERE, "evidence", "C??.json"))):
    e = json.load(open(f))
    for rid, info in e["coverage"].get("per_rule", {}).items():
        st = " ".join(info["statement"].split())
        interp = bool(re.search(r"interpret|evaluat|abstract execution|stub", st, re.I))
        rows.append((e["property_id"], rid, info["instances"], "interpretation" if interp else "structural", st[:230] + ("…" if len(st) > 230 else "")))
out = ["| check | rule | instances today | decided by | statement (abridged) |", "|---|---|---|---|---|"]
for p, r, n, how, st in rows:
    out.append(f"| {p} | {r} | {n} | {how} | {st.replace('|', '/')} |")
path = os.path.join(HERE, "DESIGN.md")
s = open(path).read()
a, b = s.index("<!-- RULES-BEGIN -->"), s.index("<!-- RULES-END -->")
s = s[:a] + "<!-- RULES-BEGIN -->\n" + "\n".join(out) + "\n" + s[b:]
open(path, "w").write(s)
print(len(rows), "rules")
