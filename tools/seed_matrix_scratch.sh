#!/bin/bash
# Like seed_matrix.sh but on scratch copies under /dev/shm (safe while /repo is being read by other work), in parallel.
cd /verif
one() {
  d=$1; id=$(basename $d)
  T=$(mktemp -d /dev/shm/sa_sm.XXXXXX); git -C /repo archive HEAD norminette | tar -x -C "$T"; find "$T" -name __pycache__ -prune -exec rm -rf {} +
  if ! (cd "$T" && patch -s -p1 -f < /verif/$d/patch.diff >/dev/null 2>&1); then echo "$id: patch does not apply to the current tree"; rm -rf "$T"; return; fi
  out=$(SA_REPO="$T" SA_EVIDENCE_DIR="$T/ev" /venv/bin/python -m sa all 2>&1 | grep -E "^(VIOLATION|ANALYSIS-ERROR)" | sed -E 's/VIOLATION property=(C[0-9]+).*/\1:1/; s/ANALYSIS-ERROR property=(C[0-9]+).*/\1:2/' | sort -u | tr '\n' ' ')
  echo "$id -> $out"
  rm -rf "$T"
}
export -f one
ls -d seeded/*/ | xargs -P 8 -I{} bash -c 'one {}' | sort
