#!/bin/bash
# usage: tools/trymut.sh <patch.diff> <Cnn> [<Cnn> ...]
# Applies a patch to a scratch copy of /repo/norminette (under /dev/shm) and runs the given checks on the copy.
set -u
P=$(realpath "$1"); shift
T=$(mktemp -d /dev/shm/sa_mut.XXXXXX)
trap 'rm -rf "$T"' EXIT
git -C /repo archive HEAD norminette | tar -x -C "$T"
find "$T" -name __pycache__ -prune -exec rm -rf {} +
if ! (cd "$T" && patch -s -p1 < "$P"); then echo "PATCH-FAILED $P"; exit 3; fi
cd /verif
for c in "$@"; do
  SA_REPO="$T" SA_EVIDENCE_DIR="$T/evidence" /venv/bin/python -m sa check "$c" 2>&1 | sed "s|$T|<copy>|g" | tail -${TAILN:-6}
done
